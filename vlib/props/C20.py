"""C20 — operations never modify caller arrays or previously stored results.

Three ties between the Lean heap model (GSV/Model/Heap.lean) and the real package:
  * static scan (python `ast`): every in-place site of /repo/src/gstools (augmented assignment, slice/attribute
    assignment, `out=`, in-place ndarray methods, helpers that write into a parameter) is translated, together with
    the data flow that reaches it, into a structured heap program; the *Lean* ownership analysis (`safeP`, proved
    sound in GSV/Lemmas/Heap.lean) must accept every function.  A site the analysis cannot prove to write into
    memory allocated by the same call, and that is not whitelisted below with a reason, breaks the tie.
  * primitives: the modelled numpy rules (asarray / reshape / np.array / ma.array / filled / `op=` / item assignment /
    mask assignment) are compared with numpy itself on every object class the harness uses.
  * entry points: every modelled public entry point x role x layout x option combination is executed on the real
    API with byte-wise snapshots of caller arrays and earlier results and with np.shares_memory on every output;
    the set of mutated roles and the aliasing pattern of the outputs must equal what the Lean program predicts.
The search runs the same sweep wider (all normalizers / kriging variants / transforms / generators / model functions,
read-only arrays, roles sharing one buffer, random store/transform histories); a caller-visible write is reported
with key `aliasing:<entrypoint>:<role>`.
"""
import ast
import copy as _copy
import itertools
import os
import warnings

import numpy as np

from proto import run_driver

NEEDS_DRIVER = True
ASSUMPTIONS = [
    "numpy's aliasing rules are modelled (asarray = alias iff float64 ndarray, reshape = view iff possible, np.array = copy, "
    "boolean/fancy indexing and arithmetic = new array, op= / item assignment write through); the rules are compared with numpy "
    "on every object class used, not proved",
    "the entry-point programs of GSV/Model/Heap.lean are hand-written; they are tied to the code by the observed mutation and "
    "aliasing pattern of every output, and the in-place sites of the package are re-translated from the source on every run",
    "scipy (curve_fit, cdist, pinv/inv) and user callables (mean/trend/drift functions, transform functions) are assumed not to "
    "write into the arrays they are given; the compiled kernels declare every array parameter `const` (checked on the .pyx text)",
    "python containers (dict/list arguments such as curve_fit_kwargs) are outside the statement, which is about arrays",
]
TRUSTED_EXTRA = ["python ast and the syntax-directed translation of in-place sites into heap programs (vlib/props/C20.py)"]

SRC = os.path.join(os.environ.get("GSV_REPO", "/repo"), "src", "gstools")

# ----------------------------------------------------------------------------------------------------------------
# variables / names shared with GSV/Model/Heap.lean
# ----------------------------------------------------------------------------------------------------------------
V = dict(pos=0, field=1, bins=2, mask=3, direction=4, extDrift=5, condPos=6, condVal=7, condErr=8, xData=9, yData=10,
         weights=11, pointVol=12, data=13, anis=14, angles=15, lenScale=16)
N = dict(field=0, rawField=1, rawKrige=2, krigeField=3, krigeVar=4, meanField=5, new=6, pos=7, condPos=8, condVal=9,
         condErr=10, condExt=11, krigePos=12, krigeMat=13, anis=14, angles=15)
N_INV = {v: k for k, v in N.items()}

LAYOUTS = ["alias", "i64", "f32", "list", "strided"]


def mk(values, layout):
    """the same numbers in a given layout.  'alias' = float64 C-contiguous (the aliasing-enabling one)"""
    a = np.array(values, dtype=np.double)
    if layout == "alias":
        return a
    if layout == "ro":
        a.flags.writeable = False
        return a
    if layout == "i64":
        return np.array(np.round(a), dtype=np.int64)
    if layout == "f32":
        return a.astype(np.float32)
    if layout == "list":
        return a.tolist()
    if layout == "strided":       # float64 view with a step: asarray aliases, reshape to another shape copies
        big = np.zeros(a.shape[:-1] + (2 * a.shape[-1],))
        big[..., ::2] = a
        return big[..., ::2]
    if layout == "fortran":
        return np.asfortranarray(a)
    raise ValueError(layout)


def snap(x):
    if isinstance(x, np.ma.MaskedArray):
        return (np.ma.getdata(x).tobytes(), np.ma.getmaskarray(x).tobytes() if x.mask is not np.ma.nomask else b"nomask",
                x.shape, str(x.dtype))
    if isinstance(x, np.ndarray):
        return (x.tobytes(), x.shape, str(x.dtype))
    if isinstance(x, (list, tuple)):
        return tuple(snap(e) for e in x)
    return repr(x)


def parts(name, x):
    """split a role into the memory blocks it owns: [(part name, ndarray)]"""
    if isinstance(x, np.ma.MaskedArray):
        out = [(name, np.ma.getdata(x))]
        if x.mask is not np.ma.nomask:
            out.append((name + ".mask", x.mask))
        return out
    if isinstance(x, np.ndarray):
        return [(name, x)]
    if isinstance(x, (list, tuple)) and x and all(isinstance(e, np.ndarray) for e in x):
        return [(f"{name}[{i}]", e) for i, e in enumerate(x)]
    return []


def shares(a, b):
    if not isinstance(a, np.ndarray) or not isinstance(b, np.ndarray) or a.size == 0 or b.size == 0:
        return False
    return bool(np.shares_memory(a, b))


class Case:
    """one call of the real API together with its description for the Lean model"""

    def __init__(self, entry, ep, cfg, roles, call, stored=None, targets=None, variant="", skip_alias=(), key=None):
        self.entry = entry            # human name of the real entry point
        self.ep = ep                  # Lean EP
        self.cfg = cfg                # Lean Cfg flags
        self.roles = roles            # role name -> caller object
        self.call = call              # () -> {output name: array}
        self.stored = stored or {}    # attr name -> array stored before the call
        self.targets = targets or {}  # role name -> shape the code reshapes it to
        self.variant = variant
        self.skip_alias = set(skip_alias)
        self.key = key or entry

    # -- the heap description handed to the Lean driver
    def lean_op(self):
        blocks = []   # (block name, ndarray) with buffer id = index; blocks sharing memory get the same id
        ids = {}

        def buf_of(name, arr):
            for i, (n2, a2) in enumerate(blocks):
                if shares(arr, a2):
                    ids[name] = i
                    return i
            blocks.append((name, arr))
            ids[name] = len(blocks) - 1
            return len(blocks) - 1

        def binding(key, name, obj):
            if isinstance(obj, np.ma.MaskedArray):
                bufs = [buf_of(name, np.ma.getdata(obj))]
                mask = [buf_of(name + ".mask", obj.mask)] if obj.mask is not np.ma.nomask else []
                f64 = obj.dtype == np.float64
            elif isinstance(obj, np.ndarray):
                bufs, mask, f64 = [buf_of(name, obj)], [], obj.dtype == np.float64
            else:
                bufs, mask, f64 = [], [], False
            view = True
            if isinstance(obj, np.ndarray) and name in self.targets:
                base = np.ma.getdata(obj) if isinstance(obj, np.ma.MaskedArray) else obj
                try:
                    view = shares(base, base.reshape(self.targets[name]))
                except ValueError:
                    view = True
            return {"key": key, "bufs": bufs, "mask": mask, "f64": bool(f64), "view": bool(view)}

        env = [binding(V[r], r, o) for r, o in self.roles.items()]
        attrs = [binding(N[n], "attr:" + n, o) for n, o in self.stored.items()]
        op = {"op": "heap_ep", "ep": self.ep, "cfg": self.cfg, "next": len(blocks), "env": env, "attrs": attrs}
        if self.variant:
            op["variant"] = self.variant
        return op, ids

    def observe(self):
        """run the real call; returns (mutated block names, outputs, error string)"""
        mem = []
        for r, o in self.roles.items():
            mem += parts(r, o)
        for n, o in self.stored.items():
            mem += parts("attr:" + n, o)
        before = {n: snap(a) for n, a in mem}
        whole = {r: snap(o) for r, o in self.roles.items()}
        err = None
        outs = {}
        with warnings.catch_warnings():
            warnings.simplefilter("ignore")
            try:
                outs = self.call() or {}
            except Exception as e:   # noqa: BLE001 - canonicalised below
                err = f"{type(e).__name__}: {str(e)[:120]}"
        mutated = sorted(n for n, a in mem if snap(a) != before[n])
        for r, o in self.roles.items():   # lists and other containers
            if snap(o) != whole[r] and not any(m == r or m.startswith(r + ".") or m.startswith(r + "[") for m in mutated):
                mutated.append(r)
        return mutated, outs, err, dict(mem)


def compare(case, lean):
    """-> (record, list of disagreement strings, list of violations)"""
    op, ids = case._op
    mutated, outs, err, mem = case._obs
    inv = {}
    for n, i in ids.items():
        inv.setdefault(i, []).append(n)
    pred_mut = sorted(n for i in lean["written"] for n in inv.get(i, []))
    dis = []
    viol = [{"key": f"aliasing:{case.key}:{m}", "what": f"{case.entry} changed the caller's / previously stored '{m}'",
             "case": case.describe()} for m in mutated]
    if err and "read-only" in err:
        viol.append({"key": f"aliasing:{case.key}:readonly", "what": f"{case.entry} tried to write into a read-only input: {err}",
                     "case": case.describe()})
    if sorted(mutated) != pred_mut:
        dis.append(f"mutated roles: model {pred_mut}, implementation {sorted(mutated)}")
    if not lean["safe"] and not pred_mut and not mutated:
        pass  # an unsafe program that writes nothing on this heap is fine
    # aliasing pattern of the outputs
    pred_objs = {}
    for i, o in enumerate(lean["rets"]):
        pred_objs[f"ret{i}"] = set(o["bufs"]) | set(o["mask"])
    for a in lean["attrs"]:
        pred_objs["attr:" + N_INV.get(a["name"], str(a["name"]))] = set(a["obj"]["bufs"]) | set(a["obj"]["mask"])
    pat_obs, pat_pred = [], []
    if err is None:
        names = sorted(outs)
        for o in names:
            if o in case.skip_alias:
                continue
            if o not in pred_objs:
                dis.append(f"output {o} not produced by the model")
                continue
            arr = outs[o]
            arr_parts = [p for _, p in parts(o, arr)] if isinstance(arr, np.ndarray) else []
            for blk, a in mem.items():
                ob = any(shares(p, a) for p in arr_parts)
                pr = ids[blk] in pred_objs[o]
                if ob:
                    pat_obs.append(f"{o}~{blk}")
                if pr:
                    pat_pred.append(f"{o}~{blk}")
            for o2 in names:
                if o2 <= o or o2 in case.skip_alias or o2 not in pred_objs:
                    continue
                a2 = outs[o2]
                p2 = [p for _, p in parts(o2, a2)] if isinstance(a2, np.ndarray) else []
                if any(shares(p, q) for p in arr_parts for q in p2):
                    pat_obs.append(f"{o}~{o2}")
                if pred_objs[o] & pred_objs[o2]:
                    pat_pred.append(f"{o}~{o2}")
        if sorted(set(pat_obs)) != sorted(set(pat_pred)):
            dis.append(f"aliasing of outputs: model {sorted(set(pat_pred))}, implementation {sorted(set(pat_obs))}")
    rec = {"entry": case.entry, "ep": case.ep, "cfg": {k: v for k, v in case.cfg.items() if v}, "layouts": case.layouts,
           "mutated": mutated, "aliases": sorted(set(pat_obs)), "error": err, "safe": lean["safe"]}
    return rec, dis, viol


def _describe(self):
    return {"entry": self.entry, "ep": self.ep, "cfg": {k: v for k, v in self.cfg.items() if v},
            "layouts": getattr(self, "layouts", {}), "roles": {r: (np.asarray(o).tolist() if not isinstance(o, np.ma.MaskedArray)
                                                                  else {"data": o.data.tolist(), "mask": np.ma.getmaskarray(o).tolist()})
                                                               for r, o in self.roles.items()}}


Case.describe = _describe


def run_cases(cases):
    """execute the real calls, then the Lean programs, and compare"""
    ops = []
    for c in cases:
        c._op = c.lean_op()          # describe the heap BEFORE the call (blocks, sharing, flags)
        ops.append(c._op[0])
    for c in cases:
        c._obs = c.observe()
    res = run_driver(ops)
    recs, dis, viol = [], [], []
    for c, r in zip(cases, res):
        if isinstance(r, dict) and "error" in r:
            dis.append({"what": f"driver error for {c.entry}: {r['error']}", "case": c.describe()})
            continue
        rec, d, v = compare(c, r)
        recs.append(rec)
        for x in d:
            dis.append({"what": f"{c.entry}: {x}", "case": c.describe(), "model": r})
        viol += v
    return recs, dis, viol


# ----------------------------------------------------------------------------------------------------------------
# case generators (real API)
# ----------------------------------------------------------------------------------------------------------------
def _gs():
    import gstools as gs
    return gs


def _pos2(rng, n):
    return np.round(rng.uniform(0, 10, size=(2, n)) * 4) / 4


def _mean_fn(x, y):
    return 0.5 + 0.25 * x


def cases_mean_norm_trend(rng, layouts, opts):
    gs = _gs()
    from gstools.normalizer import apply_mean_norm_trend, remove_trend_norm_mean
    out = []
    n = 6
    for fn, ep in ((apply_mean_norm_trend, "applyMNT"), (remove_trend_norm_mean, "removeTNM")):
        for lay_f, lay_p, stacked, check, opt in itertools.product(layouts, layouts[:2], (False, True), (True, False), opts):
            pos = mk(_pos2(rng, n), lay_p)
            shape = (2, n) if stacked else (n,)
            vals = np.round(rng.uniform(4, 9, size=shape))
            field = mk(vals, lay_f)
            if not check and not isinstance(field, np.ndarray):
                pass  # check_shape=False: the code only needs np.array(field) to work
            kw = dict(mean=opt.get("mean"), trend=opt.get("trend"), normalizer=opt.get("normalizer"),
                      check_shape=check, stacked=stacked)
            if check and not isinstance(field, np.ndarray):
                continue   # field.shape is read before conversion
            if fn is remove_trend_norm_mean and opt.get("fit"):
                kw["fit_normalizer"] = True

            def call(fn=fn, pos=pos, field=field, kw=kw):
                r = fn(pos, field, **kw)
                return {"ret0": r[0] if isinstance(r, tuple) else r}
            c = Case(fn.__name__, ep, {"checkShape": check, "stacked": stacked}, {"pos": pos, "field": field}, call,
                     targets={"field": shape, "pos": (2, n)})
            c.layouts = {"field": lay_f, "pos": lay_p, "opt": opt.get("name")}
            out.append(c)
    return out


def norm_options(full):
    gs = _gs()
    o = [{"name": "mean+trend", "mean": 1.5, "trend": _mean_fn},
         {"name": "lognormal+mean", "mean": 0.25, "normalizer": gs.normalizer.LogNormal(), "trend": 2.0}]
    if full:
        o += [{"name": "plain"}, {"name": "fit-boxcox", "normalizer": gs.normalizer.BoxCox(lmbda=0.5), "fit": True, "trend": 0.5},
              {"name": "yeojohnson", "normalizer": gs.normalizer.YeoJohnson(lmbda=0.7), "mean": _mean_fn}]
    return o


def cases_normalizer(rng, layouts, full):
    gs = _gs()
    Ns = [gs.normalizer.LogNormal, gs.normalizer.BoxCox, gs.normalizer.YeoJohnson]
    if full:
        Ns += [gs.normalizer.Normalizer, gs.normalizer.BoxCoxShift, gs.normalizer.Modulus, gs.normalizer.Manly]
    out = []
    for cls in Ns:
        for lay in layouts:
            for meth in ("normalize", "denormalize", "derivative") + (("fit", "loglikelihood", "likelihood") if full or cls is Ns[0] else ()):
                vals = np.round(rng.uniform(1, 5, size=(2, 5)) * 2) / 2
                if rng.rand() < 0.5:
                    vals[0, 1] = np.nan
                data = mk(np.nan_to_num(vals, nan=2.0) if lay == "i64" else vals, lay)
                nz = cls()

                def call(nz=nz, meth=meth, data=data):
                    r = getattr(nz, meth)(data)
                    return {"ret0": r} if isinstance(r, np.ndarray) and meth in ("normalize", "denormalize", "derivative") else {}
                ep = "normalizerCall" if meth in ("normalize", "denormalize", "derivative") else "normalizerFit"
                c = Case(f"{cls.__name__}.{meth}", ep, {}, {"data": data}, call, key=f"Normalizer.{meth}")
                c.layouts = {"data": lay, "class": cls.__name__}
                out.append(c)
    return out


def _field_obj(rng, opt, cls="Field", dim=2):
    gs = _gs()
    model = gs.Exponential(dim=dim, var=2.0, len_scale=3.0)
    kw = dict(mean=opt.get("mean"), trend=opt.get("trend"), normalizer=opt.get("normalizer"))
    if cls == "Field":
        return gs.field.Field(model, **kw)
    if cls == "SRF":
        return gs.SRF(model, seed=int(rng.randint(1 << 20)), mode_no=16, upscaling=opt.get("upscaling", "no_scaling"), **kw)
    raise ValueError(cls)


def cases_field_call(rng, layouts, opts, full):
    out = []
    n = 6
    for lay_f, lay_p, process, store, structured, opt in itertools.product(
            layouts + [None], layouts[:2], (True, False), (True, "new", False), (False, True) if full else (False,), opts):
        fld = _field_obj(rng, opt)
        if structured:
            pos = (mk([0., 1., 2.], lay_p), mk([0., 1.], lay_p))
            shape = (3, 2)
            tot = 6
        else:
            pos = mk(_pos2(rng, n), lay_p)
            shape, tot = (n,), n
        # the field is given flat for structured meshes with the strided layout (reshape must copy)
        fvals = np.round(rng.uniform(1, 9, size=(tot,) if (structured and lay_f == "strided") else shape))
        field = None if lay_f is None else mk(fvals, lay_f)
        roles = {"pos": pos} if not structured else {}
        if field is not None:
            roles["field"] = field
        name = "new" if store == "new" else "field"

        def call(fld=fld, pos=pos, field=field, process=process, store=store, structured=structured, name=name):
            r = fld(pos, field=field, mesh_type="structured" if structured else "unstructured", post_process=process, store=store)
            o = {"ret0": r}
            if store:
                o["attr:" + name] = fld[name]
            if not structured:
                o["attr:pos"] = fld.pos
            return o
        c = Case("Field.__call__", "fieldCall", {"fieldGiven": field is not None, "process": process, "save": bool(store),
                                                 "storeNew": store == "new"}, roles, call,
                 targets={"field": shape, "pos": (2, n)}, skip_alias=() if not structured else ("attr:pos",))
        c.layouts = {"field": lay_f, "pos": lay_p, "opt": opt.get("name"), "structured": structured}
        out.append(c)
    return out


def cases_srf_call(rng, layouts, opts, full):
    gs = _gs()
    out = []
    n = 5
    for lay_p, lay_v, process, store, opt in itertools.product(layouts[:3], layouts + [None], (True, False),
                                                               (True, "new", False), opts[:2] if not full else opts):
        o2 = dict(opt)
        if lay_v is not None:
            o2["upscaling"] = "coarse_graining"
        srf = _field_obj(rng, o2, "SRF")
        pos = mk(_pos2(rng, n), lay_p)
        if lay_v == "list":
            continue   # upscaling needs an ndarray (documented)
        vol = None if lay_v is None else mk(np.round(rng.uniform(1, 3, size=n)), lay_v)
        roles = {"pos": pos}
        if vol is not None:
            roles["pointVol"] = vol
        name = "new" if store == "new" else "field"

        def call(srf=srf, pos=pos, vol=vol, process=process, store=store, name=name):
            r = srf(pos, seed=7, point_volumes=0.0 if vol is None else vol, post_process=process, store=store)
            o = {"ret0": r, "attr:pos": srf.pos}
            if store:
                o["attr:" + name] = srf[name]
            return o
        c = Case("SRF.__call__", "srfCall", {"upscale": vol is not None, "process": process, "save": bool(store),
                                             "storeNew": store == "new"}, roles, call, targets={"pos": (2, n)})
        c.layouts = {"pos": lay_p, "pointVol": lay_v, "opt": opt.get("name")}
        out.append(c)
    return out


def cases_transform(rng, layouts, opts, full):
    """fld.transform(method, field, store, process) on a stored field that the 'caller' still holds"""
    gs = _gs()
    mv = {}
    methods = [("binary", {"divide": 2.0, "upper": 3.0, "lower": 1.0}), ("discrete", {"values": [0.0, 1.0, 2.0]}),
               ("boxcox", {"lmbda": 0.5, "shift": 20.0}), ("zinnharvey", dict(mv)),
               ("normal_force_moments", {}), ("normal_to_lognormal", {}), ("normal_to_uniform", dict(mv)), ("normal_to_arcsin", dict(mv)),
               ("normal_to_uquad", dict(mv)), ("function", {"function": lambda x: x * 2.0}), ("function", {"function": lambda x: x})]
    if not full:
        methods = [methods[0], methods[2], methods[5], methods[9], methods[10]]
    out = []
    n = 6
    for (meth, kw), process, store, opt in itertools.product(methods, (True, False), (True, "new", False), opts):
        o2 = dict(opt)
        kw = dict(kw)
        if meth == "normal_force_moments":
            o2 = {"name": "const-mean", "mean": 1.0}   # checks for a plain normal field even with process=True
        elif meth in ("zinnharvey", "normal_to_uniform", "normal_to_arcsin", "normal_to_uquad"):
            if not process:
                o2 = {"name": "const-mean", "mean": 1.0}
            elif not isinstance(o2.get("mean"), float):
                kw["keep_mean"] = False
        fld = _field_obj(rng, o2)
        pos = _pos2(rng, n)
        base = np.round(rng.uniform(1, 4, size=n) * 2) / 2
        fld(pos, field=base, post_process=False, store="field")   # stores `base` itself (float64, right shape)
        stored = {"field": fld["field"]}
        ident = meth == "function" and kw["function"](base) is base
        name = "new" if store == "new" else "field"

        def call(fld=fld, meth=meth, kw=kw, process=process, store=store, name=name):
            r = fld.transform(meth, field="field", store=store, process=process, **kw)
            o = {"ret0": r}
            if store:
                o["attr:" + name] = fld[name]
            if store == "new":
                o["attr:field"] = fld["field"]
            return o
        c = Case(f"transform.{meth}" + ("(identity)" if ident else ""), "transform",
                 {"process": process, "fnIdentity": ident, "storeNew": store == "new", "save": bool(store)}, {}, call, stored=stored,
                 key=f"transform.{meth}")
        c.layouts = {"opt": o2.get("name"), "store": store}
        out.append(c)
    return out


def _krige(rng, kind, cond_pos, cond_val, opt, **kw):
    gs = _gs()
    model = gs.Gaussian(dim=2, var=2.0, len_scale=4.0, nugget=0.1)
    common = dict(normalizer=opt.get("normalizer"), trend=opt.get("trend"))
    if kind == "simple":
        return gs.krige.Simple(model, cond_pos, cond_val, mean=opt.get("mean") if not callable(opt.get("mean")) else 1.0, **common, **kw)
    if kind == "ordinary":
        return gs.krige.Ordinary(model, cond_pos, cond_val, **common, **kw)
    if kind == "universal":
        return gs.krige.Universal(model, cond_pos, cond_val, "linear", **common, **kw)
    if kind == "extdrift":
        return gs.krige.ExtDrift(model, cond_pos, cond_val, **common, **kw)
    if kind == "detrended":
        return gs.krige.Detrended(model, cond_pos, cond_val, _mean_fn, **kw)
    raise ValueError(kind)


def cases_krige(rng, layouts, opts, full):
    out = []
    m, n = 5, 4
    kinds = ["simple", "ordinary", "universal", "extdrift", "detrended"]
    # --- set_condition / constructor
    for kind, lay, err_arr, fitn, fitv, opt in itertools.product(kinds, layouts, (False, True), (False, True) if full else (False,),
                                                               (False, True) if full else (False,), opts[:2]):
        if (fitv and kind == "extdrift") or ((fitn or fitv) and kind == "detrended"):
            continue
        cp = mk(_pos2(rng, m), lay)
        cv = mk(np.round(rng.uniform(4, 9, size=m)) + np.arange(m) / 4.0, lay)
        ed = mk(np.round(rng.uniform(1, 5, size=(1, m))), lay) if kind == "extdrift" else None
        ce = mk(np.round(rng.uniform(1, 4, size=m)) / 64, "alias" if lay in ("i64", "list") and False else lay) if err_arr else None
        if err_arr and lay == "i64":
            ce = mk(np.zeros(m), lay)
        roles = {"condPos": cp, "condVal": cv}
        kw = {}
        if ed is not None:
            roles["extDrift"] = ed
            kw["ext_drift"] = ed
        if ce is not None:
            roles["condErr"] = ce
            kw["cond_err"] = ce
        if fitn:
            kw["fit_normalizer"] = True
        if fitv:
            kw["fit_variogram"] = True
        o2 = dict(opt)
        if fitn and o2.get("normalizer") is None:
            o2["normalizer"] = _gs().normalizer.BoxCox(lmbda=0.7)

        def call(kind=kind, cp=cp, cv=cv, o2=o2, kw=kw, ed=ed, ce=ce):
            k = _krige(rng, kind, cp, cv, o2, **kw)
            o = {"attr:condPos": k.cond_pos, "attr:condVal": k.cond_val, "attr:krigePos": k._krige_pos, "attr:krigeMat": k._krige_mat,
                 "attr:condExt": k.cond_ext_drift}
            if ce is not None and isinstance(k._cond_err, np.ndarray):
                o["attr:condErr"] = k._cond_err
            return o
        c = Case(f"Krige[{kind}].set_condition", "krigeSetCond",
                 {"fitNorm": fitn, "fitVario": fitv, "condErrArr": ce is not None, "extDrift": ed is not None}, roles, call,
                 targets={"condPos": (2, m), "condVal": (m,), "condErr": (m,), "extDrift": (1, m)}, key="Krige.set_condition")
        c.layouts = {"all": lay, "kind": kind, "opt": o2.get("name"), "fit": [fitn, fitv]}
        out.append(c)
    # --- __call__
    for kind, lay, only_mean, ret_var, process, store, opt in itertools.product(
            kinds, layouts, (False, True), (True, False), (True, False), (True, False) if full else (True,), opts[:2]):
        if only_mean and kind == "detrended":
            continue
        cp, cv = _pos2(rng, m), np.round(rng.uniform(1, 9, size=m))
        kw = {"ext_drift": np.round(rng.uniform(1, 5, size=(1, m)))} if kind == "extdrift" else {}
        k = _krige(rng, kind, cp, cv, opt, **kw)
        pos = mk(_pos2(rng, n), lay)
        roles = {"pos": pos}
        ckw = {}
        if kind == "extdrift":
            ed = mk(np.round(rng.uniform(1, 5, size=(1, n))), lay)
            roles["extDrift"] = ed
            ckw["ext_drift"] = ed

        def call(k=k, pos=pos, ckw=ckw, only_mean=only_mean, ret_var=ret_var, process=process, store=store):
            r = k(pos, only_mean=only_mean, return_var=ret_var, post_process=process, store=store, **ckw)
            o = {"attr:pos": k.pos}
            if isinstance(r, tuple):
                o["ret0"], o["ret1"] = r
            else:
                o["ret0"] = r
            if store:
                if only_mean:
                    o["attr:meanField"] = k["mean_field"]
                else:
                    o["attr:krigeField"] = k["field"]
                    if ret_var:
                        o["attr:krigeVar"] = k["krige_var"]
            return o
        c = Case(f"Krige[{kind}].__call__", "krigeCall",
                 {"returnVar": ret_var, "onlyMean": only_mean, "extDrift": kind == "extdrift", "process": process, "save": bool(store)},
                 roles, call, targets={"pos": (2, n), "extDrift": (1, n)}, key="Krige.__call__")
        c.layouts = {"all": lay, "kind": kind, "opt": opt.get("name")}
        out.append(c)
    return out


def cases_condsrf(rng, layouts, opts, full):
    gs = _gs()
    out = []
    m, n = 4, 5
    for lay, process, store, reuse, opt in itertools.product(layouts[:3], (True, False), (True, False), (False, True), opts[:2]):
        cp, cv = _pos2(rng, m), np.round(rng.uniform(1, 9, size=m))
        k = _krige(rng, "ordinary", cp, cv, opt)
        cs = gs.CondSRF(k, seed=3, mode_no=16)
        pos = mk(_pos2(rng, n), lay)
        stored = {}
        if reuse:
            if not store:
                continue
            cs(pos, seed=5, post_process=process)      # first call fills raw_krige / krige_var; the caller keeps them
            stored = {"rawKrige": cs["raw_krige"], "krigeVar": k["krige_var"], "field": cs["field"], "rawField": cs["raw_field"],
                      "krigeField": k["field"]}

        def call(cs=cs, k=k, pos=pos, process=process, store=store, reuse=reuse):
            r = cs(None if reuse else pos, seed=9, post_process=process, store=store)
            o = {"ret0": r}
            if store:
                o.update({"attr:field": cs["field"], "attr:rawField": cs["raw_field"], "attr:rawKrige": cs["raw_krige"],
                          "attr:krigeField": k["field"], "attr:krigeVar": k["krige_var"]})
            return o
        c = Case("CondSRF.__call__", "condSrfCall", {"reuse": reuse, "keepKrige": reuse, "process": process, "save": bool(store)},
                 {} if reuse else {"pos": pos}, call, stored=stored, targets={"pos": (2, n)}, skip_alias=("attr:pos",))
        c.layouts = {"pos": lay, "opt": opt.get("name"), "reuse": reuse}
        out.append(c)
    return out


def cases_vario(rng, layouts, opts, full):
    gs = _gs()
    out = []
    n = 9
    combos = itertools.product(layouts, ("plain", "masked", "maskarg", "allmasked"), (None, "given"), (False, True),
                               (None, "one", "two"), (False, True), (False, True), opts[:2] if not full else opts)
    for lay, mkind, bins_k, latlon, dirs, nodata, sampling, opt in combos:
        if not full and rng.rand() < 0.6:
            continue
        if latlon and dirs:
            continue
        pos_v = _pos2(rng, n)
        if latlon:
            pos_v = np.vstack([np.round(rng.uniform(-60, 60, n)), np.round(rng.uniform(-100, 100, n))])
        pos = mk(pos_v, lay)
        F = 2
        fvals = np.round(rng.uniform(1, 9, size=(F, n)))
        field = mk(fvals, lay)
        roles = {"pos": pos}
        kw = dict(mean=opt.get("mean"), trend=opt.get("trend"), normalizer=opt.get("normalizer"), latlon=latlon,
                  geo_scale=gs.KM_SCALE if latlon else 1.0, return_counts=True)
        cfg = {"latlon": latlon}
        if mkind == "masked" and isinstance(field, np.ndarray):
            msk = np.zeros((F, n), bool)
            msk[:, 2] = True
            msk[0, 4] = True
            field = np.ma.array(field, mask=msk)
            cfg["masked"] = True
        roles["field"] = field
        if mkind in ("maskarg", "allmasked"):
            marg = np.zeros(n, bool)
            marg[1] = True
            if mkind == "allmasked":
                marg[:] = True
            roles["mask"] = marg
            kw["mask"] = marg
            cfg["masked"] = True
        if mkind == "allmasked":
            cfg["allMasked"] = True
        if bins_k:
            be = np.arange(0.0, 6.0) * (1500.0 if latlon else 2.0)
            bins = mk(be, lay)
            roles["bins"] = bins
            kw["bin_edges"] = bins
            cfg["binsGiven"] = True
        if dirs:
            d = np.array([[1.0, 0.0]]) if dirs == "one" else np.array([[1.0, 0.0], [0.0, 1.0]])
            d = mk(d, lay)
            roles["direction"] = d
            kw["direction"] = d
            cfg["directional"] = True
            cfg["oneDir"] = dirs == "one"
        if nodata:
            kw["no_data"] = float(fvals[0, 0])
            cfg["noData"] = True
        if sampling:
            kw["sampling_size"] = 5
            kw["sampling_seed"] = 1
            cfg["sampling"] = True

        def call(pos=pos, field=field, kw=kw):
            r = gs.vario_estimate(pos, field, **kw)
            return {f"ret{i}": x for i, x in enumerate(r)}
        c = Case("vario_estimate", "varioEstimate", cfg, roles, call,
                 targets={"pos": (2, n), "field": (F, n), "mask": (n,)})
        c.layouts = {"all": lay, "mask": mkind, "bins": bins_k, "dirs": dirs, "opt": opt.get("name")}
        out.append(c)
    # --- along an axis
    for lay, mkind, missing, axis in itertools.product(layouts + ["fortran"], ("plain", "masked", "nomask"), (None, "nan", "nodata"), (0, 1)):
        vals = np.round(rng.uniform(1, 9, size=(4, 3)))
        vals[0, 0] = 7.0
        if missing == "nan" and lay not in ("i64",):
            vals[1, 1] = np.nan
        field = mk(vals, lay)
        if mkind != "plain":
            if not isinstance(field, np.ndarray):
                continue
            if mkind == "masked":
                msk = np.zeros((4, 3), bool)
                msk[2, 0] = True
                field = np.ma.array(field, mask=msk)
            else:
                field = np.ma.array(field)
        kw = {"no_data": 7.0} if missing == "nodata" else {}
        is_missing = missing == "nodata" or (missing == "nan" and lay != "i64")

        def call(field=field, axis=axis, kw=kw):
            return {"ret0": gs.vario_estimate_axis(field, direction=axis, **kw)}
        c = Case("vario_estimate_axis", "varioAxis", {"masked": mkind == "masked", "missing": is_missing}, {"field": field}, call,
                 targets={"field": (4, 3)})
        c.layouts = {"field": lay, "mask": mkind, "missing": missing, "axis": axis}
        out.append(c)
    # --- standard_bins
    for lay, latlon, structured in itertools.product(layouts, (False, True), (False,)):
        pos = mk(np.vstack([np.round(rng.uniform(-60, 60, n)), np.round(rng.uniform(-100, 100, n))]), lay)

        def call(pos=pos, latlon=latlon):
            return {"ret0": gs.standard_bins(pos, dim=2, latlon=latlon)}
        c = Case("standard_bins", "standardBins", {"latlon": latlon}, {"pos": pos}, call, targets={"pos": (2, n)})
        c.layouts = {"pos": lay}
        out.append(c)
    return out


def cases_fit(rng, layouts, full):
    gs = _gs()
    out = []
    x = np.arange(1.0, 9.0)
    for lay, w, directional, latlon in itertools.product(layouts, (None, "arr"), (False, True), (False, True)):
        if directional and latlon:
            continue
        if not full and rng.rand() < 0.5:
            continue
        model = gs.Exponential(dim=2, latlon=latlon, geo_scale=gs.KM_SCALE if latlon else 1.0)
        xs = x * (300.0 if latlon else 1.0)
        y1 = np.round(2.0 * (1 - np.exp(-xs / xs[3])) * 16) / 16
        y = np.vstack([y1, y1 * 0.75]) if directional else y1
        xd, yd = mk(xs, lay), mk(y, lay)
        roles = {"xData": xd, "yData": yd}
        kw = {}
        if w:
            wd = mk(np.arange(1.0, 9.0), lay)
            if not isinstance(wd, np.ndarray):
                continue   # weights.size is read (documented: array)
            roles["weights"] = wd
            kw["weights"] = wd

        def call(model=model, xd=xd, yd=yd, kw=kw):
            r = model.fit_variogram(xd, yd, **kw)
            return {"ret0": r[1]}
        c = Case("CovModel.fit_variogram", "fitVariogram", {"directional": directional, "latlon": latlon, "weightsArr": bool(w)},
                 roles, call)
        c.layouts = {"all": lay}
        out.append(c)
    return out


def pure_functions(full):
    """(name, callable(array) -> array, sample values)"""
    gs = _gs()
    from gstools.tools import geometric as geo, special
    from gstools.transform import array as ta
    r = [0.0, 0.5, 1.0, 2.0, 3.5, 0.0]
    fns = []
    models = [gs.Gaussian, gs.Exponential, gs.Matern, gs.Stable, gs.Spherical, gs.Circular, gs.HyperSpherical, gs.SuperSpherical,
              gs.JBessel, gs.TPLGaussian, gs.TPLExponential, gs.TPLStable, gs.TPLSimple, gs.Cubic, gs.Linear, gs.Rational, gs.Integral]
    if not full:
        models = [gs.Matern, gs.Circular, gs.HyperSpherical, gs.JBessel, gs.TPLStable]
    for cls in models:
        m = cls(dim=2, var=2.0, len_scale=2.0, nugget=0.5)
        for meth in ("variogram", "covariance", "correlation", "cor", "vario_nugget", "cov_nugget", "spectral_density", "spectrum",
                     "spectral_rad_pdf", "ln_spectral_rad_pdf"):
            if hasattr(m, meth):
                fns.append((f"{cls.__name__}.{meth}", getattr(m, meth), r))
        fns.append((f"{cls.__name__}.vario_spatial", m.vario_spatial, [[0.0, 1.0, 2.0], [0.0, 0.5, 3.0]]))
        fns.append((f"{cls.__name__}.isometrize", m.isometrize, [[0.0, 1.0, 2.0], [0.0, 0.5, 3.0]]))
        fns.append((f"{cls.__name__}.anisometrize", m.anisometrize, [[0.0, 1.0, 2.0], [0.0, 0.5, 3.0]]))
    ll = gs.Exponential(latlon=True, geo_scale=gs.KM_SCALE, len_scale=500.0)
    fns.append(("latlon.isometrize", ll.isometrize, [[10.0, 20.0, -30.0], [5.0, 100.0, -170.0]]))
    fns.append(("latlon.vario_yadrenko", ll.vario_yadrenko, [0.0, 0.5, 1.0]))
    fns.append(("geometric.ang2dir", lambda a: geo.ang2dir(a, dim=3), [[0.0, 0.5], [1.0, 0.25]]))
    fns.append(("geometric.latlon2pos", geo.latlon2pos, [[10.0, 20.0, -30.0], [5.0, 100.0, -170.0]]))
    fns.append(("geometric.pos2latlon", geo.pos2latlon, [[1.0, 0.0, 0.5], [0.0, 1.0, 0.5], [0.0, 0.0, 0.5]]))
    fns.append(("geometric.chordal_to_great_circle", geo.chordal_to_great_circle, [0.0, 0.5, 1.5]))
    fns.append(("geometric.great_circle_to_chordal", geo.great_circle_to_chordal, [0.0, 0.5, 1.5]))
    fns.append(("geometric.generate_grid", lambda a: geo.generate_grid([a, a]), [0.0, 1.0, 2.0]))
    fns.append(("geometric.rotated_main_axes", lambda a: geo.rotated_main_axes(3, a), [0.25, 0.5, 1.0]))
    fns.append(("special.inc_gamma", lambda a: special.inc_gamma(1.5, a), r))
    fns.append(("special.inc_gamma_low", lambda a: special.inc_gamma_low(1.5, a), r))
    fns.append(("special.exp_int", lambda a: special.exp_int(1.5, a), r))
    fns.append(("special.inc_beta", lambda a: special.inc_beta(1.5, 2.0, a), [0.0, 0.25, 0.5, 1.0]))
    fns.append(("special.tplstable_cor", lambda a: special.tplstable_cor(a, 2.0, 0.5, 1.5), r))
    fns.append(("special.tpl_exp_spec_dens", lambda a: special.tpl_exp_spec_dens(a, 2, 2.0, 0.5), r))
    fns.append(("special.tpl_gau_spec_dens", lambda a: special.tpl_gau_spec_dens(a, 2, 2.0, 0.5), r))
    fns.append(("array.array_discrete", lambda a: ta.array_discrete(a, [0.0, 1.0, 2.0]), r))
    fns.append(("array.array_discrete(thresholds)", lambda a: ta.array_discrete(a, [0.0, 1.0, 2.0], thresholds=[0.5, 1.5]), r))
    fns.append(("array.array_boxcox", lambda a: ta.array_boxcox(a, 0.5, 1.0), r))
    fns.append(("array.array_zinnharvey", lambda a: ta.array_zinnharvey(a, "high", 1.0, 2.0), r))
    fns.append(("array.array_force_moments", ta.array_force_moments, r))
    fns.append(("array.array_to_lognormal", ta.array_to_lognormal, r))
    fns.append(("array.array_to_uniform", lambda a: ta.array_to_uniform(a, 1.0, 2.0), r))
    fns.append(("array.array_to_arcsin", lambda a: ta.array_to_arcsin(a, 1.0, 2.0), r))
    fns.append(("array.array_to_uquad", lambda a: ta.array_to_uquad(a, 1.0, 2.0), r))
    gen = gs.field.generator.RandMeth(gs.Gaussian(dim=2), mode_no=8, seed=1)
    fns.append(("RandMeth.__call__", gen, [[0.0, 1.0, 2.0], [0.0, 0.5, 3.0]]))
    fou = gs.field.generator.Fourier(gs.Gaussian(dim=2), period=[8.0, 8.0], mode_no=[4, 4], seed=1)
    fns.append(("Fourier.__call__", fou, [[0.0, 1.0, 2.0], [0.0, 0.5, 3.0]]))
    inc = gs.field.generator.IncomprRandMeth(gs.Gaussian(dim=2), mode_no=8, seed=1)
    fns.append(("IncomprRandMeth.__call__", inc, [[0.0, 1.0, 2.0], [0.0, 0.5, 3.0]]))
    return fns


def cases_pure(rng, layouts, full):
    out = []
    for name, fn, vals in pure_functions(full):
        for lay in layouts:
            if lay == "list" and ("tplstable_cor" in name or name.endswith(".cor")):
                continue   # low-level formulas applied to the raw argument: need an ndarray
            data = mk(vals, lay)

            def call(fn=fn, data=data):
                r = fn(data)
                return {"ret0": r} if isinstance(r, np.ndarray) else {}
            c = Case(name, "pureFn", {}, {"data": data}, call, key=name)
            c.layouts = {"data": lay}
            out.append(c)
    return out


def cases_covmodel(rng, layouts, full):
    """CovModel construction and the anis / angles / len_scale setters with array arguments"""
    gs = _gs()
    out = []
    classes = [gs.Gaussian, gs.Exponential] + ([gs.Matern, gs.Stable, gs.TPLStable, gs.JBessel] if full else [])
    for cls, lay, latlon, n_anis, how in itertools.product(classes, layouts, (False, True), (1, 3, 4), ("init", "setter", "len_scale")):
        dim = 4  # lat-lon + time: field dim 3 + 1; plain: dim=4
        anis = mk(np.arange(2.0, 2.0 + n_anis), lay)
        angles = mk(np.arange(1.0, 7.0) / 8, lay)
        kw0 = dict(latlon=True, temporal=True) if latlon else dict(dim=4)
        roles = {"anis": anis, "angles": angles}
        if how == "len_scale":
            ls = mk(np.arange(2.0, 2.0 + dim), lay)
            roles = {"lenScale": ls, "angles": angles}

        def call(cls=cls, kw0=kw0, anis=anis, angles=angles, how=how, roles=roles, latlon=latlon):
            if how == "init":
                m = cls(anis=anis, **({} if latlon else {"angles": angles}), **kw0)
            elif how == "setter":
                m = cls(**kw0)
                m.anis = anis
                if not latlon:
                    m.angles = angles
            else:
                m = cls(**kw0)
                m.len_scale = roles["lenScale"]
                if not latlon:
                    m.angles = angles
            return {"attr:anis": m.anis, "attr:angles": m.angles}
        if latlon:
            roles = {k: v for k, v in roles.items() if k != "angles"}
        c = Case(f"CovModel.{how}", "covModelInit", {"latlon": latlon, "pad": n_anis < dim - 1 or how == "len_scale"}, roles, call,
                 key="CovModel.anis(latlon)" if latlon else "CovModel.anis")
        c.layouts = {"all": lay, "class": cls.__name__, "n_anis": n_anis, "how": how}
        out.append(c)
    return out


def all_cases(rng, layouts, full):
    opts = norm_options(full)
    cs = []
    cs += cases_mean_norm_trend(rng, layouts, opts)
    cs += cases_normalizer(rng, layouts, full)
    cs += cases_field_call(rng, layouts, opts, full)
    cs += cases_srf_call(rng, layouts, opts, full)
    cs += cases_transform(rng, layouts, opts, full)
    cs += cases_krige(rng, layouts, opts, full)
    cs += cases_condsrf(rng, layouts, opts, full)
    cs += cases_vario(rng, layouts, opts, full)
    cs += cases_fit(rng, layouts, full)
    cs += cases_pure(rng, layouts, full)
    cs += cases_covmodel(rng, layouts, full)
    return cs


# ----------------------------------------------------------------------------------------------------------------
# static scan: python source -> structured heap programs -> Lean ownership analysis
# ----------------------------------------------------------------------------------------------------------------
UNKNOWN_ATTR = 999          # `.load d 999`: something reachable from object state / an opaque call: never owned
NP_ASARRAY = {"asarray", "asanyarray", "ascontiguousarray", "asfortranarray", "require", "nan_to_num"}
NP_VIEW = {"atleast_1d", "atleast_2d", "atleast_3d", "ravel", "squeeze", "swapaxes", "transpose", "moveaxis", "rollaxis",
           "expand_dims", "broadcast_to", "broadcast_arrays", "real", "imag", "diagonal", "diag", "flip", "fliplr", "flipud", "rot90",
           "getmaskarray", "getmask", "getdata", "split", "array_split", "hsplit", "vsplit", "nditer", "ndenumerate", "flatiter"}
NP_UFUNC2 = {"add", "subtract", "multiply", "divide", "true_divide", "floor_divide", "power", "maximum", "minimum", "fmax", "fmin", "mod",
             "remainder", "logical_and", "logical_or", "logical_xor", "arctan2", "hypot", "copysign", "greater", "less", "equal"}
NP_UFUNC1 = {"exp", "expm1", "log", "log1p", "log2", "log10", "sqrt", "square", "abs", "absolute", "fabs", "negative", "sign", "sin", "cos",
             "tan", "arcsin", "arccos", "arctan", "sinh", "cosh", "tanh", "floor", "ceil", "rint", "trunc", "isnan", "isfinite", "isinf",
             "logical_not", "reciprocal", "invert", "conj"}
NP_INPLACE_ARG0 = {"put", "place", "copyto", "putmask", "fill_diagonal", "put_along_axis", "shuffle"}
VIEW_METHODS = {"ravel", "squeeze", "swapaxes", "transpose", "view", "diagonal", "byteswap", "newbyteorder", "get", "values", "items",
                "pop", "setdefault", "popitem", "__getitem__", "harden_mask", "soften_mask", "unshare_mask", "shrink_mask"}
INPLACE_METHODS = {"sort", "fill", "resize", "put", "itemset", "partition", "byteswap", "setfield", "setflags", "reverse"}
CONTAINER_ABSORB = {"append", "extend", "insert", "update", "add"}
VIEW_ATTRS = {"T", "mT", "real", "imag", "flat", "data", "mask", "base", "recordmask"}
SCALAR_ATTRS = {"shape", "size", "ndim", "dtype", "itemsize", "nbytes", "strides", "flags", "fill_value"}
META_ATTRS = {"mask", "shape", "dtype", "strides", "fill_value", "flat", "data", "real", "imag"}
BUILTIN_FRESH = {"len", "float", "int", "bool", "str", "repr", "isinstance", "issubclass", "callable", "hasattr", "min", "max", "abs",
                 "sum", "round", "range", "type", "id", "hash", "format", "divmod", "pow", "ord", "chr", "any", "all", "print", "open",
                 "super", "object", "ValueError", "TypeError", "KeyError", "RuntimeError", "NotImplementedError", "Warning",
                 "slice", "complex", "bytes", "frozenset", "property", "staticmethod", "classmethod", "vars", "dir", "locals", "globals"}
BUILTIN_VIEW = {"list", "tuple", "set", "dict", "sorted", "reversed", "zip", "enumerate", "iter", "next", "map", "filter", "copy"}
CONTAINER_CTORS = {"list", "tuple", "set", "dict"}


def dotted(node):
    parts = []
    while isinstance(node, ast.Attribute):
        parts.append(node.attr)
        node = node.value
    if isinstance(node, ast.Name):
        parts.append(node.id)
        return ".".join(reversed(parts))
    return None


class FuncInfo:
    def __init__(self, rel, qual, node, is_method, cls):
        self.rel, self.qual, self.node, self.is_method, self.cls = rel, qual, node, is_method, cls
        a = node.args if not isinstance(node, ast.Module) and not isinstance(node, ast.ClassDef) else None
        self.params = [x.arg for x in (a.posonlyargs + a.args)] if a else []
        self.kwonly = [x.arg for x in a.kwonlyargs] if a else []
        self.vararg = a.vararg.arg if a and a.vararg else None
        self.kwarg = a.kwarg.arg if a and a.kwarg else None
        self.name = qual.split(".")[-1]
        self.private = self.name.startswith("_") and not (self.name.startswith("__") and self.name.endswith("__"))

    @property
    def key(self):
        return (self.rel, self.qual)


class Package:
    """all functions / classes / imports of the package"""

    def __init__(self, root):
        self.funcs = []
        self.by_name = {}
        self.classes = set()
        self.imports = {}   # rel -> {local name: ("mod", full) | ("obj", module, name)}
        self.sources = {}
        for d, _, files in sorted(os.walk(root)):
            for f in sorted(files):
                if not f.endswith(".py"):
                    continue
                path = os.path.join(d, f)
                rel = os.path.relpath(path, root)
                src = open(path).read()
                tree = ast.parse(src)
                self.sources[rel] = src
                imp = {}
                for n in ast.walk(tree):
                    if isinstance(n, ast.Import):
                        for a in n.names:
                            imp[a.asname or a.name.split(".")[0]] = ("mod", a.name if a.asname else a.name.split(".")[0])
                    elif isinstance(n, ast.ImportFrom):
                        for a in n.names:
                            imp[a.asname or a.name] = ("obj", n.module or "", a.name)
                self.imports[rel] = imp
                self._collect(rel, tree, "", None)
                self.funcs.append(FuncInfo(rel, "<module>", tree, False, None))
        for fi in self.funcs:
            self.by_name.setdefault(fi.name, []).append(fi)

    def _collect(self, rel, node, prefix, cls):
        for ch in ast.iter_child_nodes(node):
            if isinstance(ch, (ast.FunctionDef, ast.AsyncFunctionDef)):
                q = prefix + ch.name
                self.funcs.append(FuncInfo(rel, q, ch, cls is not None and bool(ch.args.args) and ch.args.args[0].arg in ("self", "cls"), cls))
                self._collect(rel, ch, q + ".", None)
            elif isinstance(ch, ast.ClassDef):
                self.classes.add(ch.name)
                self.funcs.append(FuncInfo(rel, prefix + ch.name + ".<class>", ch, False, None))
                self._collect(rel, ch, prefix + ch.name + ".", ch.name)
            elif isinstance(ch, ast.Lambda):
                pass
            else:
                self._collect(rel, ch, prefix, cls)


class Tr:
    """syntax-directed translation of one function body into a structured heap program"""

    def __init__(self, pkg, fi, summ):
        self.pkg, self.fi, self.summ = pkg, fi, summ
        self.imp = pkg.imports[fi.rel]
        self.vars, self.nvar = {}, 0
        self.blocks = [[]]
        self.sites = []       # dicts: sid, kind ('site' | 'ret'), text, line, what
        self.containers = set()
        self.local_defs = set()
        self.tuple_of = {}
        self.want_tuple = 0

    # -- plumbing
    def var(self, name):
        if name not in self.vars:
            self.vars[name] = self.nvar
            self.nvar += 1
        return self.vars[name]

    def tmp(self):
        self.nvar += 1
        return self.nvar - 1

    def emit(self, k, a=0, b=0, c=False, sid=None):
        o = {"k": k, "a": a, "b": b}
        if k == "view":
            o["c"] = bool(c)
        if sid is not None:
            o["sid"] = sid
        self.blocks[-1].append(o)

    def block(self, fn):
        self.blocks.append([])
        fn()
        return self.blocks.pop()

    def ite(self, fa, fb):
        c0 = set(self.containers)
        a = self.block(fa)
        ca = set(self.containers)
        self.containers = set(c0)
        b = self.block(fb)
        self.containers &= ca
        self.blocks[-1].append({"k": "ite", "a": a, "b": b})

    def loop(self, fbody):
        c0 = set(self.containers)
        mark = len(self.sites)
        self.block(fbody)                       # dry run: which names stay containers through an iteration
        self.containers &= c0
        del self.sites[mark:]
        body = self.block(fbody)
        self.containers &= c0
        self.blocks[-1].append({"k": "loop", "a": body})

    def site(self, opk, v, node, what, kind="site"):
        sid = len(self.sites)
        try:
            text = ast.unparse(node)
        except Exception:   # noqa: BLE001
            text = "?"
        text = " ".join(text.split())[:150]
        self.sites.append({"sid": sid, "kind": kind, "text": text, "line": getattr(node, "lineno", 0), "what": what})
        self.emit(opk, v, sid=sid)

    def join(self, vs):
        """a value that is one of `vs` (python container literal / or-expression)"""
        t = self.tmp()
        if not vs:
            self.emit("scalar", t)
            return t

        def rec(i):
            if i == len(vs) - 1:
                self.emit("view", t, vs[i], True)
            else:
                self.ite(lambda: self.emit("view", t, vs[i], True), lambda: rec(i + 1))
        rec(0)
        return t

    def fresh(self):
        t = self.tmp()
        self.emit("fresh", t)
        return t

    def scalar(self):
        t = self.tmp()
        self.emit("scalar", t)
        return t

    def unknown(self):
        t = self.tmp()
        self.emit("load", t, UNKNOWN_ATTR)
        return t

    def unary(self, k, v, c=True):
        t = self.tmp()
        self.emit(k, t, v, c)
        return t

    # -- expressions
    def ex(self, e):
        if e is None:
            return self.scalar()
        m = getattr(self, "ex_" + type(e).__name__, None)
        if m is None:
            for ch in ast.iter_child_nodes(e):
                if isinstance(ch, ast.expr):
                    self.ex(ch)
            return self.fresh()
        return m(e)

    def ex_Name(self, e):
        if e.id in ("None", "True", "False"):
            return self.scalar()
        if e.id not in self.vars and (e.id in self.imp or e.id in self.pkg.classes or e.id in BUILTIN_FRESH or e.id in BUILTIN_VIEW):
            return self.scalar()
        return self.var(e.id)

    def ex_Constant(self, e):
        return self.scalar()

    def ex_JoinedStr(self, e):
        for v in e.values:
            if isinstance(v, ast.FormattedValue):
                self.ex(v.value)
        return self.scalar()

    def ex_Lambda(self, e):
        return self.scalar()

    def ex_BinOp(self, e):
        a, b = self.ex(e.left), self.ex(e.right)
        if isinstance(e.op, ast.Mult) and (isinstance(e.left, (ast.List, ast.Tuple)) or isinstance(e.right, (ast.List, ast.Tuple))):
            return a if isinstance(e.left, (ast.List, ast.Tuple)) else b     # [x] * n: same elements
        if isinstance(e.op, ast.Add) and (isinstance(e.left, (ast.List, ast.Tuple)) or isinstance(e.right, (ast.List, ast.Tuple))):
            return self.join([a, b])                                           # list concatenation
        return self.fresh()

    def ex_UnaryOp(self, e):
        self.ex(e.operand)
        return self.fresh()

    def ex_Compare(self, e):
        self.ex(e.left)
        for c in e.comparators:
            self.ex(c)
        return self.fresh()

    def ex_BoolOp(self, e):
        return self.join([self.ex(v) for v in e.values])

    def ex_IfExp(self, e):
        self.ex(e.test)
        t = self.tmp()
        self.ite(lambda: self.emit("view", t, self.ex(e.body), True), lambda: self.emit("view", t, self.ex(e.orelse), True))
        return t

    def ex_NamedExpr(self, e):
        v = self.ex(e.value)
        self.assign(e.target, v, e.value, e)
        return v

    def ex_Starred(self, e):
        return self.ex(e.value)

    def _seq(self, e):
        return self.join([self.ex(x) for x in e.elts])

    ex_List = ex_Tuple = ex_Set = _seq

    def ex_Dict(self, e):
        for k in e.keys:
            if k is not None:
                self.ex(k)
        return self.join([self.ex(v) for v in e.values])

    def _comp(self, e, elts):
        t = self.tmp()
        self.emit("scalar", t)

        def body(gens=list(e.generators)):
            def rec(i):
                if i == len(gens):
                    vs = [self.ex(x) for x in elts]
                    j = self.join(vs)
                    self.ite(lambda: None, lambda: self.emit("view", t, j, True))
                    return
                g = gens[i]
                it = self.ex(g.iter)
                self.loop(lambda: (self.assign_iter(g.target, it, g.iter), [self.ex(c) for c in g.ifs], rec(i + 1)))
            rec(0)
        body()
        return t

    def ex_ListComp(self, e):
        return self._comp(e, [e.elt])

    ex_SetComp = ex_GeneratorExp = ex_ListComp

    def ex_DictComp(self, e):
        return self._comp(e, [e.key, e.value])

    def ex_Subscript(self, e):
        v = self.ex(e.value)
        self.ex_slice(e.slice)
        return self.unary("view", v, False)

    def ex_slice(self, s):
        if isinstance(s, ast.Slice):
            for x in (s.lower, s.upper, s.step):
                if x is not None:
                    self.ex(x)
        elif isinstance(s, ast.Tuple):
            for x in s.elts:
                self.ex_slice(x)
        else:
            self.ex(s)

    def is_module(self, name):
        return name is not None and name not in self.vars and self.imp.get(name, ("",))[0] == "mod"

    def ex_Attribute(self, e):
        d = dotted(e)
        if d and self.is_module(d.split(".")[0]):
            return self.scalar()            # module constant (np.pi, np.nan, config.X, np.ma.nomask)
        v = self.ex(e.value)
        if e.attr in VIEW_ATTRS:
            return self.unary("view", v, False)
        if e.attr in SCALAR_ATTRS:
            return self.scalar()
        return self.unknown()               # object state

    def ex_Yield(self, e):
        v = self.ex(e.value) if e.value is not None else self.scalar()
        self.site("setItem", v, e, "returned value", kind="ret")
        return self.scalar()

    ex_YieldFrom = ex_Yield

    def ex_Await(self, e):
        return self.ex(e.value)

    # -- calls
    def ex_Call(self, e):
        f = e.func
        want, self.want_tuple = self.want_tuple, 0
        args = [self.ex(a) for a in e.args]
        kws = {k.arg: self.ex(k.value) for k in e.keywords}
        kwnodes = {k.arg: k.value for k in e.keywords}
        self.want_tuple = want
        try:
            return self._call(e, f, args, kws, kwnodes)
        finally:
            self.want_tuple = 0

    def _call(self, e, f, args, kws, kwnodes):
        d = dotted(f)
        root = d.split(".")[0] if d else None
        last = d.split(".")[-1] if d else (f.attr if isinstance(f, ast.Attribute) else None)

        def const_true(name):
            n = kwnodes.get(name)
            return isinstance(n, ast.Constant) and n.value is True

        if "out" in kws:                                       # ufunc(..., out=x): written in place, and returned
            self.site("setItem", kws["out"], e, "out= argument")
            return self.unary("view", kws["out"], True)
        if d and self.is_module(root):
            full = self.imp[root][1] + d[len(root):]
            if full.startswith("numpy"):
                a0 = args[0] if args else self.scalar()
                extra = len(args) - (2 if last in NP_UFUNC2 else 1 if last in NP_UFUNC1 else len(args))
                if extra > 0:                                  # ufunc(a, b, out): positional output argument
                    self.site("setItem", args[-extra], e, "positional out argument of a ufunc")
                    return self.unary("view", args[-extra], True)
                if last in ("nan_to_num", "masked_invalid", "masked_where", "masked_equal", "masked_values", "masked_less", "masked_greater") \
                        and isinstance(kwnodes.get("copy"), ast.Constant) and kwnodes["copy"].value is False:
                    self.site("setItem", args[-1] if last == "masked_where" and len(args) > 1 else a0, e, f"np.{last}(copy=False) works in place")
                    return self.unary("view", a0, True)
                if last in ("array", "masked_array") and ".ma." in full + ".":
                    return self.unary("maCopy" if const_true("copy") else "maArray", a0)
                if full.endswith(".ma.asarray") or full.endswith(".ma.asanyarray"):
                    return self.unary("maArray", a0)
                if last == "array":
                    n = kwnodes.get("copy")
                    if isinstance(n, ast.Constant) and n.value in (False, None):
                        return self.unary("asarray", a0)
                    return self.unary("copy", a0)
                if last in NP_ASARRAY:
                    return self.unary("asarray", a0)
                if last == "reshape":
                    return self.unary("reshape", a0)
                if last in NP_VIEW:
                    return self.unary("view", a0, False)
                if last in NP_INPLACE_ARG0:
                    self.site("setItem", a0, e, f"np.{last} writes its first argument")
                    return self.scalar()
                return self.fresh()
            if full in ("copy.copy",):
                return self.unary("view", args[0] if args else self.scalar(), True)
            if full.startswith("gstools"):
                return self.pkg_call(last, args, kws, e, method=False)
            return self.fresh()                                # scipy / hankel / emcee / stdlib: results are new objects
        if isinstance(f, ast.Name):
            n = f.id
            if n in self.vars and n not in self.local_defs:
                return self.unknown()                          # a callable held in a variable (user function)
            if n in self.imp and self.imp[n][0] == "obj":
                mod = self.imp[n][1]
                if n == "copy" and mod == "copy":
                    return self.unary("view", args[0] if args else self.scalar(), True)
                if not mod.startswith("gstools") and not mod.startswith("."):
                    return self.fresh()
                return self.pkg_call(self.imp[n][2], args, kws, e, method=False)
            if n in self.pkg.by_name or n in self.pkg.classes:
                return self.pkg_call(n, args, kws, e, method=False)
            if n == "getattr":
                return self.unknown()
            if n == "setattr":
                if len(args) >= 3:
                    self.emit("store", 998, args[2])
                return self.scalar()
            if n in BUILTIN_VIEW:
                return self.join(args) if args else self.scalar()
            return self.fresh() if n not in ("partial",) else self.unknown()
        if isinstance(f, ast.Attribute):
            obj = self.ex(f.value)
            m = f.attr
            if m == "reshape":
                return self.unary("reshape", obj)
            if m == "filled":
                return self.unary("filled", obj)
            if m in INPLACE_METHODS and not (m == "put" and False):
                self.site("setItem", obj, e, f".{m}() works in place")
                return self.unary("view", obj, True) if m == "byteswap" else self.scalar()
            if m in CONTAINER_ABSORB:
                j = self.join([obj] + args + list(kws.values()))
                if isinstance(f.value, ast.Name):
                    self.emit("view", self.var(f.value.id), j, True)
                return self.scalar()
            if m == "copy":
                base = f.value.id if isinstance(f.value, ast.Name) else None
                return self.unary("view", obj, True) if base in self.containers else self.fresh()
            if m in VIEW_METHODS:
                return self.unary("view", obj, False)
            if m in self.pkg.by_name:
                return self.pkg_call(m, args, kws, e, method=True)
            if m in ("astype", "flatten", "tolist", "item", "sum", "mean", "min", "max", "any", "all", "std", "var", "prod", "cumsum",
                     "argsort", "argmax", "argmin", "nonzero", "round", "clip", "dot", "conj", "repeat", "take", "compress", "trace",
                     "tobytes", "compressed", "count", "format", "join", "split", "strip", "startswith", "endswith", "lower", "upper",
                     "keys", "index", "isidentifier", "replace", "rstrip", "lstrip", "capitalize", "title", "encode", "decode",
                     "normal", "uniform", "randint", "rand", "randn", "choice", "random_sample", "permutation", "standard_normal",
                     "transform", "integrate", "issubset", "union", "intersection", "difference", "total_seconds", "warn"):
                return self.fresh()
            return self.unknown()
        return self.unknown()

    def pkg_call(self, name, args, kws, node, method):
        """a call resolved (by bare name) to functions of the package: use their summaries"""
        if name in self.pkg.classes and name not in self.pkg.by_name:
            return self.fresh()                                # instantiation: a new object
        cands = [g for g in self.pkg.by_name.get(name, []) if g.qual != "<module>"]
        if method:
            cands = [g for g in cands if g.is_method] or cands
        else:
            cands = [g for g in cands if not g.is_method] or cands
            same = [g for g in cands if g.rel == self.fi.rel]
            cands = same or cands
        if name in self.pkg.classes:
            cands = [g for g in self.pkg.by_name.get("__init__", []) if g.cls == name]
        fresh_ret = bool(cands) or name in self.pkg.classes
        tups = [self.summ["tuple"].get(g.key) for g in cands]
        if cands and name not in self.pkg.classes and all(t is not None for t in tups) and len({len(t) for t in tups}) == 1 \
                and self.want_tuple == len(tups[0]):
            elems = []
            for i in range(len(tups[0])):
                elems.append(self.fresh() if all(t[i] for t in tups) else self.unknown())
            self._call_writes(cands, args, kws, node, method, name)
            j = self.join(elems)
            self.tuple_of[j] = elems
            return j
        self._call_writes(cands, args, kws, node, method, name)
        for g in cands:
            if name not in self.pkg.classes and g.key not in self.summ["fresh"]:
                fresh_ret = False
        return self.fresh() if fresh_ret else self.unknown()

    def _call_writes(self, cands, args, kws, node, method, name):
        for g in cands:
            wp = self.summ["writes"].get(g.key, {})
            ps = g.params[1:] if (g.is_method and (method or name in self.pkg.classes)) else g.params
            for pname in wp:
                v = None
                if pname in ps and ps.index(pname) < len(args):
                    v = args[ps.index(pname)]
                elif pname in kws:
                    v = kws[pname]
                if v is not None:
                    self.site("setItem", v, node, f"call of {g.qual}, which writes into its parameter '{pname}'")

    # -- assignment targets
    def root_var(self, t):
        """variable through which an item / attribute assignment writes"""
        return self.ex(t)

    def assign(self, target, v, value_node, stmt):
        if isinstance(target, ast.Name):
            self.emit("view", self.var(target.id), v, True)
            if self.is_container_expr(value_node):
                self.containers.add(target.id)
            else:
                self.containers.discard(target.id)
        elif isinstance(target, (ast.Tuple, ast.List)):
            if v in self.tuple_of and len(self.tuple_of[v]) == len(target.elts) and \
                    not any(isinstance(x, ast.Starred) for x in target.elts):
                for t, x in zip(target.elts, self.tuple_of[v]):
                    self.assign(t, x, None, stmt)
            elif isinstance(value_node, (ast.Tuple, ast.List)) and len(value_node.elts) == len(target.elts) and \
                    not any(isinstance(x, ast.Starred) for x in list(target.elts) + list(value_node.elts)):
                vs = [self.ex(x) for x in value_node.elts]
                for t, x, n in zip(target.elts, vs, value_node.elts):
                    self.assign(t, x, n, stmt)
            else:
                for t in target.elts:
                    self.assign(t.value if isinstance(t, ast.Starred) else t, v, None, stmt)
        elif isinstance(target, ast.Subscript):
            base = target.value
            self.ex_slice(target.slice)
            if isinstance(base, ast.Name) and base.id in self.containers:
                b = self.var(base.id)                  # python container: re-binding a slot, the container now also holds v
                self.ite(lambda: None, lambda: self.emit("view", b, v, True))
            else:
                self.site("setItem", self.ex(base), stmt, "item / slice assignment")
        elif isinstance(target, ast.Attribute):
            o = self.ex(target.value)
            if target.attr == "mask":
                self.site("setMask", o, stmt, "mask assignment")
            elif target.attr in META_ATTRS:
                self.site("setItem", o, stmt, f"assignment to .{target.attr} changes the array object in place")
            else:
                self.emit("store", 998, v)
        elif isinstance(target, ast.Starred):
            self.assign(target.value, v, None, stmt)

    def is_container_expr(self, n):
        if n is None:
            return False
        if isinstance(n, (ast.List, ast.Tuple, ast.Dict, ast.Set, ast.ListComp, ast.DictComp, ast.SetComp)):
            return True
        if isinstance(n, ast.Call) and isinstance(n.func, ast.Name) and n.func.id in CONTAINER_CTORS | {"copy", "sorted"}:
            return True
        if isinstance(n, ast.BinOp) and (self.is_container_expr(n.left) or self.is_container_expr(n.right)):
            return True
        if isinstance(n, ast.IfExp):
            return self.is_container_expr(n.body) or self.is_container_expr(n.orelse)
        if isinstance(n, ast.Subscript) and isinstance(n.value, ast.Name) and n.value.id in self.containers and isinstance(n.slice, ast.Slice):
            return True
        if isinstance(n, ast.Name):
            return n.id in self.containers
        return False

    def assign_iter(self, target, it, iter_node):
        """bind a loop target to an element of the iterable"""
        if isinstance(iter_node, ast.Call) and isinstance(iter_node.func, ast.Name):
            fn = iter_node.func.id
            if fn == "range":
                for t in ([target] if not isinstance(target, (ast.Tuple, ast.List)) else target.elts):
                    self.assign(t, self.scalar(), None, iter_node)
                return
            if fn == "enumerate" and isinstance(target, (ast.Tuple, ast.List)) and len(target.elts) == 2 and iter_node.args:
                self.assign(target.elts[0], self.scalar(), None, iter_node)
                self.assign(target.elts[1], self.unary("view", self.ex(iter_node.args[0]), False), None, iter_node)
                return
            if fn == "zip" and isinstance(target, (ast.Tuple, ast.List)) and len(target.elts) == len(iter_node.args):
                for t, a in zip(target.elts, iter_node.args):
                    self.assign(t, self.unary("view", self.ex(a), False), None, iter_node)
                return
        self.assign(target, self.unary("view", it, False), None, iter_node)

    # -- statements
    def stmts(self, body):
        for s in body:
            self.stmt(s)

    def stmt(self, s):
        m = getattr(self, "st_" + type(s).__name__, None)
        if m is not None:
            m(s)

    def st_Expr(self, s):
        self.ex(s.value)

    def st_Assign(self, s):
        t0 = s.targets[0]
        if len(s.targets) == 1 and isinstance(t0, (ast.Tuple, ast.List)) and isinstance(s.value, ast.Call):
            self.want_tuple = len(t0.elts)      # the call result is unpacked into that many names
        v = self.ex_Call(s.value) if self.want_tuple else self.ex(s.value)
        self.want_tuple = 0
        for t in s.targets:
            self.assign(t, v, s.value, s)

    def st_AnnAssign(self, s):
        if s.value is not None:
            self.assign(s.target, self.ex(s.value), s.value, s)

    def st_AugAssign(self, s):
        self.ex(s.value)
        t = s.target
        if isinstance(t, ast.Name):
            self.site("augName", self.var(t.id), s, "augmented assignment to a name")
        elif isinstance(t, ast.Subscript):
            self.ex_slice(t.slice)
            self.site("setItem", self.ex(t.value), s, "augmented assignment to an item / slice")
        elif isinstance(t, ast.Attribute):
            self.site("augName", self.ex(t), s, "augmented assignment to an attribute")

    def st_Return(self, s):
        if isinstance(s.value, ast.Tuple) and not any(isinstance(x, ast.Starred) for x in s.value.elts):
            vs = [self.ex(x) for x in s.value.elts]
            for i, v in enumerate(vs):
                self.emit("ret", v)
                self.site("setItem", v, s, "returned value", kind="ret")
                self.sites[-1]["pos"] = (i, len(vs))
            return
        v = self.ex(s.value) if s.value is not None else self.scalar()
        self.emit("ret", v)
        self.site("setItem", v, s, "returned value", kind="ret")

    def st_If(self, s):
        self.ex(s.test)
        self.ite(lambda: self.stmts(s.body), lambda: self.stmts(s.orelse))

    def st_For(self, s):
        it = self.ex(s.iter)
        self.loop(lambda: (self.assign_iter(s.target, it, s.iter), self.stmts(s.body)))
        self.stmts(s.orelse)

    st_AsyncFor = st_For

    def st_While(self, s):
        self.ex(s.test)
        self.loop(lambda: (self.stmts(s.body), self.ex(s.test)))
        self.stmts(s.orelse)

    def st_With(self, s):
        for it in s.items:
            v = self.ex(it.context_expr)
            if it.optional_vars is not None:
                self.assign(it.optional_vars, v, None, s)
        self.stmts(s.body)

    st_AsyncWith = st_With

    def st_Try(self, s):
        self.stmts(s.body)

        def handlers(i=0):
            if i == len(s.handlers):
                return
            self.ite(lambda: self.stmts(s.handlers[i].body), lambda: handlers(i + 1))
        self.ite(lambda: self.stmts(s.orelse), handlers)
        self.stmts(s.finalbody)

    def st_FunctionDef(self, s):
        self.local_defs.add(s.name)
        self.emit("scalar", self.var(s.name))

    st_AsyncFunctionDef = st_FunctionDef

    def st_ClassDef(self, s):
        self.emit("scalar", self.var(s.name))

    def st_Delete(self, s):
        pass

    def st_Assert(self, s):
        self.ex(s.test)

    def st_Raise(self, s):
        if s.exc is not None:
            self.ex(s.exc)

    def st_Match(self, s):
        self.ex(s.subject)

        def cases(i=0):
            if i == len(s.cases):
                return
            self.ite(lambda: self.stmts(s.cases[i].body), lambda: cases(i + 1))
        cases()

    def run(self):
        fi = self.fi
        for p in fi.params + fi.kwonly:
            self.var(p)
        for p in (fi.vararg, fi.kwarg):
            if p:
                self.var(p)
                self.containers.add(p)
        node = fi.node
        body = node.body
        self.stmts(body)
        return self.blocks[0]

    def locals0(self):
        """variables that reference nothing when the call starts: every local name that is not a parameter (python starts
        each call with an empty frame; reading an unbound local raises) and every temporary of the translation"""
        fi = self.fi
        params = set(fi.params + fi.kwonly + [p for p in (fi.vararg, fi.kwarg) if p])
        stored, outer = set(), set()

        def walk(n, top):
            for ch in ast.iter_child_nodes(n):
                if isinstance(ch, (ast.FunctionDef, ast.AsyncFunctionDef, ast.ClassDef)):
                    stored.add(ch.name)
                    continue
                if isinstance(ch, ast.Lambda):
                    continue
                if isinstance(ch, (ast.Global, ast.Nonlocal)):
                    outer.update(ch.names)
                if isinstance(ch, ast.Name) and isinstance(ch.ctx, ast.Store):
                    stored.add(ch.id)
                if isinstance(ch, ast.ExceptHandler) and ch.name:
                    stored.add(ch.name)
                walk(ch, False)
        walk(fi.node, True)
        if isinstance(fi.node, (ast.Module, ast.ClassDef)):
            stored = set()                      # module / class level names persist between executions
        names = (stored - params - outer)
        named_ids = set(self.vars.values())
        ids = {self.vars[n] for n in names if n in self.vars}
        ids |= {i for i in range(self.nvar) if i not in named_ids}     # temporaries
        return sorted(ids)


def scan_package(root=None, max_rounds=10):
    """translate every function, iterate the summaries (returns-fresh per tuple position, writes-parameter) to a
    fixpoint with the Lean analysis as the only judge.  Returns (sites, stats)."""
    pkg = Package(root or SRC)
    summ = {"fresh": set(), "writes": {}, "tuple": {}}
    rounds = 0
    result = None
    while rounds < max_rounds:
        rounds += 1
        ops, meta = [], []
        for fi in pkg.funcs:
            tr = Tr(pkg, fi, summ)
            body = tr.run()
            real = [s for s in tr.sites if s["kind"] == "site"]
            rets = [s for s in tr.sites if s["kind"] == "ret"]
            if not real and not rets:
                meta.append((fi, tr, None))
                continue
            pvars = [(p, tr.vars[p]) for p in fi.params + fi.kwonly if p in tr.vars and p not in ("self", "cls")]
            loc = tr.locals0()
            queries = [{"owned": loc, "enable": [s["sid"]]} for s in rets]
            for s in real:
                queries.append({"owned": loc, "enable": [s["sid"]]})
                for p, v in pvars:
                    queries.append({"owned": loc + [v], "enable": [s["sid"]]})
            queries.append({"owned": loc, "enable": [s["sid"] for s in real]})
            ops.append({"op": "heap_safeB", "body": body, "queries": queries})
            meta.append((fi, tr, len(ops) - 1))
        res = run_driver(ops)
        fresh2, writes2, tuple2, sites = set(), {}, {}, []
        whole = {}
        for fi, tr, idx in meta:
            if idx is None:
                fresh2.add(fi.key)
                continue
            r = res[idx]
            if isinstance(r, dict):
                raise RuntimeError(f"driver: {r}")
            real = [s for s in tr.sites if s["kind"] == "site"]
            rets = [s for s in tr.sites if s["kind"] == "ret"]
            pvars = [p for p in fi.params + fi.kwonly if p in tr.vars and p not in ("self", "cls")]
            k = 0
            ret_ok = []
            for s in rets:
                ret_ok.append(bool(r[k]))
                k += 1
            if all(ret_ok):
                fresh2.add(fi.key)
            # tuple summary: over the `return a, b, c` statements (used only where the result is unpacked into
            # that many targets, which a non-tuple return of the same function could not serve)
            lens = {s["pos"][1] for s in rets if "pos" in s}
            if len(lens) == 1:
                L = lens.pop()
                tuple2[fi.key] = [all(ok for s, ok in zip(rets, ret_ok) if s.get("pos", (None,))[0] == i) for i in range(L)]
            for s in real:
                ok = r[k]
                k += 1
                by_param = []
                for p in pvars:
                    if r[k] and not ok:
                        by_param.append(p)
                    k += 1
                rec = dict(s, rel=fi.rel, func=fi.qual, safe=bool(ok), params=by_param, private=fi.private)
                sites.append(rec)
                if not ok and by_param and fi.private:
                    for p in by_param:
                        writes2.setdefault(fi.key, {})[p] = True
            whole[fi.key] = bool(r[k])
        result = (sites, {"functions": len(pkg.funcs), "rounds": rounds, "returns_fresh": len(fresh2),
                          "functions_with_sites": len(whole), "functions_safe_as_a_whole": sum(whole.values()),
                          "writes_param": {f"{k[0]}::{k[1]}": sorted(v) for k, v in writes2.items()}})
        if fresh2 == summ["fresh"] and writes2 == summ["writes"] and tuple2 == summ["tuple"]:
            break
        summ = {"fresh": fresh2, "writes": writes2, "tuple": tuple2}
    return result


# sites the ownership analysis does not accept on its own.  (file, function, prefix of the normalised statement, class, reason)
#   'python-object' : the target is a python str / bool / int / list / dict, not array memory (outside the statement)
#   'modelled'      : an array write whose ownership rests on a fact the syntax does not show; the fact is named, the data
#                     flow is in GSV/Model/Heap.lean and the dynamic sweep checks it
SITE_TABLE = [
    ("covmodel/base.py", "CovModel.__init_subclass__", "cls.__doc__ +=", "python-object", "string concatenation on the class docstring"),
    ("covmodel/fit.py", "fit_variogram", "anis &= is_dir_vario", "python-object", "bool"),
    ("covmodel/fit.py", "fit_variogram", "_pre_para(", "python-object", "para_select is a dict of bools"),
    ("covmodel/fit.py", "fit_variogram", "_pre_init_guess(", "python-object", "init_guess is a dict of floats / strings"),
    ("covmodel/fit.py", "fit_variogram", "_set_weights(", "python-object", "curve_fit_kwargs is a dict (the caller's dict gets extra keys)"),
    ("covmodel/fit.py", "_pre_para", "para_select[par] = False", "python-object", "dict of bools"),
    ("covmodel/fit.py", "_pre_init_guess", "init_guess[", "python-object", "dict of floats / strings"),
    ("covmodel/fit.py", "_set_weights", "curve_fit_kwargs[", "python-object", "dict"),
    ("covmodel/tools.py", "set_opt_args", "opt_arg[def_arg] =", "python-object", "dict of optional arguments (the **kwargs of the constructor)"),
    ("covmodel/tools.py", "set_arg_bounds", "model._opt_arg_bounds[arg] =", "python-object", "dict owned by the model"),
    ("field/base.py", "Field.get_store_config", "_names(", "python-object", "list of names"),
    ("field/base.py", "Field.get_store_config", "store += [True]", "python-object", "`store = list(store)[:fld_cnt]` is a new list"),
    ("field/tools.py", "generate_on_mesh", "_names(", "python-object", "list of names"),
    ("field/tools.py", "generate_on_mesh", "mesh[f_name] = field", "python-object", "documented: stores the field in the given pyvista mesh"),
    ("field/tools.py", "generate_on_mesh", "mesh.cell_data[f_name] =", "python-object", "documented: stores the field in the given meshio mesh (dict)"),
    ("field/tools.py", "generate_on_mesh", "mesh.point_data[f_name] =", "python-object", "documented: stores the field in the given meshio mesh (dict)"),
    ("field/tools.py", "_names", "name += [", "python-object", "`name` was re-bound to a new list on the line before"),
    ("krige/base.py", "Krige.__call__", "return_var &= not only_mean", "python-object", "bool"),
    ("krige/base.py", "Krige._get_krige_vecs", "chunk_size -= chunk_slice[0]", "python-object", "int"),
    ("tools/export.py", "_vtk_structured_helper", "fields[field] =", "python-object", "dict of arrays: entries are re-bound to reshaped views, no array is written"),
    ("tools/export.py", "_vtk_unstructured_helper", "fields[field] =", "python-object", "dict of arrays: entries are re-bound to reshaped views, no array is written"),
    ("tools/export.py", "to_vtk_structured", "_vtk_structured_helper(", "python-object", "dict"),
    ("tools/export.py", "vtk_export_structured", "_vtk_structured_helper(", "python-object", "dict"),
    ("tools/export.py", "to_vtk_unstructured", "_vtk_unstructured_helper(", "python-object", "dict"),
    ("tools/export.py", "vtk_export_unstructured", "_vtk_unstructured_helper(", "python-object", "dict"),
    ("field/srf.py", "SRF.__call__", "field *=", "modelled",   # matched on target and operator: the ownership fact is about `field`, not the factor
     "`field = np.reshape(self.generator(iso_pos), shape)`: the generator object's __call__ returns a new array "
     "(RandMeth / IncomprRandMeth / Fourier __call__ are in the dynamic sweep); Lean: pSrfCall `.augName V.f`"),
]


def classify_sites(sites):
    """-> (records with 'class', list of unresolved records, unused table rows)"""
    used = set()
    unresolved = []
    for s in sites:
        if s["safe"]:
            s["class"] = "proved-by-analysis"
            continue
        hit = None
        for i, (rel, fn, pre, cls, why) in enumerate(SITE_TABLE):
            if s["rel"] == rel and s["func"] == fn and s["text"].startswith(pre):
                hit = i
                break
        if hit is None and s["params"] and s["private"]:
            s["class"] = "helper-writes-parameter(call sites checked)"
            continue
        if hit is None:
            s["class"] = "UNRESOLVED"
            unresolved.append(s)
        else:
            used.add(hit)
            s["class"] = SITE_TABLE[hit][3]
            s["reason"] = SITE_TABLE[hit][4]
    stale = [SITE_TABLE[i][:3] for i in range(len(SITE_TABLE)) if i not in used]
    return sites, unresolved, stale


def kernel_const_check(root=None):
    """every array parameter of a python-visible function of the Cython kernels must be a `const` memoryview
    (Cython then rejects any write through it at compile time); returns the offending parameters"""
    import re
    bad, n = [], 0
    for d, _, files in sorted(os.walk(root or SRC)):
        for f in sorted(files):
            if not f.endswith(".pyx"):
                continue
            src = re.sub(r"#[^\n]*", "", open(os.path.join(d, f)).read())
            heads = list(re.finditer(r"^def\s+(\w+)\s*\((.*?)\)\s*:", src, re.S | re.M))
            for i, m in enumerate(heads):
                nxt = re.search(r"^(def|cdef|cpdef)\s", src[m.end():], re.M)
                body = src[m.end(): m.end() + nxt.start()] if nxt else src[m.end():]
                for par in re.split(r",(?![^\[]*\])", m.group(2)):
                    par = " ".join(par.split())
                    if "[" not in par.split("=")[0]:
                        continue
                    n += 1
                    if par.startswith("const "):
                        continue
                    name = par.split("=")[0].split()[-1]
                    # not declared const: accept only if the body never assigns through it
                    if re.search(r"\b" + re.escape(name) + r"\s*\[[^\]]*\]\s*([-+*/]?=)(?!=)", body) or \
                            re.search(r"\b" + re.escape(name) + r"\s*\[\s*:\s*\]", body):
                        bad.append(f"{f}::{m.group(1)}({par})")
    return n, bad


def static_scan(ctx=None, root=None):
    sites, stats = scan_package(root)
    sites, unresolved, stale = classify_sites(sites)
    n_kp, bad_kp = kernel_const_check(root)
    stats["kernel_array_parameters_const"] = f"{n_kp - len(bad_kp)}/{n_kp}"
    dist = {}
    for s in sites:
        dist[s["class"]] = dist.get(s["class"], 0) + 1
    dis = [{"what": f"static scan: unmodelled in-place site {s['rel']}::{s['func']}:{s['line']}: {s['text']} ({s['what']})",
            "site": {k: s[k] for k in ("rel", "func", "line", "text", "what", "params")}} for s in unresolved]
    dis += [{"what": f"static scan: compiled kernel takes a writable view of a caller array: {b}"} for b in bad_kp]
    return {"sites": sites, "stats": stats, "distribution": dist, "disagreements": dis, "stale_table_rows": stale}


# ----------------------------------------------------------------------------------------------------------------
# primitives: the modelled numpy rules against numpy
# ----------------------------------------------------------------------------------------------------------------
def _kinds():
    base = np.arange(12.0).reshape(3, 4)
    msk = np.zeros((3, 4), bool)
    msk[0, 1] = True
    return [
        ("f64C", lambda: base.copy()),
        ("f64F", lambda: np.asfortranarray(base)),
        ("f64strided", lambda: np.arange(24.0).reshape(3, 8)[:, ::2]),
        ("f64T", lambda: np.arange(12.0).reshape(4, 3).T),
        ("i64", lambda: np.arange(12).reshape(3, 4)),
        ("f32", lambda: base.astype(np.float32)),
        ("list", lambda: base.tolist()),
        ("maF64", lambda: np.ma.array(base.copy(), mask=msk.copy())),
        ("maF64nomask", lambda: np.ma.array(base.copy())),
        ("maI64", lambda: np.ma.array(np.arange(12).reshape(3, 4), mask=msk.copy())),
        ("maF32", lambda: np.ma.array(base.astype(np.float32), mask=msk.copy())),
        ("pyfloat", lambda: 1.5),
        ("npfloat", lambda: np.float64(1.5)),
    ]


def _d(x):
    return np.asarray(x, dtype=np.double)


def _prims():
    """(name, python action(x) -> result or None, Lean program on variables 0 (= x) and 1.., applies to kinds)"""
    newmask = np.zeros((3, 4), bool)
    newmask[2, 2] = True
    arr = lambda k: k not in ("pyfloat", "npfloat")           # noqa: E731
    nd = lambda k: k not in ("pyfloat", "npfloat", "list")    # noqa: E731

    def op(k, a=0, b=0, c=False):
        return {"k": k, "a": a, "b": b, "c": c}

    def list_item(x):
        lst = [_d(x)]
        lst[0] += 1.0
        return lst[0]

    def aug(x):
        a = _d(x)
        a += 1.0
        return a

    def aug_scalar(x):
        r = 1.0
        r *= _d(x)
        return r

    def setitem(x):
        a = _d(x)
        a[0] = 5.0
        return a

    def setmask(x):
        m = np.ma.array(x, ndmin=1, dtype=np.double)
        m.mask = np.logical_or(np.ma.getmaskarray(m), newmask)
        return m

    def setmask_copy(x):
        m = np.ma.array(x, ndmin=1, dtype=np.double, copy=True)
        m.mask = np.logical_or(np.ma.getmaskarray(m), newmask)
        return m

    return [
        ("asarray", _d, [op("asarray", 1, 0), op("ret", 1)], lambda k: True),
        ("asarray.reshape(-1)", lambda x: _d(x).reshape(-1), [op("asarray", 1, 0), op("reshape", 1, 1), op("ret", 1)], arr),
        ("np.reshape(same shape)", lambda x: np.reshape(_d(x), (3, 4)), [op("asarray", 1, 0), op("view", 1, 1, True), op("ret", 1)], arr),
        ("np.array", lambda x: np.array(x, dtype=np.double), [op("copy", 1, 0), op("ret", 1)], lambda k: True),
        ("atleast_2d(asarray)", lambda x: np.atleast_2d(_d(x)), [op("asarray", 1, 0), op("view", 1, 1, True), op("ret", 1)], lambda k: True),
        ("row view", lambda x: _d(x)[1], [op("asarray", 1, 0), op("view", 1, 1, True), op("ret", 1)], arr),
        ("swapaxes", lambda x: _d(x).swapaxes(0, 1), [op("asarray", 1, 0), op("view", 1, 1, False), op("ret", 1)], arr),
        ("boolean index", lambda x: _d(x)[_d(x) > 3.0], [op("asarray", 1, 0), op("fresh", 1), op("ret", 1)], arr),
        ("arithmetic", lambda x: _d(x) / 2.0, [op("asarray", 1, 0), op("fresh", 1), op("ret", 1)], lambda k: True),
        ("ufunc", lambda x: np.abs(_d(x)), [op("asarray", 1, 0), op("fresh", 1), op("ret", 1)], lambda k: True),
        ("[x][0] += 1", list_item, [op("asarray", 1, 0), op("wrapList", 2, 1), op("setItem", 2), op("ret", 1)], arr),
        ("a += 1", aug, [op("asarray", 1, 0), op("augName", 1), op("ret", 1)], arr),
        ("r = 1.0; r *= a", aug_scalar, [op("asarray", 1, 0), op("scalar", 2), op("augName", 2), op("ret", 2)], arr),
        ("a[0] = 5", setitem, [op("asarray", 1, 0), op("setItem", 1), op("ret", 1)], arr),
        ("ma.array", lambda x: np.ma.array(x, ndmin=1, dtype=np.double), [op("maArray", 1, 0), op("ret", 1)], nd),
        ("ma.array(copy=True)", lambda x: np.ma.array(x, ndmin=2, dtype=np.double, copy=True), [op("maCopy", 1, 0), op("ret", 1)], nd),
        ("ma.array; .mask = m", setmask, [op("maArray", 1, 0), op("setMask", 1), op("ret", 1)], nd),
        ("ma.array(copy=True); .mask = m", setmask_copy, [op("maCopy", 1, 0), op("setMask", 1), op("ret", 1)], nd),
        ("ma.array.filled()", lambda x: np.ma.array(x, dtype=np.double).filled(), [op("maArray", 1, 0), op("filled", 1, 1), op("ret", 1)], nd),
        ("ma.array(copy=True).filled()", lambda x: np.ma.array(x, dtype=np.double, copy=True).filled(),
         [op("maCopy", 1, 0), op("filled", 1, 1), op("ret", 1)], nd),
    ]


def primitive_correspondence():
    ops, meta = [], []
    for kname, mkx in _kinds():
        for pname, act, prog, applies in _prims():
            if not applies(kname):
                continue
            x = mkx()
            blocks = parts("x", x)
            ids = {n: i for i, (n, _) in enumerate(blocks)}
            if isinstance(x, np.ma.MaskedArray):
                obj = {"key": 0, "bufs": [ids["x"]], "mask": [ids["x.mask"]] if "x.mask" in ids else [], "f64": x.dtype == np.float64}
                base = np.ma.getdata(x)
            elif isinstance(x, np.ndarray):
                obj = {"key": 0, "bufs": [0], "mask": [], "f64": x.dtype == np.float64}
                base = x
            else:
                obj = {"key": 0, "bufs": [], "mask": [], "f64": False}
                base = None
            obj["f64"] = bool(obj["f64"])
            obj["view"] = bool(base is None or shares(base, base.reshape(-1)))
            before = {n: snap(a) for n, a in blocks}
            with warnings.catch_warnings():
                warnings.simplefilter("ignore")
                res = act(x)
            mutated = sorted(n for n, a in blocks if snap(a) != before[n])
            rparts = [p for _, p in parts("r", res)] if isinstance(res, np.ndarray) else []
            alias = sorted(n for n, a in blocks if any(shares(p, a) for p in rparts))
            ops.append({"op": "heap_prog", "prog": prog, "next": len(blocks), "env": [obj], "attrs": []})
            meta.append((kname, pname, mutated, alias, {i: n for n, i in ids.items()}))
    res = run_driver(ops)
    dis, dist, samples = [], {}, []
    for (kname, pname, mutated, alias, names), r in zip(meta, res):
        if isinstance(r, dict) and "error" in r:
            dis.append({"what": f"primitive {pname} on {kname}: driver error {r['error']}"})
            continue
        pm = sorted(names[i] for i in r["written"])
        ret = r["rets"][-1] if r["rets"] else {"bufs": [], "mask": []}
        pa = sorted(names[i] for i in set(ret["bufs"]) | set(ret["mask"]) if i in names)
        key = ("aliases" if alias else "new") + ("+writes" if mutated else "")
        dist[key] = dist.get(key, 0) + 1
        if len(samples) < 4 and (alias or mutated):
            samples.append({"primitive": pname, "object": kname, "result_aliases": alias, "mutated": mutated})
        if pm != mutated or pa != alias:
            dis.append({"what": f"numpy rule '{pname}' on {kname}: model (mutated {pm}, aliases {pa}) vs numpy (mutated {mutated}, aliases {alias})"})
    return len(meta), dis, dist, samples


# ----------------------------------------------------------------------------------------------------------------
# tie B
# ----------------------------------------------------------------------------------------------------------------
def correspondence(ctx):
    rng = np.random.RandomState(ctx.seed + 20)
    dis = []
    # 1. static scan (the source decides which programs the Lean analysis sees)
    scan = static_scan(ctx)
    dis += scan["disagreements"]
    ctx.log(f"static scan: {len(scan['sites'])} in-place sites in {scan['stats']['functions']} functions, classes {scan['distribution']}")
    # 2. numpy rules
    n_prim, d_prim, dist_prim, s_prim = primitive_correspondence()
    dis += d_prim
    # 3. entry points
    cases = all_cases(rng, LAYOUTS, full=not ctx.quick)
    recs, d_ep, viol = run_cases(cases)
    dis += d_ep
    ctx.c20_violations = viol
    # 4. the compiled analysis on every entry point x every configuration that occurred (concrete replay if a
    #    model edit ever makes `all_entry_points_safe` fail)
    cfgs = []
    for c in cases:
        if c.cfg not in cfgs:
            cfgs.append(c.cfg)
    for row in run_driver([{"op": "heap_safe_all", "cfgs": cfgs}])[0]:
        for i in row["rejected"]:
            dis.append({"what": f"the ownership analysis rejects the model of entry point {row['ep']}", "cfg": cfgs[i]})
    dist = {"sites": scan["distribution"], "primitives": dist_prim, "entry_points": {}, "layouts": {}, "errors": {}}
    distinct = set()
    for r in recs:
        dist["entry_points"][r["ep"]] = dist["entry_points"].get(r["ep"], 0) + 1
        for k, v in r["layouts"].items():
            if k in ("field", "pos", "all", "data", "pointVol"):
                dist["layouts"][str(v)] = dist["layouts"].get(str(v), 0) + 1
        if r["error"]:
            e = r["error"].split(":")[0]
            dist["errors"][e] = dist["errors"].get(e, 0) + 1
        if r["aliases"] or any(r["cfg"].get(k) for k in ("process", "latlon", "upscale", "missing", "noData", "fitVario", "condErrArr", "extDrift")):
            distinct.add((r["ep"], tuple(sorted(r["cfg"].items())), tuple(sorted((k, str(v)) for k, v in r["layouts"].items())),
                          tuple(r["aliases"])))
    dist["scan_stats"] = scan["stats"]
    dist["stale_site_table_rows"] = scan["stale_table_rows"]
    samples = [{"entry": r["entry"], "cfg": r["cfg"], "layouts": r["layouts"], "aliases": r["aliases"], "mutated": r["mutated"]}
               for r in recs if r["aliases"]][:3] + s_prim[:2]
    return {"evaluations": len(recs) + n_prim + len(scan["sites"]), "distinct_nontrivial": len(distinct) + sum(
                1 for s in scan["sites"] if s["class"] != "python-object"),
            "rule": "cases = every modelled public entry point x caller role x layout {float64 C-contiguous exact shape (aliasing possible), "
                    "int64, float32, list, strided float64 view, MaskedArray with/without mask} x option combinations (mean/trend/normalizer, "
                    "process, store name, latlon+geo_scale, masks, no_data, sampling, directions, ext. drift, cond_err arrays, fit flags), each "
                    "executed on the real API with byte snapshots and np.shares_memory on every output and compared with the Lean program's "
                    "written buffers and output aliasing; + every modelled numpy rule x object class; + every in-place site of the package, "
                    "translated and judged by the Lean analysis.  distinct & non-trivial = distinct (entry point, configuration, layouts, "
                    "observed aliasing pattern) where an output aliases an input/stored array or an in-place-enabling option is on, "
                    "plus the in-place sites that touch array memory",
            "samples": samples, "disagreements": dis[:20], "distribution": dist}


# ----------------------------------------------------------------------------------------------------------------
# implementation-side search
# ----------------------------------------------------------------------------------------------------------------
class Held:
    """every array object the 'caller' has ever passed, received or seen stored must keep its bytes for ever"""

    def __init__(self):
        self.items = []

    def add(self, label, x):
        for n, a in parts(label, x):
            if not any(a is b for _, b, _ in self.items):
                self.items.append((n, a, snap(a)))

    def changed(self):
        out = []
        for i, (n, a, s0) in enumerate(self.items):
            s1 = snap(a)
            if s1 != s0:
                out.append(n)
                self.items[i] = (n, a, s1)
        return out


def history_search(ctx, n_hist, length):
    gs = _gs()
    rng = np.random.RandomState(ctx.seed + 2020)
    viol, ev = [], 0
    stats = {}
    methods = ["binary", "discrete", "boxcox", "zinnharvey", "normal_force_moments", "normal_to_lognormal", "normal_to_uniform",
               "normal_to_arcsin", "normal_to_uquad", "function"]
    for h in range(n_hist):
        opt = norm_options(True)[int(rng.randint(5))]
        if rng.rand() < 0.3:
            opt = {"name": "const-mean", "mean": 1.0}
        model = gs.Exponential(dim=2, var=2.0, len_scale=3.0, nugget=float(rng.choice([0.0, 0.2])))
        kw = dict(mean=opt.get("mean"), trend=opt.get("trend"), normalizer=opt.get("normalizer"))
        srf = gs.SRF(model, seed=int(rng.randint(1 << 20)), mode_no=16, **kw)
        cp, cv = _pos2(rng, 4), np.round(rng.uniform(4, 9, size=4))
        kr = gs.krige.Ordinary(model, cp, cv, normalizer=opt.get("normalizer"), trend=opt.get("trend"))
        cond = gs.CondSRF(kr, seed=int(rng.randint(1 << 20)), mode_no=16)
        held = Held()
        held.add("cond_pos", cp)
        held.add("cond_val", cv)
        pos = _pos2(rng, 6)
        held.add("pos", pos)
        trace = []
        objs = {"srf": srf, "krige": kr, "cond": cond}
        for t in range(length):
            kind = str(rng.choice(["call", "call", "transform", "transform", "transform", "given", "krige", "cond", "newpos", "setcond",
                                   "model"]))
            oname = str(rng.choice(["srf", "srf", "cond", "krige"]))
            o = objs[oname]
            names = list(o.field_names)
            store = rng.choice([True, False, "a", "b", "c"])
            store = bool(store == "True") if store in ("True", "False") else str(store)
            process = bool(rng.rand() < 0.5)
            step = {"kind": kind, "obj": oname, "store": store, "process": process}
            try:
                with warnings.catch_warnings():
                    warnings.simplefilter("ignore")
                    if kind == "call":
                        r = srf(pos, seed=int(rng.randint(100)), post_process=process, store=store)
                        held.add(f"{t}:srf()", r)
                    elif kind == "newpos":
                        pos = _pos2(rng, 6)
                        held.add(f"{t}:pos", pos)
                    elif kind == "setcond":
                        ncp, ncv = _pos2(rng, 4), np.round(rng.uniform(4, 9, size=4))
                        held.add(f"{t}:cond_pos", ncp)
                        held.add(f"{t}:cond_val", ncv)
                        if rng.rand() < 0.5:
                            err = np.round(rng.uniform(1, 4, size=4)) / 64
                            held.add(f"{t}:cond_err", err)
                            kr.set_condition(ncp, ncv, cond_err=err)
                        else:
                            kr.set_condition(ncp, ncv)
                    elif kind == "model":
                        what = str(rng.choice(["len_scale", "anis", "angles", "var", "len_scale_vec", "fit"]))
                        step["what"] = what
                        if what == "len_scale":
                            model.len_scale = float(rng.choice([2.0, 3.0, 5.0]))
                        elif what == "anis":
                            a = np.array([float(rng.choice([0.5, 1.0, 2.0]))])
                            held.add(f"{t}:anis", a)
                            model.anis = a
                        elif what == "angles":
                            a = np.array([float(rng.choice([0.0, 0.5, 1.0]))])
                            held.add(f"{t}:angles", a)
                            model.angles = a
                        elif what == "var":
                            model.var = float(rng.choice([1.0, 2.0, 4.0]))
                        elif what == "len_scale_vec":
                            a = np.array([3.0, float(rng.choice([1.5, 3.0, 6.0]))])
                            held.add(f"{t}:len_scale", a)
                            model.len_scale = a
                        else:
                            xs = np.arange(1.0, 9.0)
                            ys = np.round(2.0 * (1 - np.exp(-xs / 3.0)) * 16) / 16
                            held.add(f"{t}:x", xs)
                            held.add(f"{t}:y", ys)
                            model.fit_variogram(xs, ys, nugget=False)
                        kr.set_condition()
                    elif kind == "given":
                        a = np.round(rng.uniform(1, 4, size=6) * 2) / 2
                        held.add(f"{t}:given", a)
                        r = o(pos, field=a, post_process=process, store=store) if oname == "srf" and False else \
                            gs.field.Field.__call__(o, pos, field=a, post_process=process, store=store)
                        held.add(f"{t}:Field()", r)
                    elif kind == "krige":
                        r = kr(pos, return_var=bool(rng.rand() < 0.7), only_mean=bool(rng.rand() < 0.2), post_process=process,
                               store=store if isinstance(store, bool) else [store, store + "_var"])
                        held.add(f"{t}:krige()", r)
                    elif kind == "cond":
                        r = cond(pos if rng.rand() < 0.5 else None, seed=int(rng.randint(100)), post_process=process,
                                 store=store if isinstance(store, bool) else [store, store + "_raw", store + "_rk"])
                        held.add(f"{t}:cond()", r)
                    else:
                        if not names:
                            continue
                        fname = str(rng.choice(names))
                        meth = str(rng.choice(methods))
                        kw2 = {}
                        if meth == "discrete":
                            kw2 = {"values": [0.0, 1.0, 2.0]}
                        if meth == "boxcox":
                            kw2 = {"lmbda": 0.5, "shift": 50.0}
                        if meth == "function":
                            kw2 = {"function": (lambda x: x) if rng.rand() < 0.3 else (lambda x: x + 1.0)}
                        if meth == "binary":
                            kw2 = {"divide": 2.0, "upper": 3.0, "lower": 1.0}
                        step.update(method=meth, field=fname)
                        r = o.transform(meth, field=fname, store=store, process=process, **kw2)
                        held.add(f"{t}:{oname}.transform({meth})", r)
            except Exception as e:   # noqa: BLE001 - invalid steps are part of the stream
                step["error"] = type(e).__name__
            k = step["kind"] + (":" + step["error"] if "error" in step else "")
            stats[k] = stats.get(k, 0) + 1
            for ob_name, ob in objs.items():
                for fn in list(ob.field_names):
                    held.add(f"{t}:{ob_name}.{fn}", ob[fn])
            for lab, val in (("krige.cond_pos", kr.cond_pos), ("krige.cond_val", kr.cond_val), ("krige.cond_ext_drift", kr.cond_ext_drift),
                             ("model.anis", model.anis), ("model.angles", model.angles), ("model.len_scale_vec", model.len_scale_vec),
                             ("srf.pos", srf.pos), ("krige.pos", kr.pos)):
                if isinstance(val, np.ndarray):
                    held.add(f"{t}:{lab}", val)
            trace.append(step)
            ev += 1
            ch = held.changed()
            if ch:
                viol.append({"key": f"aliasing:history:{step['kind']}" + (f".{step.get('method')}" if step.get("method") else ""),
                             "what": f"step {t} ({step}) changed earlier arrays {ch[:4]}",
                             "case": {"options": opt.get("name"), "trace": trace[-6:]}})
                break
    ctx.c20_history_stats = stats
    return ev, viol


def directed(ctx):
    """past findings, replayed first on every run"""
    gs = _gs()
    viol = []

    def check(key, what, arr, fn):
        before = snap(arr)
        with warnings.catch_warnings():
            warnings.simplefilter("ignore")
            fn()
        if snap(arr) != before:
            viol.append({"key": key, "what": what, "case": {"input": np.asarray(np.ma.getdata(arr)).tolist()}})
    # D2
    pos = np.array([[10.0, 20.0, 30.0, 40.0], [5.0, 15.0, 25.0, 35.0]])
    fld = np.array([1.0, 2.0, 4.0, 3.0])
    bins = np.arange(0.0, 6000.0, 1000.0)
    check("aliasing:vario_estimate:bins", "vario_estimate(latlon, geo_scale) rescaled the caller's bin_edges", bins,
          lambda: gs.vario_estimate(pos, fld, bins, latlon=True, geo_scale=gs.KM_SCALE))
    # D3
    a = np.array([1.0, 2.0, 3.0])
    f = gs.field.Field(gs.Gaussian(dim=1), mean=1.0)
    check("aliasing:Field.__call__:field", "Field.__call__(pos, field=a) with a mean wrote into a", a, lambda: f([0.0, 1.0, 2.0], field=a))
    srf = gs.SRF(gs.Gaussian(dim=1), trend=lambda x: x, seed=1)
    stored = srf([0.0, 1.0, 2.0])
    check("aliasing:transform.normal_to_lognormal:attr:field", "transform(store=new, process=True) rewrote the stored field", stored,
          lambda: srf.transform("normal_to_lognormal", store="new", process=True))
    # mask of vario_estimate_axis
    m = np.ma.array(np.arange(12.0).reshape(3, 4), mask=np.zeros((3, 4), bool))
    m.mask[0, 0] = True
    m.data[1, 1] = np.nan
    check("aliasing:vario_estimate_axis:field.mask", "vario_estimate_axis extended the caller's mask", m, lambda: gs.vario_estimate_axis(m, "x"))
    # anis of lat-lon models
    an = np.array([2.0, 3.0, 4.0])
    check("aliasing:CovModel.anis(latlon):anis", "a lat-lon model overwrote the caller's anis array", an,
          lambda: gs.Gaussian(latlon=True, temporal=True, anis=an))
    return 5, viol


def extra_calls(rng, layouts, full):
    """public entry points that are searched only (no Lean program of their own): (key, roles, thunk)"""
    gs = _gs()
    import tempfile
    out = []
    n = 6
    model = gs.Exponential(dim=2, var=2.0, len_scale=3.0, nugget=0.1)
    opts = norm_options(True)
    for lay in layouts:
        opt = opts[int(rng.randint(len(opts)))]
        kw = dict(mean=opt.get("mean"), trend=opt.get("trend"), normalizer=opt.get("normalizer"))
        x, y = mk([0.0, 1.0, 2.0], lay), mk([0.0, 1.5], lay)
        pos = mk(_pos2(rng, n), lay)
        # structured / unstructured shortcuts, vector fields, set_pos
        srf = gs.SRF(model, seed=3, mode_no=16, **kw)
        out.append(("SRF.structured", {"x": x, "y": y}, lambda srf=srf, x=x, y=y: srf.structured((x, y), seed=1)))
        out.append(("SRF.unstructured", {"pos": pos}, lambda srf=srf, pos=pos: srf.unstructured(pos, seed=1)))
        vsrf = gs.SRF(gs.Gaussian(dim=2), generator="VectorField", seed=3, mode_no=16)
        out.append(("SRF[VectorField].__call__", {"pos": pos}, lambda vsrf=vsrf, pos=pos: vsrf(pos, seed=2)))
        out.append(("SRF[VectorField].structured", {"x": x, "y": y}, lambda vsrf=vsrf, x=x, y=y: vsrf((x, y), seed=2, mesh_type="structured")))
        fou = gs.SRF(gs.Gaussian(dim=2), generator="Fourier", period=[8.0, 8.0], mode_no=[4, 4], seed=3, **kw)
        out.append(("SRF[Fourier].__call__", {"pos": pos}, lambda fou=fou, pos=pos: fou(pos, seed=2)))
        fld = gs.field.Field(model, **kw)
        out.append(("Field.set_pos", {"pos": pos}, lambda fld=fld, pos=pos: fld.set_pos(pos)))
        vals = mk(np.round(rng.uniform(1, 9, size=6)), lay)
        out.append(("Field.structured(field=)", {"x": x, "y": y, "field": vals},
                    lambda fld=fld, x=x, y=y, vals=vals: fld.structured((x, y), field=vals)))
        # meshio
        try:
            import meshio
            pts = mk(np.array([[0.0, 0.0], [1.0, 0.0], [1.0, 1.0], [0.0, 1.0], [2.0, 0.5]]), lay if lay != "list" else "alias")
            cells = [("triangle", np.array([[0, 1, 2], [0, 2, 3], [1, 4, 2]]))]
            for pk in ("points", "centroids"):
                mesh = meshio.Mesh(pts, cells)
                out.append((f"SRF.mesh[{pk}]", {"points": mesh.points, "cells": mesh.cells[0].data},
                            lambda srf=srf, mesh=mesh, pk=pk: srf.mesh(mesh, points=pk, seed=1)))
        except ImportError:
            pass
        # kriging variants
        cp = mk(_pos2(rng, 5), lay)
        cv = mk(np.round(rng.uniform(4, 9, size=5)), lay)
        for kname, kkw in (("exact", {"exact": True}), ("inv", {"pseudo_inv": False}), ("pinvh", {"pseudo_inv_type": "pinvh"}),
                           ("cond_err=0.05", {"cond_err": 0.05}), ("fit_variogram", {"fit_variogram": True})):
            def kcall(cp=cp, cv=cv, kkw=kkw, pos=pos):
                k = gs.krige.Ordinary(gs.Gaussian(dim=2, var=2.0, len_scale=4.0, nugget=0.1), cp, cv, **kkw)
                k(pos, chunk_size=2)
                k.get_mean()
                k.set_condition()
                return k(pos, only_mean=True)
            out.append((f"Krige[{kname}]", {"condPos": cp, "condVal": cv, "pos": pos}, kcall))
        drift = mk(np.round(rng.uniform(1, 5, size=(2, 5))), lay)
        tdrift = mk(np.round(rng.uniform(1, 5, size=(2, n))), lay)

        def edk(cp=cp, cv=cv, drift=drift, tdrift=tdrift, pos=pos):
            k = gs.krige.ExtDrift(gs.Gaussian(dim=2, var=2.0, len_scale=4.0), cp, cv, drift)
            r = k(pos, ext_drift=tdrift, chunk_size=4)
            c = gs.CondSRF(k, seed=1, mode_no=16)
            c(pos, ext_drift=tdrift, seed=4)
            return r
        out.append(("ExtDrift[2 drifts]+CondSRF", {"condPos": cp, "condVal": cv, "extDrift": drift, "targetDrift": tdrift, "pos": pos}, edk))
        # variograms on structured meshes, other estimators / sampling
        sf = mk(np.round(rng.uniform(1, 9, size=(3, 2))), lay)
        out.append(("vario_estimate[structured]", {"x": x, "y": y, "field": sf},
                    lambda x=x, y=y, sf=sf: gs.vario_estimate((x, y), sf, mesh_type="structured", estimator="cressie")))
        ang = mk(np.array([0.5]), lay)
        f1 = mk(np.round(rng.uniform(1, 9, size=n)), lay)
        out.append(("vario_estimate[angles]", {"pos": pos, "field": f1, "angles": ang},
                    lambda pos=pos, f1=f1, ang=ang: gs.vario_estimate(pos, f1, angles=ang, bandwidth=2.0, fit_normalizer=True,
                                                                     normalizer=gs.normalizer.BoxCox)))
        # fitting with every array-like option
        xs = mk(np.arange(1.0, 9.0), lay)
        ys = mk(np.round(2.0 * (1 - np.exp(-np.arange(1.0, 9.0) / 3.0)) * 16) / 16, lay)
        ws = mk(np.arange(1.0, 9.0), lay if lay != "list" else "alias")

        def fit(xs=xs, ys=ys, ws=ws):
            m = gs.Stable(dim=2)
            m.fit_variogram(xs, ys, weights=ws, init_guess={"len_scale": 2.0, "default": "current"}, return_r2=True,
                            curve_fit_kwargs={"ftol": 1e-6})
            m.fit_variogram(xs, ys, weights="inv", nugget=False, sill=2.0)
            return m.fit_variogram(xs, ys, weights=lambda v: 1 / (1 + v), loss="soft_l1")
        out.append(("CovModel.fit_variogram[options]", {"xData": xs, "yData": ys, "weights": ws}, fit))
        # grids and vtk export
        t = mk([0.0, 1.0], lay)
        out.append(("generate_st_grid", {"pos": pos, "time": t}, lambda pos=pos, t=t: gs.generate_st_grid(pos, t)))
        out.append(("generate_grid", {"x": x, "y": y}, lambda x=x, y=y: gs.generate_grid([x, y])))
        if isinstance(x, np.ndarray):
            tmpd = tempfile.mkdtemp(prefix="c20vtk")
            f2 = mk(np.round(rng.uniform(1, 9, size=(3, 2))), lay)
            out.append(("vtk_export_structured", {"x": x, "y": y, "field": f2},
                        lambda x=x, y=y, f2=f2, tmpd=tmpd: gs.vtk_export_structured(os.path.join(tmpd, "s"), (x, y), {"f": f2})))
            pu = mk(_pos2(rng, n), lay)
            fu = mk(np.round(rng.uniform(1, 9, size=n)), lay)
            out.append(("vtk_export_unstructured", {"pos": pu, "field": fu},
                        lambda pu=pu, fu=fu, tmpd=tmpd: gs.vtk_export_unstructured(os.path.join(tmpd, "u"), pu, fu)))
            out.append(("Field.vtk_export", {"pos": pos}, lambda srf=srf, pos=pos, tmpd=tmpd: (srf(pos, seed=1), srf.vtk_export(os.path.join(tmpd, "f")))))
        # model helpers with array arguments
        m3 = gs.Gaussian(dim=3, len_scale=[3.0, 2.0, 1.0], angles=[0.3, 0.2, 0.1])
        p3 = mk(np.round(rng.uniform(0, 5, size=(3, 4)) * 2) / 2, lay)
        out.append(("CovModel.cov_spatial/isometrize/main_axes", {"pos": p3},
                    lambda m3=m3, p3=p3: (m3.cov_spatial(p3), m3.vario_spatial(p3), m3.cor_spatial(p3), m3.isometrize(p3), m3.anisometrize(p3),
                                          m3.main_axes(), m3.vario_axis(p3[0], 1), m3.cov_axis(p3[0], 2), m3.cor_axis(p3[0], 0))))
        bnd = mk([0.5, 4.0], lay)
        out.append(("CovModel.set_arg_bounds", {"bounds": bnd}, lambda bnd=bnd: gs.Gaussian(dim=2).set_arg_bounds(len_scale=bnd)))
        ls = mk([3.0, 2.0, 1.0], lay)
        out.append(("CovModel(len_scale=array)", {"lenScale": ls}, lambda ls=ls: gs.Matern(dim=3, len_scale=ls, nu=1.5).len_scale_vec))
    return out


def search(ctx, deep=False):
    rng = np.random.RandomState(ctx.seed + 200)
    ev0, viol = directed(ctx)
    viol += getattr(ctx, "c20_violations", [])
    # the sweep again with read-only and Fortran-ordered inputs (a silent `x += 0` on a caller array raises here) and,
    # in the thorough tier or when something is broken, with every normalizer / model / kriging variant
    layouts = ["ro", "fortran", "alias"] if ctx.quick and not deep else ["ro", "fortran", "alias", "strided", "i64"]
    cases = all_cases(rng, layouts, full=(not ctx.quick) or deep)
    n = 0
    errs = {}
    for c in cases:
        c.layouts = dict(getattr(c, "layouts", {}))
        mutated, outs, err, mem = c.observe()
        n += 1
        for mname in mutated:
            viol.append({"key": f"aliasing:{c.key}:{mname}", "what": f"{c.entry} changed the caller's / previously stored '{mname}'",
                         "case": c.describe()})
        if err and "read-only" in err:
            viol.append({"key": f"aliasing:{c.key}:readonly", "what": f"{c.entry} writes into a read-only input ({err})", "case": c.describe()})
    import shutil
    import tempfile
    for key, roles, thunk in extra_calls(rng, layouts, (not ctx.quick) or deep):
        before = {r: snap(o) for r, o in roles.items()}
        err = None
        with warnings.catch_warnings():
            warnings.simplefilter("ignore")
            try:
                thunk()
            except Exception as e:   # noqa: BLE001
                err = f"{type(e).__name__}: {str(e)[:100]}"
        n += 1
        for r, o in roles.items():
            if snap(o) != before[r]:
                viol.append({"key": f"aliasing:{key}:{r}", "what": f"{key} changed the caller's '{r}'",
                             "case": {"entry": key, "roles": {k: np.asarray(np.ma.getdata(v)).tolist() for k, v in roles.items()}}})
        if err and "read-only" in err:
            viol.append({"key": f"aliasing:{key}:readonly", "what": f"{key} writes into a read-only input ({err})", "case": {"entry": key}})
        elif err:
            errs[key + ": " + err.split(":")[0]] = errs.get(key + ": " + err.split(":")[0], 0) + 1
    for d in os.listdir(tempfile.gettempdir()):
        if d.startswith("c20vtk"):
            shutil.rmtree(os.path.join(tempfile.gettempdir(), d), ignore_errors=True)
    ev2, v2 = history_search(ctx, ctx.scale(40, 1500) * (3 if deep else 1), ctx.scale(14, 30))
    viol += v2
    ev3, v3 = container_protocol(ctx, ctx.scale(60, 600))
    ev2 += ev3
    viol += v3
    seen, uniq = set(), []
    for v in viol:
        if v["key"] not in seen:
            seen.add(v["key"])
            uniq.append(v)
    return {"evaluations": ev0 + n + ev2, "violations": uniq[:10],
            "summary": f"{ev0} replayed findings; {n} calls of the real API over entry points x roles x layouts {layouts} x options with byte "
                       f"snapshots of every caller array and stored result (read-only inputs make silent writes raise); {ev2} steps of random "
                       f"store/transform/krige/condition histories in which every array ever passed, returned or stored must keep its bytes "
                       f"(incl. {ev3} steps of the stored-field container protocol — index / slice / list reads and deletions — against a dict reference)",
            "errors_of_extra_calls": errs, "history_steps": getattr(ctx, "c20_history_stats", {})}


def container_protocol(ctx, n_hist):
    """the stored-field container of Field objects (`len`, `in`, `obj[name | index | slice | list]`, `del obj[...]`,
    `delete_fields`) against a plain ordered-dict reference: deleting or reading some stored results never alters, drops or
    keeps others, and every surviving array keeps its bytes"""
    import gstools as gs
    rng = np.random.RandomState(ctx.seed + 2020)
    viol, ev = [], 0
    for h in range(n_hist):
        dim = int(rng.randint(1, 3))
        kind = h % 3
        model = gs.Gaussian(dim=dim, var=1.0, len_scale=2.0)
        pos = rng.rand(dim, 5) * 6
        if kind == 0:
            obj = gs.SRF(model, seed=int(rng.randint(1, 10 ** 6)), mode_no=8)
            make = lambda name: obj(pos, store=name, seed=int(rng.randint(1, 10 ** 6)))
        elif kind == 1:
            obj = gs.krige.Ordinary(model, rng.rand(dim, 4) * 6, rng.randn(4))
            make = lambda name: obj(pos, store=[name, name + "_var"])
        else:
            kr = gs.krige.Simple(model, rng.rand(dim, 4) * 6, rng.randn(4))
            obj = gs.CondSRF(kr, seed=int(rng.randint(1, 10 ** 6)), mode_no=8)
            make = lambda name: obj(pos, store=[name, name + "_raw", name + "_rk"], seed=int(rng.randint(1, 10 ** 6)))
        names = ["f%d" % i for i in range(int(rng.randint(2, 6)))]
        for nm in names:
            make(nm)
        ref = {nm: np.array(obj[nm], copy=True) for nm in obj.field_names}
        order = list(obj.field_names)
        desc = dict(kind=["SRF", "Krige", "CondSRF"][kind], stored=list(order))
        for step in range(int(rng.randint(2, 7))):
            r = rng.rand()
            try:
                if r < 0.25 and order:
                    k = int(rng.randint(-len(order), len(order)))
                    got, want = obj[k], ref[order[k]]
                    op = f"obj[{k}]"
                    ok = np.array_equal(got, want)
                elif r < 0.4 and order:
                    a, b = sorted(int(x) for x in rng.randint(0, len(order) + 1, size=2))
                    got = obj[a:b]
                    op = f"obj[{a}:{b}]"
                    ok = len(got) == b - a and all(np.array_equal(g, ref[nm]) for g, nm in zip(got, order[a:b]))
                elif r < 0.5 and order:
                    sel = [order[i] for i in rng.permutation(len(order))[:int(rng.randint(1, len(order) + 1))]]
                    got = obj[sel]
                    op = f"obj[{sel}]"
                    ok = len(got) == len(sel) and all(np.array_equal(g, ref[nm]) for g, nm in zip(got, sel))
                elif r < 0.6:
                    op = "len / in"
                    ok = len(obj) == len(order) and all(nm in obj for nm in order) and ("nope" not in obj)
                else:
                    # deletions in every key form
                    form = int(rng.randint(0, 5)) if order else 4
                    if form == 0:
                        gone = [order[int(rng.randint(len(order)))]]; key = gone[0]
                    elif form == 1:
                        k = int(rng.randint(-len(order), len(order))); gone = [order[k]]; key = k
                    elif form == 2:
                        a, b = sorted(int(x) for x in rng.randint(0, len(order) + 1, size=2)); gone = order[a:b]; key = slice(a, b)
                    elif form == 3:
                        gone = [order[i] for i in rng.permutation(len(order))[:int(rng.randint(1, len(order) + 1))]]; key = list(gone)
                    else:
                        gone = list(order); key = None
                    op = "delete_fields()" if key is None else f"del obj[{key!r}]"
                    if key is None:
                        obj.delete_fields()
                    elif rng.rand() < 0.4:
                        op = f"delete_fields({key!r})"
                        obj.delete_fields(key)            # the `select` argument: same key forms as `del obj[...]`
                    else:
                        del obj[key]
                    order = [nm for nm in order if nm not in gone]
                    ok = list(obj.field_names) == order and all(not hasattr(obj, nm) for nm in gone) and \
                        all(np.array_equal(obj[nm], ref[nm]) for nm in order)
            except Exception as e:   # noqa: BLE001
                ok, op = False, f"{op if 'op' in dir() else 'op'} raised {type(e).__name__}: {e}"
            ev += 1
            if not ok:
                viol.append({"key": f"stored-fields:container:{desc['kind']}", "what": f"after {op} the stored results are not the expected ones "
                             f"(expected names {order}, object has {list(obj.field_names)})", "case": dict(desc, op=op)})
                break
    return ev, viol


def replay(ctx, payload):
    """re-run the cases named by the violation keys of a replay file; exit status 1 if one still fails"""
    keys = {v.get("key", "") for v in payload.get("violations", [])}
    rng = np.random.RandomState(ctx.seed + 200)
    _, viol = directed(ctx)
    for c in all_cases(rng, ["ro", "fortran", "alias", "strided", "i64"], True):
        if not any(k.startswith(f"aliasing:{c.key}:") for k in keys):
            continue
        mutated, outs, err, mem = c.observe()
        for m in mutated:
            viol.append({"key": f"aliasing:{c.key}:{m}", "what": f"{c.entry} changed '{m}'", "case": c.describe()})
    hit = [v for v in viol if v["key"] in keys] or viol
    for v in hit[:5]:
        print("REPRODUCED", v["key"], "-", v["what"])
    if not hit:
        print("not reproduced on the current tree")
    return 1 if hit else 0
