"""C20 — operations never modify caller arrays or previously stored results.

Three ties between the Lean heap model (GSV/Model/Heap.lean) and the real package:
  * static scan (python `ast`): every in-place site of /repo/src/gstools (augmented assignment, slice/attribute
    assignment, `out=`, in-place ndarray methods, helpers that write into a parameter) is translated, together with
    the data flow that reaches it, into a structured heap program; the *Lean* ownership analysis (`safeP`, proved
    sound in GSV/Lemmas/Heap.lean) must accept every function.  A site the analysis cannot prove to write into
    memory allocated by the same call, and that is not whitelisted below with a reason, breaks the tie.
  * primitives: the modelled numpy rules (asarray / reshape / np.array / ma.array / filled / `op=` / item assignment /
    mask assignment) are compared with numpy itself on every object class the harness uses.
  * entry points: every modelled public entry point x role x layout x option combination is executed on the real
    API with byte-wise snapshots of caller arrays and earlier results and with np.shares_memory on every output;
    the set of mutated roles and the aliasing pattern of the outputs must equal what the Lean program predicts.
The search runs the same sweep wider (all normalizers / kriging variants / transforms / generators / model functions,
read-only arrays, roles sharing one buffer, random store/transform histories); a caller-visible write is reported
with key `aliasing:<entrypoint>:<role>`.
"""
import ast
import copy as _copy
import itertools
import os
import warnings

import numpy as np

from proto import run_driver

NEEDS_DRIVER = True
ASSUMPTIONS = [
    "numpy's aliasing rules are modelled (asarray = alias iff float64 ndarray, reshape = view iff possible, np.array = copy, "
    "boolean/fancy indexing and arithmetic = new array, op= / item assignment write through); the rules are compared with numpy "
    "on every object class used, not proved",
    "the entry-point programs of GSV/Model/Heap.lean are hand-written; they are tied to the code by the observed mutation and "
    "aliasing pattern of every output, and the in-place sites of the package are re-translated from the source on every run",
    "compiled kernels, scipy (curve_fit, cdist, pinv) and user callables (mean/trend/drift functions, transform functions) "
    "are assumed not to write into the arrays they are given",
    "python containers (dict/list arguments such as curve_fit_kwargs) are outside the statement, which is about arrays",
]
TRUSTED_EXTRA = ["python ast and the syntax-directed translation of in-place sites into heap programs (vlib/props/C20.py)"]

SRC = os.path.join(os.environ.get("GSV_REPO", "/repo"), "src", "gstools")

# ----------------------------------------------------------------------------------------------------------------
# variables / names shared with GSV/Model/Heap.lean
# ----------------------------------------------------------------------------------------------------------------
V = dict(pos=0, field=1, bins=2, mask=3, direction=4, extDrift=5, condPos=6, condVal=7, condErr=8, xData=9, yData=10,
         weights=11, pointVol=12, data=13)
N = dict(field=0, rawField=1, rawKrige=2, krigeField=3, krigeVar=4, meanField=5, new=6, pos=7, condPos=8, condVal=9,
         condErr=10, condExt=11, krigePos=12, krigeMat=13)
N_INV = {v: k for k, v in N.items()}

LAYOUTS = ["alias", "i64", "f32", "list", "strided"]


def mk(values, layout):
    """the same numbers in a given layout.  'alias' = float64 C-contiguous (the aliasing-enabling one)"""
    a = np.array(values, dtype=np.double)
    if layout == "alias":
        return a
    if layout == "ro":
        a.flags.writeable = False
        return a
    if layout == "i64":
        return np.array(np.round(a), dtype=np.int64)
    if layout == "f32":
        return a.astype(np.float32)
    if layout == "list":
        return a.tolist()
    if layout == "strided":       # float64 view with a step: asarray aliases, reshape to another shape copies
        big = np.zeros(a.shape[:-1] + (2 * a.shape[-1],))
        big[..., ::2] = a
        return big[..., ::2]
    if layout == "fortran":
        return np.asfortranarray(a)
    raise ValueError(layout)


def snap(x):
    if isinstance(x, np.ma.MaskedArray):
        return (np.ma.getdata(x).tobytes(), np.ma.getmaskarray(x).tobytes() if x.mask is not np.ma.nomask else b"nomask",
                x.shape, str(x.dtype))
    if isinstance(x, np.ndarray):
        return (x.tobytes(), x.shape, str(x.dtype))
    if isinstance(x, (list, tuple)):
        return tuple(snap(e) for e in x)
    return repr(x)


def parts(name, x):
    """split a role into the memory blocks it owns: [(part name, ndarray)]"""
    if isinstance(x, np.ma.MaskedArray):
        out = [(name, np.ma.getdata(x))]
        if x.mask is not np.ma.nomask:
            out.append((name + ".mask", x.mask))
        return out
    if isinstance(x, np.ndarray):
        return [(name, x)]
    if isinstance(x, (list, tuple)) and x and all(isinstance(e, np.ndarray) for e in x):
        return [(f"{name}[{i}]", e) for i, e in enumerate(x)]
    return []


def shares(a, b):
    if not isinstance(a, np.ndarray) or not isinstance(b, np.ndarray) or a.size == 0 or b.size == 0:
        return False
    return bool(np.shares_memory(a, b))


class Case:
    """one call of the real API together with its description for the Lean model"""

    def __init__(self, entry, ep, cfg, roles, call, stored=None, targets=None, variant="", skip_alias=(), key=None):
        self.entry = entry            # human name of the real entry point
        self.ep = ep                  # Lean EP
        self.cfg = cfg                # Lean Cfg flags
        self.roles = roles            # role name -> caller object
        self.call = call              # () -> {output name: array}
        self.stored = stored or {}    # attr name -> array stored before the call
        self.targets = targets or {}  # role name -> shape the code reshapes it to
        self.variant = variant
        self.skip_alias = set(skip_alias)
        self.key = key or entry

    # -- the heap description handed to the Lean driver
    def lean_op(self):
        blocks = []   # (block name, ndarray) with buffer id = index; blocks sharing memory get the same id
        ids = {}

        def buf_of(name, arr):
            for i, (n2, a2) in enumerate(blocks):
                if shares(arr, a2):
                    ids[name] = i
                    return i
            blocks.append((name, arr))
            ids[name] = len(blocks) - 1
            return len(blocks) - 1

        def binding(key, name, obj):
            if isinstance(obj, np.ma.MaskedArray):
                bufs = [buf_of(name, np.ma.getdata(obj))]
                mask = [buf_of(name + ".mask", obj.mask)] if obj.mask is not np.ma.nomask else []
                f64 = obj.dtype == np.float64
            elif isinstance(obj, np.ndarray):
                bufs, mask, f64 = [buf_of(name, obj)], [], obj.dtype == np.float64
            else:
                bufs, mask, f64 = [], [], False
            view = True
            if isinstance(obj, np.ndarray) and name in self.targets:
                base = np.ma.getdata(obj) if isinstance(obj, np.ma.MaskedArray) else obj
                try:
                    view = shares(base, base.reshape(self.targets[name]))
                except ValueError:
                    view = True
            return {"key": key, "bufs": bufs, "mask": mask, "f64": bool(f64), "view": bool(view)}

        env = [binding(V[r], r, o) for r, o in self.roles.items()]
        attrs = [binding(N[n], "attr:" + n, o) for n, o in self.stored.items()]
        op = {"op": "heap_ep", "ep": self.ep, "cfg": self.cfg, "next": len(blocks), "env": env, "attrs": attrs}
        if self.variant:
            op["variant"] = self.variant
        return op, ids

    def observe(self):
        """run the real call; returns (mutated block names, outputs, error string)"""
        mem = []
        for r, o in self.roles.items():
            mem += parts(r, o)
        for n, o in self.stored.items():
            mem += parts("attr:" + n, o)
        before = {n: snap(a) for n, a in mem}
        whole = {r: snap(o) for r, o in self.roles.items()}
        err = None
        outs = {}
        with warnings.catch_warnings():
            warnings.simplefilter("ignore")
            try:
                outs = self.call() or {}
            except Exception as e:   # noqa: BLE001 - canonicalised below
                err = f"{type(e).__name__}: {str(e)[:120]}"
        mutated = sorted(n for n, a in mem if snap(a) != before[n])
        for r, o in self.roles.items():   # lists and other containers
            if snap(o) != whole[r] and not any(m == r or m.startswith(r + ".") or m.startswith(r + "[") for m in mutated):
                mutated.append(r)
        return mutated, outs, err, dict(mem)


def compare(case, lean):
    """-> (record, list of disagreement strings, list of violations)"""
    op, ids = case._op
    mutated, outs, err, mem = case._obs
    inv = {}
    for n, i in ids.items():
        inv.setdefault(i, []).append(n)
    pred_mut = sorted(n for i in lean["written"] for n in inv.get(i, []))
    dis = []
    viol = [{"key": f"aliasing:{case.key}:{m}", "what": f"{case.entry} changed the caller's / previously stored '{m}'",
             "case": case.describe()} for m in mutated]
    if err and "read-only" in err:
        viol.append({"key": f"aliasing:{case.key}:readonly", "what": f"{case.entry} tried to write into a read-only input: {err}",
                     "case": case.describe()})
    if sorted(mutated) != pred_mut:
        dis.append(f"mutated roles: model {pred_mut}, implementation {sorted(mutated)}")
    if not lean["safe"] and not pred_mut and not mutated:
        pass  # an unsafe program that writes nothing on this heap is fine
    # aliasing pattern of the outputs
    pred_objs = {}
    for i, o in enumerate(lean["rets"]):
        pred_objs[f"ret{i}"] = set(o["bufs"]) | set(o["mask"])
    for a in lean["attrs"]:
        pred_objs["attr:" + N_INV.get(a["name"], str(a["name"]))] = set(a["obj"]["bufs"]) | set(a["obj"]["mask"])
    pat_obs, pat_pred = [], []
    if err is None:
        names = sorted(outs)
        for o in names:
            if o in case.skip_alias:
                continue
            if o not in pred_objs:
                dis.append(f"output {o} not produced by the model")
                continue
            arr = outs[o]
            arr_parts = [p for _, p in parts(o, arr)] if isinstance(arr, np.ndarray) else []
            for blk, a in mem.items():
                ob = any(shares(p, a) for p in arr_parts)
                pr = ids[blk] in pred_objs[o]
                if ob:
                    pat_obs.append(f"{o}~{blk}")
                if pr:
                    pat_pred.append(f"{o}~{blk}")
            for o2 in names:
                if o2 <= o or o2 in case.skip_alias or o2 not in pred_objs:
                    continue
                a2 = outs[o2]
                p2 = [p for _, p in parts(o2, a2)] if isinstance(a2, np.ndarray) else []
                if any(shares(p, q) for p in arr_parts for q in p2):
                    pat_obs.append(f"{o}~{o2}")
                if pred_objs[o] & pred_objs[o2]:
                    pat_pred.append(f"{o}~{o2}")
        if sorted(set(pat_obs)) != sorted(set(pat_pred)):
            dis.append(f"aliasing of outputs: model {sorted(set(pat_pred))}, implementation {sorted(set(pat_obs))}")
    rec = {"entry": case.entry, "ep": case.ep, "cfg": {k: v for k, v in case.cfg.items() if v}, "layouts": case.layouts,
           "mutated": mutated, "aliases": sorted(set(pat_obs)), "error": err, "safe": lean["safe"]}
    return rec, dis, viol


def _describe(self):
    return {"entry": self.entry, "ep": self.ep, "cfg": {k: v for k, v in self.cfg.items() if v},
            "layouts": getattr(self, "layouts", {}), "roles": {r: (np.asarray(o).tolist() if not isinstance(o, np.ma.MaskedArray)
                                                                  else {"data": o.data.tolist(), "mask": np.ma.getmaskarray(o).tolist()})
                                                               for r, o in self.roles.items()}}


Case.describe = _describe


def run_cases(cases):
    """execute the real calls, then the Lean programs, and compare"""
    ops = []
    for c in cases:
        c._op = c.lean_op()          # describe the heap BEFORE the call (blocks, sharing, flags)
        ops.append(c._op[0])
    for c in cases:
        c._obs = c.observe()
    res = run_driver(ops)
    recs, dis, viol = [], [], []
    for c, r in zip(cases, res):
        if isinstance(r, dict) and "error" in r:
            dis.append({"what": f"driver error for {c.entry}: {r['error']}", "case": c.describe()})
            continue
        rec, d, v = compare(c, r)
        recs.append(rec)
        for x in d:
            dis.append({"what": f"{c.entry}: {x}", "case": c.describe(), "model": r})
        viol += v
    return recs, dis, viol


# ----------------------------------------------------------------------------------------------------------------
# case generators (real API)
# ----------------------------------------------------------------------------------------------------------------
def _gs():
    import gstools as gs
    return gs


def _pos2(rng, n):
    return np.round(rng.uniform(0, 10, size=(2, n)) * 4) / 4


def _mean_fn(x, y):
    return 0.5 + 0.25 * x


def cases_mean_norm_trend(rng, layouts, opts):
    gs = _gs()
    from gstools.normalizer import apply_mean_norm_trend, remove_trend_norm_mean
    out = []
    n = 6
    for fn, ep in ((apply_mean_norm_trend, "applyMNT"), (remove_trend_norm_mean, "removeTNM")):
        for lay_f, lay_p, stacked, check, opt in itertools.product(layouts, layouts[:2], (False, True), (True, False), opts):
            pos = mk(_pos2(rng, n), lay_p)
            shape = (2, n) if stacked else (n,)
            vals = np.round(rng.uniform(4, 9, size=shape))
            field = mk(vals, lay_f)
            if not check and not isinstance(field, np.ndarray):
                pass  # check_shape=False: the code only needs np.array(field) to work
            kw = dict(mean=opt.get("mean"), trend=opt.get("trend"), normalizer=opt.get("normalizer"),
                      check_shape=check, stacked=stacked)
            if check and not isinstance(field, np.ndarray):
                continue   # field.shape is read before conversion
            if fn is remove_trend_norm_mean and opt.get("fit"):
                kw["fit_normalizer"] = True

            def call(fn=fn, pos=pos, field=field, kw=kw):
                r = fn(pos, field, **kw)
                return {"ret0": r[0] if isinstance(r, tuple) else r}
            c = Case(fn.__name__, ep, {"checkShape": check, "stacked": stacked}, {"pos": pos, "field": field}, call,
                     targets={"field": shape, "pos": (2, n)})
            c.layouts = {"field": lay_f, "pos": lay_p, "opt": opt.get("name")}
            out.append(c)
    return out


def norm_options(full):
    gs = _gs()
    o = [{"name": "mean+trend", "mean": 1.5, "trend": _mean_fn},
         {"name": "lognormal+mean", "mean": 0.25, "normalizer": gs.normalizer.LogNormal(), "trend": 2.0}]
    if full:
        o += [{"name": "plain"}, {"name": "fit-boxcox", "normalizer": gs.normalizer.BoxCox(lmbda=0.5), "fit": True, "trend": 0.5},
              {"name": "yeojohnson", "normalizer": gs.normalizer.YeoJohnson(lmbda=0.7), "mean": _mean_fn}]
    return o


def cases_normalizer(rng, layouts, full):
    gs = _gs()
    Ns = [gs.normalizer.LogNormal, gs.normalizer.BoxCox, gs.normalizer.YeoJohnson]
    if full:
        Ns += [gs.normalizer.Normalizer, gs.normalizer.BoxCoxShift, gs.normalizer.Modulus, gs.normalizer.Manly]
    out = []
    for cls in Ns:
        for lay in layouts:
            for meth in ("normalize", "denormalize", "derivative") + (("fit", "loglikelihood", "likelihood") if full or cls is Ns[0] else ()):
                vals = np.round(rng.uniform(1, 5, size=(2, 5)) * 2) / 2
                if rng.rand() < 0.5:
                    vals[0, 1] = np.nan
                data = mk(np.nan_to_num(vals, nan=2.0) if lay == "i64" else vals, lay)
                nz = cls()

                def call(nz=nz, meth=meth, data=data):
                    r = getattr(nz, meth)(data)
                    return {"ret0": r} if isinstance(r, np.ndarray) and meth in ("normalize", "denormalize", "derivative") else {}
                ep = "normalizerCall" if meth in ("normalize", "denormalize", "derivative") else "normalizerFit"
                c = Case(f"{cls.__name__}.{meth}", ep, {}, {"data": data}, call, key=f"Normalizer.{meth}")
                c.layouts = {"data": lay, "class": cls.__name__}
                out.append(c)
    return out


def _field_obj(rng, opt, cls="Field", dim=2):
    gs = _gs()
    model = gs.Exponential(dim=dim, var=2.0, len_scale=3.0)
    kw = dict(mean=opt.get("mean"), trend=opt.get("trend"), normalizer=opt.get("normalizer"))
    if cls == "Field":
        return gs.field.Field(model, **kw)
    if cls == "SRF":
        return gs.SRF(model, seed=int(rng.randint(1 << 20)), mode_no=16, upscaling=opt.get("upscaling", "no_scaling"), **kw)
    raise ValueError(cls)


def cases_field_call(rng, layouts, opts, full):
    out = []
    n = 6
    for lay_f, lay_p, process, store, structured, opt in itertools.product(
            layouts + [None], layouts[:2], (True, False), (True, "new", False), (False, True) if full else (False,), opts):
        fld = _field_obj(rng, opt)
        if structured:
            pos = (mk([0., 1., 2.], lay_p), mk([0., 1.], lay_p))
            shape = (3, 2)
            tot = 6
        else:
            pos = mk(_pos2(rng, n), lay_p)
            shape, tot = (n,), n
        # the field is given flat for structured meshes with the strided layout (reshape must copy)
        fvals = np.round(rng.uniform(1, 9, size=(tot,) if (structured and lay_f == "strided") else shape))
        field = None if lay_f is None else mk(fvals, lay_f)
        roles = {"pos": pos} if not structured else {}
        if field is not None:
            roles["field"] = field
        name = "new" if store == "new" else "field"

        def call(fld=fld, pos=pos, field=field, process=process, store=store, structured=structured, name=name):
            r = fld(pos, field=field, mesh_type="structured" if structured else "unstructured", post_process=process, store=store)
            o = {"ret0": r}
            if store:
                o["attr:" + name] = fld[name]
            if not structured:
                o["attr:pos"] = fld.pos
            return o
        c = Case("Field.__call__", "fieldCall", {"fieldGiven": field is not None, "process": process, "save": bool(store),
                                                 "storeNew": store == "new"}, roles, call,
                 targets={"field": shape, "pos": (2, n)}, skip_alias=() if not structured else ("attr:pos",))
        c.layouts = {"field": lay_f, "pos": lay_p, "opt": opt.get("name"), "structured": structured}
        out.append(c)
    return out


def cases_srf_call(rng, layouts, opts, full):
    gs = _gs()
    out = []
    n = 5
    for lay_p, lay_v, process, store, opt in itertools.product(layouts[:3], layouts + [None], (True, False),
                                                               (True, "new", False), opts[:2] if not full else opts):
        o2 = dict(opt)
        if lay_v is not None:
            o2["upscaling"] = "coarse_graining"
        srf = _field_obj(rng, o2, "SRF")
        pos = mk(_pos2(rng, n), lay_p)
        if lay_v == "list":
            continue   # upscaling needs an ndarray (documented)
        vol = None if lay_v is None else mk(np.round(rng.uniform(1, 3, size=n)), lay_v)
        roles = {"pos": pos}
        if vol is not None:
            roles["pointVol"] = vol
        name = "new" if store == "new" else "field"

        def call(srf=srf, pos=pos, vol=vol, process=process, store=store, name=name):
            r = srf(pos, seed=7, point_volumes=0.0 if vol is None else vol, post_process=process, store=store)
            o = {"ret0": r, "attr:pos": srf.pos}
            if store:
                o["attr:" + name] = srf[name]
            return o
        c = Case("SRF.__call__", "srfCall", {"upscale": vol is not None, "process": process, "save": bool(store),
                                             "storeNew": store == "new"}, roles, call, targets={"pos": (2, n)})
        c.layouts = {"pos": lay_p, "pointVol": lay_v, "opt": opt.get("name")}
        out.append(c)
    return out


def cases_transform(rng, layouts, opts, full):
    """fld.transform(method, field, store, process) on a stored field that the 'caller' still holds"""
    gs = _gs()
    mv = {}
    methods = [("binary", {"divide": 2.0, "upper": 3.0, "lower": 1.0}), ("discrete", {"values": [0.0, 1.0, 2.0]}),
               ("boxcox", {"lmbda": 0.5, "shift": 20.0}), ("zinnharvey", dict(mv)),
               ("normal_force_moments", {}), ("normal_to_lognormal", {}), ("normal_to_uniform", dict(mv)), ("normal_to_arcsin", dict(mv)),
               ("normal_to_uquad", dict(mv)), ("function", {"function": lambda x: x * 2.0}), ("function", {"function": lambda x: x})]
    if not full:
        methods = [methods[0], methods[2], methods[5], methods[9], methods[10]]
    out = []
    n = 6
    for (meth, kw), process, store, opt in itertools.product(methods, (True, False), (True, "new", False), opts):
        o2 = dict(opt)
        kw = dict(kw)
        if meth == "normal_force_moments":
            o2 = {"name": "const-mean", "mean": 1.0}   # checks for a plain normal field even with process=True
        elif meth in ("zinnharvey", "normal_to_uniform", "normal_to_arcsin", "normal_to_uquad"):
            if not process:
                o2 = {"name": "const-mean", "mean": 1.0}
            elif not isinstance(o2.get("mean"), float):
                kw["keep_mean"] = False
        fld = _field_obj(rng, o2)
        pos = _pos2(rng, n)
        base = np.round(rng.uniform(1, 4, size=n) * 2) / 2
        fld(pos, field=base, post_process=False, store="field")   # stores `base` itself (float64, right shape)
        stored = {"field": fld["field"]}
        ident = meth == "function" and kw["function"](base) is base
        name = "new" if store == "new" else "field"

        def call(fld=fld, meth=meth, kw=kw, process=process, store=store, name=name):
            r = fld.transform(meth, field="field", store=store, process=process, **kw)
            o = {"ret0": r}
            if store:
                o["attr:" + name] = fld[name]
            if store == "new":
                o["attr:field"] = fld["field"]
            return o
        c = Case(f"transform.{meth}" + ("(identity)" if ident else ""), "transform",
                 {"process": process, "fnIdentity": ident, "storeNew": store == "new", "save": bool(store)}, {}, call, stored=stored,
                 key=f"transform.{meth}")
        c.layouts = {"opt": o2.get("name"), "store": store}
        out.append(c)
    return out


def _krige(rng, kind, cond_pos, cond_val, opt, **kw):
    gs = _gs()
    model = gs.Gaussian(dim=2, var=2.0, len_scale=4.0, nugget=0.1)
    common = dict(normalizer=opt.get("normalizer"), trend=opt.get("trend"))
    if kind == "simple":
        return gs.krige.Simple(model, cond_pos, cond_val, mean=opt.get("mean") if not callable(opt.get("mean")) else 1.0, **common, **kw)
    if kind == "ordinary":
        return gs.krige.Ordinary(model, cond_pos, cond_val, **common, **kw)
    if kind == "universal":
        return gs.krige.Universal(model, cond_pos, cond_val, "linear", **common, **kw)
    if kind == "extdrift":
        return gs.krige.ExtDrift(model, cond_pos, cond_val, **common, **kw)
    if kind == "detrended":
        return gs.krige.Detrended(model, cond_pos, cond_val, _mean_fn, **kw)
    raise ValueError(kind)


def cases_krige(rng, layouts, opts, full):
    out = []
    m, n = 5, 4
    kinds = ["simple", "ordinary", "universal", "extdrift", "detrended"]
    # --- set_condition / constructor
    for kind, lay, err_arr, fitn, fitv, opt in itertools.product(kinds, layouts, (False, True), (False, True) if full else (False,),
                                                               (False, True) if full else (False,), opts[:2]):
        if (fitv and kind == "extdrift") or ((fitn or fitv) and kind == "detrended"):
            continue
        cp = mk(_pos2(rng, m), lay)
        cv = mk(np.round(rng.uniform(4, 9, size=m)) + np.arange(m) / 4.0, lay)
        ed = mk(np.round(rng.uniform(1, 5, size=(1, m))), lay) if kind == "extdrift" else None
        ce = mk(np.round(rng.uniform(1, 4, size=m)) / 64, "alias" if lay in ("i64", "list") and False else lay) if err_arr else None
        if err_arr and lay == "i64":
            ce = mk(np.zeros(m), lay)
        roles = {"condPos": cp, "condVal": cv}
        kw = {}
        if ed is not None:
            roles["extDrift"] = ed
            kw["ext_drift"] = ed
        if ce is not None:
            roles["condErr"] = ce
            kw["cond_err"] = ce
        if fitn:
            kw["fit_normalizer"] = True
        if fitv:
            kw["fit_variogram"] = True
        o2 = dict(opt)
        if fitn and o2.get("normalizer") is None:
            o2["normalizer"] = _gs().normalizer.BoxCox(lmbda=0.7)

        def call(kind=kind, cp=cp, cv=cv, o2=o2, kw=kw, ed=ed, ce=ce):
            k = _krige(rng, kind, cp, cv, o2, **kw)
            o = {"attr:condPos": k.cond_pos, "attr:condVal": k.cond_val, "attr:krigePos": k._krige_pos, "attr:krigeMat": k._krige_mat,
                 "attr:condExt": k.cond_ext_drift}
            if ce is not None and isinstance(k._cond_err, np.ndarray):
                o["attr:condErr"] = k._cond_err
            return o
        c = Case(f"Krige[{kind}].set_condition", "krigeSetCond",
                 {"fitNorm": fitn, "fitVario": fitv, "condErrArr": ce is not None, "extDrift": ed is not None}, roles, call,
                 targets={"condPos": (2, m), "condVal": (m,), "condErr": (m,), "extDrift": (1, m)}, key="Krige.set_condition")
        c.layouts = {"all": lay, "kind": kind, "opt": o2.get("name"), "fit": [fitn, fitv]}
        out.append(c)
    # --- __call__
    for kind, lay, only_mean, ret_var, process, store, opt in itertools.product(
            kinds, layouts, (False, True), (True, False), (True, False), (True, False) if full else (True,), opts[:2]):
        if only_mean and kind == "detrended":
            continue
        cp, cv = _pos2(rng, m), np.round(rng.uniform(1, 9, size=m))
        kw = {"ext_drift": np.round(rng.uniform(1, 5, size=(1, m)))} if kind == "extdrift" else {}
        k = _krige(rng, kind, cp, cv, opt, **kw)
        pos = mk(_pos2(rng, n), lay)
        roles = {"pos": pos}
        ckw = {}
        if kind == "extdrift":
            ed = mk(np.round(rng.uniform(1, 5, size=(1, n))), lay)
            roles["extDrift"] = ed
            ckw["ext_drift"] = ed

        def call(k=k, pos=pos, ckw=ckw, only_mean=only_mean, ret_var=ret_var, process=process, store=store):
            r = k(pos, only_mean=only_mean, return_var=ret_var, post_process=process, store=store, **ckw)
            o = {"attr:pos": k.pos}
            if isinstance(r, tuple):
                o["ret0"], o["ret1"] = r
            else:
                o["ret0"] = r
            if store:
                if only_mean:
                    o["attr:meanField"] = k["mean_field"]
                else:
                    o["attr:krigeField"] = k["field"]
                    if ret_var:
                        o["attr:krigeVar"] = k["krige_var"]
            return o
        c = Case(f"Krige[{kind}].__call__", "krigeCall",
                 {"returnVar": ret_var, "onlyMean": only_mean, "extDrift": kind == "extdrift", "process": process, "save": bool(store)},
                 roles, call, targets={"pos": (2, n), "extDrift": (1, n)}, key="Krige.__call__")
        c.layouts = {"all": lay, "kind": kind, "opt": opt.get("name")}
        out.append(c)
    return out


def cases_condsrf(rng, layouts, opts, full):
    gs = _gs()
    out = []
    m, n = 4, 5
    for lay, process, store, reuse, opt in itertools.product(layouts[:3], (True, False), (True, False), (False, True), opts[:2]):
        cp, cv = _pos2(rng, m), np.round(rng.uniform(1, 9, size=m))
        k = _krige(rng, "ordinary", cp, cv, opt)
        cs = gs.CondSRF(k, seed=3, mode_no=16)
        pos = mk(_pos2(rng, n), lay)
        stored = {}
        if reuse:
            if not store:
                continue
            cs(pos, seed=5, post_process=process)      # first call fills raw_krige / krige_var; the caller keeps them
            stored = {"rawKrige": cs["raw_krige"], "krigeVar": k["krige_var"], "field": cs["field"], "rawField": cs["raw_field"],
                      "krigeField": k["field"]}

        def call(cs=cs, k=k, pos=pos, process=process, store=store, reuse=reuse):
            r = cs(None if reuse else pos, seed=9, post_process=process, store=store)
            o = {"ret0": r}
            if store:
                o.update({"attr:field": cs["field"], "attr:rawField": cs["raw_field"], "attr:rawKrige": cs["raw_krige"],
                          "attr:krigeField": k["field"], "attr:krigeVar": k["krige_var"]})
            return o
        c = Case("CondSRF.__call__", "condSrfCall", {"reuse": reuse, "keepKrige": reuse, "process": process, "save": bool(store)},
                 {} if reuse else {"pos": pos}, call, stored=stored, targets={"pos": (2, n)}, skip_alias=("attr:pos",))
        c.layouts = {"pos": lay, "opt": opt.get("name"), "reuse": reuse}
        out.append(c)
    return out


def cases_vario(rng, layouts, opts, full):
    gs = _gs()
    out = []
    n = 9
    combos = itertools.product(layouts, ("plain", "masked", "maskarg", "allmasked"), (None, "given"), (False, True),
                               (None, "one", "two"), (False, True), (False, True), opts[:2] if not full else opts)
    for lay, mkind, bins_k, latlon, dirs, nodata, sampling, opt in combos:
        if not full and rng.rand() < 0.6:
            continue
        if latlon and dirs:
            continue
        pos_v = _pos2(rng, n)
        if latlon:
            pos_v = np.vstack([np.round(rng.uniform(-60, 60, n)), np.round(rng.uniform(-100, 100, n))])
        pos = mk(pos_v, lay)
        F = 2
        fvals = np.round(rng.uniform(1, 9, size=(F, n)))
        field = mk(fvals, lay)
        roles = {"pos": pos}
        kw = dict(mean=opt.get("mean"), trend=opt.get("trend"), normalizer=opt.get("normalizer"), latlon=latlon,
                  geo_scale=gs.KM_SCALE if latlon else 1.0, return_counts=True)
        cfg = {"latlon": latlon}
        if mkind == "masked" and isinstance(field, np.ndarray):
            msk = np.zeros((F, n), bool)
            msk[:, 2] = True
            msk[0, 4] = True
            field = np.ma.array(field, mask=msk)
            cfg["masked"] = True
        roles["field"] = field
        if mkind in ("maskarg", "allmasked"):
            marg = np.zeros(n, bool)
            marg[1] = True
            if mkind == "allmasked":
                marg[:] = True
            roles["mask"] = marg
            kw["mask"] = marg
            cfg["masked"] = True
        if mkind == "allmasked":
            cfg["allMasked"] = True
        if bins_k:
            be = np.arange(0.0, 6.0) * (1500.0 if latlon else 2.0)
            bins = mk(be, lay)
            roles["bins"] = bins
            kw["bin_edges"] = bins
            cfg["binsGiven"] = True
        if dirs:
            d = np.array([[1.0, 0.0]]) if dirs == "one" else np.array([[1.0, 0.0], [0.0, 1.0]])
            d = mk(d, lay)
            roles["direction"] = d
            kw["direction"] = d
            cfg["directional"] = True
            cfg["oneDir"] = dirs == "one"
        if nodata:
            kw["no_data"] = float(fvals[0, 0])
            cfg["noData"] = True
        if sampling:
            kw["sampling_size"] = 5
            kw["sampling_seed"] = 1
            cfg["sampling"] = True

        def call(pos=pos, field=field, kw=kw):
            r = gs.vario_estimate(pos, field, **kw)
            return {f"ret{i}": x for i, x in enumerate(r)}
        c = Case("vario_estimate", "varioEstimate", cfg, roles, call,
                 targets={"pos": (2, n), "field": (F, n), "mask": (n,)})
        c.layouts = {"all": lay, "mask": mkind, "bins": bins_k, "dirs": dirs, "opt": opt.get("name")}
        out.append(c)
    # --- along an axis
    for lay, mkind, missing, axis in itertools.product(layouts + ["fortran"], ("plain", "masked", "nomask"), (None, "nan", "nodata"), (0, 1)):
        vals = np.round(rng.uniform(1, 9, size=(4, 3)))
        vals[0, 0] = 7.0
        if missing == "nan" and lay not in ("i64",):
            vals[1, 1] = np.nan
        field = mk(vals, lay)
        if mkind != "plain":
            if not isinstance(field, np.ndarray):
                continue
            if mkind == "masked":
                msk = np.zeros((4, 3), bool)
                msk[2, 0] = True
                field = np.ma.array(field, mask=msk)
            else:
                field = np.ma.array(field)
        kw = {"no_data": 7.0} if missing == "nodata" else {}
        is_missing = missing == "nodata" or (missing == "nan" and lay != "i64")

        def call(field=field, axis=axis, kw=kw):
            return {"ret0": gs.vario_estimate_axis(field, direction=axis, **kw)}
        c = Case("vario_estimate_axis", "varioAxis", {"masked": mkind == "masked", "missing": is_missing}, {"field": field}, call,
                 targets={"field": (4, 3)})
        c.layouts = {"field": lay, "mask": mkind, "missing": missing, "axis": axis}
        out.append(c)
    # --- standard_bins
    for lay, latlon, structured in itertools.product(layouts, (False, True), (False,)):
        pos = mk(np.vstack([np.round(rng.uniform(-60, 60, n)), np.round(rng.uniform(-100, 100, n))]), lay)

        def call(pos=pos, latlon=latlon):
            return {"ret0": gs.standard_bins(pos, dim=2, latlon=latlon)}
        c = Case("standard_bins", "standardBins", {"latlon": latlon}, {"pos": pos}, call, targets={"pos": (2, n)})
        c.layouts = {"pos": lay}
        out.append(c)
    return out


def cases_fit(rng, layouts, full):
    gs = _gs()
    out = []
    x = np.arange(1.0, 9.0)
    for lay, w, directional, latlon in itertools.product(layouts, (None, "arr"), (False, True), (False, True)):
        if directional and latlon:
            continue
        if not full and rng.rand() < 0.5:
            continue
        model = gs.Exponential(dim=2, latlon=latlon, geo_scale=gs.KM_SCALE if latlon else 1.0)
        xs = x * (300.0 if latlon else 1.0)
        y1 = np.round(2.0 * (1 - np.exp(-xs / xs[3])) * 16) / 16
        y = np.vstack([y1, y1 * 0.75]) if directional else y1
        xd, yd = mk(xs, lay), mk(y, lay)
        roles = {"xData": xd, "yData": yd}
        kw = {}
        if w:
            wd = mk(np.arange(1.0, 9.0), lay)
            if not isinstance(wd, np.ndarray):
                continue   # weights.size is read (documented: array)
            roles["weights"] = wd
            kw["weights"] = wd

        def call(model=model, xd=xd, yd=yd, kw=kw):
            r = model.fit_variogram(xd, yd, **kw)
            return {"ret0": r[1]}
        c = Case("CovModel.fit_variogram", "fitVariogram", {"directional": directional, "latlon": latlon, "weightsArr": bool(w)},
                 roles, call)
        c.layouts = {"all": lay}
        out.append(c)
    return out


def pure_functions(full):
    """(name, callable(array) -> array, sample values)"""
    gs = _gs()
    from gstools.tools import geometric as geo, special
    from gstools.transform import array as ta
    r = [0.0, 0.5, 1.0, 2.0, 3.5, 0.0]
    fns = []
    models = [gs.Gaussian, gs.Exponential, gs.Matern, gs.Stable, gs.Spherical, gs.Circular, gs.HyperSpherical, gs.SuperSpherical,
              gs.JBessel, gs.TPLGaussian, gs.TPLExponential, gs.TPLStable, gs.TPLSimple, gs.Cubic, gs.Linear, gs.Rational, gs.Integral]
    if not full:
        models = [gs.Matern, gs.Circular, gs.HyperSpherical, gs.JBessel, gs.TPLStable]
    for cls in models:
        m = cls(dim=2, var=2.0, len_scale=2.0, nugget=0.5)
        for meth in ("variogram", "covariance", "correlation", "cor", "vario_nugget", "cov_nugget", "spectral_density", "spectrum",
                     "spectral_rad_pdf", "ln_spectral_rad_pdf"):
            if hasattr(m, meth):
                fns.append((f"{cls.__name__}.{meth}", getattr(m, meth), r))
        fns.append((f"{cls.__name__}.vario_spatial", m.vario_spatial, [[0.0, 1.0, 2.0], [0.0, 0.5, 3.0]]))
        fns.append((f"{cls.__name__}.isometrize", m.isometrize, [[0.0, 1.0, 2.0], [0.0, 0.5, 3.0]]))
        fns.append((f"{cls.__name__}.anisometrize", m.anisometrize, [[0.0, 1.0, 2.0], [0.0, 0.5, 3.0]]))
    ll = gs.Exponential(latlon=True, geo_scale=gs.KM_SCALE, len_scale=500.0)
    fns.append(("latlon.isometrize", ll.isometrize, [[10.0, 20.0, -30.0], [5.0, 100.0, -170.0]]))
    fns.append(("latlon.vario_yadrenko", ll.vario_yadrenko, [0.0, 0.5, 1.0]))
    fns.append(("geometric.ang2dir", lambda a: geo.ang2dir(a, dim=3), [[0.0, 0.5], [1.0, 0.25]]))
    fns.append(("geometric.latlon2pos", geo.latlon2pos, [[10.0, 20.0, -30.0], [5.0, 100.0, -170.0]]))
    fns.append(("geometric.pos2latlon", geo.pos2latlon, [[1.0, 0.0, 0.5], [0.0, 1.0, 0.5], [0.0, 0.0, 0.5]]))
    fns.append(("geometric.chordal_to_great_circle", geo.chordal_to_great_circle, [0.0, 0.5, 1.5]))
    fns.append(("geometric.great_circle_to_chordal", geo.great_circle_to_chordal, [0.0, 0.5, 1.5]))
    fns.append(("geometric.generate_grid", lambda a: geo.generate_grid([a, a]), [0.0, 1.0, 2.0]))
    fns.append(("geometric.rotated_main_axes", lambda a: geo.rotated_main_axes(3, a), [0.25, 0.5, 1.0]))
    fns.append(("special.inc_gamma", lambda a: special.inc_gamma(1.5, a), r))
    fns.append(("special.inc_gamma_low", lambda a: special.inc_gamma_low(1.5, a), r))
    fns.append(("special.exp_int", lambda a: special.exp_int(1.5, a), r))
    fns.append(("special.inc_beta", lambda a: special.inc_beta(1.5, 2.0, a), [0.0, 0.25, 0.5, 1.0]))
    fns.append(("special.tplstable_cor", lambda a: special.tplstable_cor(a, 2.0, 0.5, 1.5), r))
    fns.append(("special.tpl_exp_spec_dens", lambda a: special.tpl_exp_spec_dens(a, 2, 2.0, 0.5), r))
    fns.append(("special.tpl_gau_spec_dens", lambda a: special.tpl_gau_spec_dens(a, 2, 2.0, 0.5), r))
    fns.append(("array.array_discrete", lambda a: ta.array_discrete(a, [0.0, 1.0, 2.0]), r))
    fns.append(("array.array_discrete(thresholds)", lambda a: ta.array_discrete(a, [0.0, 1.0, 2.0], thresholds=[0.5, 1.5]), r))
    fns.append(("array.array_boxcox", lambda a: ta.array_boxcox(a, 0.5, 1.0), r))
    fns.append(("array.array_zinnharvey", lambda a: ta.array_zinnharvey(a, "high", 1.0, 2.0), r))
    fns.append(("array.array_force_moments", ta.array_force_moments, r))
    fns.append(("array.array_to_lognormal", ta.array_to_lognormal, r))
    fns.append(("array.array_to_uniform", lambda a: ta.array_to_uniform(a, 1.0, 2.0), r))
    fns.append(("array.array_to_arcsin", lambda a: ta.array_to_arcsin(a, 1.0, 2.0), r))
    fns.append(("array.array_to_uquad", lambda a: ta.array_to_uquad(a, 1.0, 2.0), r))
    gen = gs.field.generator.RandMeth(gs.Gaussian(dim=2), mode_no=8, seed=1)
    fns.append(("RandMeth.__call__", gen, [[0.0, 1.0, 2.0], [0.0, 0.5, 3.0]]))
    fou = gs.field.generator.Fourier(gs.Gaussian(dim=2), period=[8.0, 8.0], mode_no=[4, 4], seed=1)
    fns.append(("Fourier.__call__", fou, [[0.0, 1.0, 2.0], [0.0, 0.5, 3.0]]))
    inc = gs.field.generator.IncomprRandMeth(gs.Gaussian(dim=2), mode_no=8, seed=1)
    fns.append(("IncomprRandMeth.__call__", inc, [[0.0, 1.0, 2.0], [0.0, 0.5, 3.0]]))
    return fns


def cases_pure(rng, layouts, full):
    out = []
    for name, fn, vals in pure_functions(full):
        for lay in layouts:
            if lay == "list" and ("tplstable_cor" in name or name.endswith(".cor")):
                continue   # low-level formulas applied to the raw argument: need an ndarray
            data = mk(vals, lay)

            def call(fn=fn, data=data):
                r = fn(data)
                return {"ret0": r} if isinstance(r, np.ndarray) else {}
            c = Case(name, "pureFn", {}, {"data": data}, call, key=name)
            c.layouts = {"data": lay}
            out.append(c)
    return out


def all_cases(rng, layouts, full):
    opts = norm_options(full)
    cs = []
    cs += cases_mean_norm_trend(rng, layouts, opts)
    cs += cases_normalizer(rng, layouts, full)
    cs += cases_field_call(rng, layouts, opts, full)
    cs += cases_srf_call(rng, layouts, opts, full)
    cs += cases_transform(rng, layouts, opts, full)
    cs += cases_krige(rng, layouts, opts, full)
    cs += cases_condsrf(rng, layouts, opts, full)
    cs += cases_vario(rng, layouts, opts, full)
    cs += cases_fit(rng, layouts, full)
    cs += cases_pure(rng, layouts, full)
    return cs
