"""C06 — kriging interpolates exactly; its variance is non-negative and bounded."""
import warnings
import numpy as np
import krige_cases as kc
from props import C05

KERNEL_FILES = ["krige/krigesum.pyx"]
ASSUMPTIONS = C05.ASSUMPTIONS + ["exactness is a theorem given M*K=1; numerically it is explored on well-conditioned systems only"]


def correspondence(ctx):
    r = C05.correspondence(ctx, on_data=True)
    r["rule"] = ("as C05, with the targets placed on conditioning points (right-hand side = matrix column) and the histories run in the "
                 "zero-measurement-error modes (exact / zero error / nugget-free): " + r["rule"])
    return r


def search(ctx, deep=False):
    with warnings.catch_warnings():   # out-of-range / dimension warnings of generated inputs are expected
        warnings.simplefilter("ignore")
        return _search(ctx, deep)


def _search(ctx, deep=False):
    import gstools as gs
    rng = np.random.RandomState(ctx.seed + 66)
    N = ctx.scale(120, 800) * (3 if deep else 1)
    viol, ev = C05.probe_d16(), 1
    tags = {}
    for t in range(N):
        cfg = kc.gen_config(rng, latlon_ok=True, strat=t)
        # force zero measurement error: exact mode, or explicit zero error, or nugget-free model
        mode = str(rng.choice(["exact", "zero-err", "no-nugget"]))
        cfg2 = C05.zero_cfg(cfg, mode)
        model = kc.make_hist_model(cfg2, mode)
        cv = cfg2["cond_val"]
        cdesc = kc.describe(cfg2)
        cdesc.update(mode=mode, model=repr(model))
        cap = []
        try:
            with warnings.catch_warnings():
                warnings.simplefilter("ignore")
                kr = kc.build(cfg2, model=model)
                kw = {"ext_drift": cfg2["ext"][0]} if cfg2["ext"] else {}
                f, v = kr(cfg2["cond_pos"], **kw)
                fr, vr = kr(cfg2["cond_pos"], post_process=False, **kw)
                # numerical non-singularity guard: condition number of the assembled system
                kc.build(cfg2, capture=cap, model=kc.make_hist_model(cfg2, mode))
            cond = np.linalg.cond(cap[-1])
        except Exception as e:
            continue
        if cond > 1e8:
            continue
        ev += 1
        mtag = kc.mnt_tag(cfg2)
        tags[mtag] = tags.get(mtag, 0) + 1
        # through mean / normalizer / trend: the post-processed field returns the data themselves ...
        if not C05.close_nan(f, cv, C05.data_tol(cfg2, cond)):
            viol.append({"key": f"krige:exactness:{cfg2['variant']}:{mode}", "what": "kriged field at conditioning points differs from the data (" + mtag + ")",
                         "case": cdesc, "got": np.asarray(f).tolist(), "want": np.asarray(cv).tolist(), "cond": cond})
        # ... and the raw field returns the independently prepared data normalize(cond_val - trend) - mean
        z = kc.prepared_data(cfg2)
        if not C05.close_nan(fr, z, 1e-7 * (1 + np.abs(z).max()) * max(1.0, cond / 1e3)):
            viol.append({"key": f"krige:exactness-raw:{cfg2['variant']}:{mode}", "what": "raw kriged field at conditioning points differs from "
                         "normalize(cond_val - trend) - mean (" + mtag + ")",
                         "case": cdesc, "got": np.asarray(fr).tolist(), "want": np.asarray(z).tolist(), "cond": cond})
        # zero measurement error on a model WITH nugget: the datum is honoured, the variance is the nugget
        v_expected = model.nugget if mode == "zero-err" else 0.0
        if not (np.all(np.abs(v - v_expected) <= 1e-7 * model.sill * max(1.0, cond / 1e3)) and np.array_equal(v, vr)):
            viol.append({"key": f"krige:zero-variance:{cfg2['variant']}:{mode}", "what": "kriging variance at conditioning points is not zero",
                         "case": cdesc, "got": np.asarray(v).tolist(), "cond": cond})
        # variance bounds at arbitrary targets
        kw = {"ext_drift": cfg2["ext"][1]} if cfg2["ext"] else {}
        with warnings.catch_warnings():
            warnings.simplefilter("ignore")
            _, vv = kr(cfg2["pos"], **kw)
        ev += 1
        if np.any(vv < 0):
            viol.append({"key": "krige:negative-variance", "what": "negative kriging variance", "case": cdesc, "got": vv.tolist()})
        if not kc.is_unbiased(cfg2) and not kc.drift_callables(cfg2) and cfg2["ext"] is None and np.any(vv > model.sill * (1 + 1e-9)):
            viol.append({"key": "krige:variance-above-sill", "what": "simple kriging variance exceeds the sill", "case": cdesc, "got": vv.tolist()})
    # objects with a history (model edits, re-assignments, set_condition forms): exactness for the CURRENT data
    hv, hev, hsum = C05.search_histories(ctx, rng, deep, zero=True)
    viol += hv
    ev += hev
    # coincident conditioning points with the pseudo inverse act as one point carrying the mean value — any number of
    # locations, ANY multiplicities (theorem C06.duplicates_pinv_simple).  The hypothesis of that theorem, `IsMPInv K M`,
    # is replayed on what scipy actually returns: the four Penrose equations on the captured (K, M) within 1e-9.
    from gstools.krige.base import P_INV
    for t in range(ctx.scale(30, 200)):
        dim = int(rng.randint(1, 4))
        m = int(rng.randint(1, 6))
        cp = rng.uniform(0, 8, size=(dim, m))
        model = kc.make_model(rng, dim, nugget=0.0, names=["Gaussian", "Exponential", "Spherical"])
        mult = rng.randint(1, 4, size=m)
        mult[int(rng.randint(m))] += 1            # at least one genuinely duplicated location
        pi = np.repeat(np.arange(m), mult)
        rng.shuffle(pi)                            # coincident points need not be adjacent
        cp2 = cp[:, pi]
        cv2 = rng.randn(len(pi))
        cvm = np.array([cv2[pi == a].mean() for a in range(m)])
        tp = rng.uniform(0, 8, size=(dim, 5))
        ptype = str(rng.choice(["pinv", "pinvh"]))
        cap = []

        def pinv_cap(mat, _f=P_INV[ptype]):
            inv = _f(mat)
            cap.append((np.array(mat, copy=True), np.array(inv, copy=True)))
            return inv
        with warnings.catch_warnings():
            warnings.simplefilter("ignore")
            a = gs.krige.Simple(model, cp2, cv2, pseudo_inv=True, pseudo_inv_type=pinv_cap)(tp)
            a0 = gs.krige.Simple(model, cp2, cv2, pseudo_inv=True, pseudo_inv_type=ptype)(tp)
            b = gs.krige.Simple(model, cp, cvm, pseudo_inv=True)(tp)
            kmerged = model.covariance(np.sqrt(((model.isometrize(cp)[:, :, None] - model.isometrize(cp)[:, None, :]) ** 2).sum(0)))
        if np.linalg.cond(kmerged) > 1e6:         # ill-conditioned merged system: discarded, never compared loosely
            continue
        ev += 1
        case = dict(cond_pos=cp2.tolist(), cond_val=cv2.tolist(), pos=tp.tolist(), model=repr(model), multiplicities=mult.tolist(),
                    pseudo_inv_type=ptype)
        K, M = cap[-1]
        nK, nM = np.abs(K).max(), np.abs(M).max()
        pen = [np.abs(K @ M @ K - K).max() / nK, np.abs(M @ K @ M - M).max() / nM,
               np.abs((K @ M).T - K @ M).max(), np.abs((M @ K).T - M @ K).max()]
        if not max(pen) <= 1e-9:
            viol.append({"key": "krige:pinv-penrose:" + ptype, "what": "scipy's pseudo-inverse of a duplicated simple-kriging matrix violates the "
                         "Penrose equations (hypothesis IsMPInv of C06.duplicates_pinv_simple) beyond 1e-9", "case": case, "got": pen})
        if not (np.array_equal(a[0], a0[0]) and np.array_equal(a[1], a0[1])):
            viol.append({"key": "krige:pinv-capture", "what": "callable pseudo_inv_type changes the result", "case": case})
        if not (np.allclose(a[0], b[0], atol=1e-6 * (1 + np.abs(cv2).max())) and np.allclose(a[1], b[1], atol=1e-6)):
            viol.append({"key": "krige:duplicates-pinv", "what": "coincident conditioning points do not act as one point with the mean value",
                         "case": case, "got": [a[0].tolist(), a[1].tolist()], "want": [b[0].tolist(), b[1].tolist()]})
    return {"evaluations": ev, "violations": viol[:8],
            "summary": "real Krige variants (+ generic class): data reproduced through mean/normalizer/trend (6 non-identity normalizers x constant/callable "
                       f"mean x trend: {len(tags)} combinations) and zero variance at conditioning points (exact mode / zero error / no nugget), raw field = "
                       "independently prepared data, 0 <= var (<= sill for simple), coincident points (1-5 locations, multiplicities 1-4) with pinv/pinvh = merged points "
                       "with mean values + Penrose equations of the captured pseudo-inverse; " + hsum}
