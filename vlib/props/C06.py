"""C06 — kriging interpolates exactly; its variance is non-negative and bounded."""
import warnings
import numpy as np
import krige_cases as kc
from props import C05

KERNEL_FILES = ["krige/krigesum.pyx"]
ASSUMPTIONS = C05.ASSUMPTIONS + ["exactness is a theorem given M*K=1; numerically it is explored on well-conditioned systems only"]


def correspondence(ctx):
    r = C05.correspondence(ctx, on_data=True)
    r["rule"] = "as C05, with the targets placed on conditioning points (right-hand side = matrix column): " + r["rule"]
    return r


def search(ctx, deep=False):
    import gstools as gs
    rng = np.random.RandomState(ctx.seed + 66)
    N = ctx.scale(60, 500) * (3 if deep else 1)
    viol, ev = C05.probe_d16(), 1
    for t in range(N):
        cfg = kc.gen_config(rng, latlon_ok=True)
        zero_err = cfg["exact"] or (isinstance(cfg["cond_err"], float) and cfg["cond_err"] == 0.0)
        mr = np.random.RandomState(cfg["model_seed"])
        # force zero measurement error: exact mode, or explicit zero error, or nugget-free model
        mode = str(rng.choice(["exact", "zero-err", "no-nugget"]))
        model = kc.make_model(mr, cfg["dim"], cfg["latlon"], cfg["temporal"], nugget=0.0 if mode == "no-nugget" else None)
        cfg2 = dict(cfg)
        if mode == "exact":
            cfg2.update(exact=True, cond_err="nugget")
        elif mode == "zero-err":
            cfg2.update(exact=False, cond_err=0.0)
        else:
            cfg2.update(exact=False, cond_err="nugget")
        norm = rng.choice(["none", "LogNormal", "YeoJohnson"]) if cfg["variant"] != "Detrended" else "none"
        cdesc = {k: (v.tolist() if isinstance(v, np.ndarray) else v) for k, v in cfg2.items() if k != "ext"}
        cdesc.update(mode=mode, model=repr(model), normalizer=str(norm))
        try:
            with warnings.catch_warnings():
                warnings.simplefilter("ignore")
                kr = kc.build(cfg2, model=model)
                if norm != "none":
                    cv = np.abs(cfg2["cond_val"]) + 0.5 if norm == "LogNormal" else cfg2["cond_val"]
                    kr.normalizer = getattr(gs.normalizer, norm)()
                    kr.set_condition(cond_val=cv)
                else:
                    cv = cfg2["cond_val"]
                kw = {"ext_drift": cfg2["ext"][0]} if cfg2["ext"] else {}
                f, v = kr(cfg2["cond_pos"], **kw)
                K = None
        except Exception as e:
            continue
        # numerical non-singularity guard: condition number of the assembled system
        try:
            cap = []
            with warnings.catch_warnings():
                warnings.simplefilter("ignore")
                kc.build(cfg2, capture=cap, model=model)
            cond = np.linalg.cond(cap[-1])
        except Exception:
            continue
        if cond > 1e8:
            continue
        ev += 1
        scale = 1 + np.abs(cv).max()
        tol = 1e-7 * scale * max(1.0, cond / 1e3)
        if not np.allclose(f, cv, atol=tol):
            viol.append({"key": f"krige:exactness:{cfg2['variant']}:{mode}", "what": "kriged field at conditioning points differs from the data",
                         "case": cdesc, "got": np.asarray(f).tolist(), "want": np.asarray(cv).tolist(), "cond": cond})
        # zero measurement error on a model WITH nugget: the datum is honoured, the variance is the nugget
        v_expected = model.nugget if mode == "zero-err" else 0.0
        if not np.all(np.abs(v - v_expected) <= 1e-7 * model.sill * max(1.0, cond / 1e3)):
            viol.append({"key": f"krige:zero-variance:{cfg2['variant']}:{mode}", "what": "kriging variance at conditioning points is not zero",
                         "case": cdesc, "got": np.asarray(v).tolist(), "cond": cond})
        # variance bounds at arbitrary targets
        kw = {"ext_drift": cfg2["ext"][1]} if cfg2["ext"] else {}
        with warnings.catch_warnings():
            warnings.simplefilter("ignore")
            _, vv = kr(cfg2["pos"], **kw)
        ev += 1
        if np.any(vv < 0):
            viol.append({"key": "krige:negative-variance", "what": "negative kriging variance", "case": cdesc, "got": vv.tolist()})
        if cfg2["variant"] == "Simple" and np.any(vv > model.sill * (1 + 1e-9)):
            viol.append({"key": "krige:variance-above-sill", "what": "simple kriging variance exceeds the sill", "case": cdesc, "got": vv.tolist()})
    # duplicated conditioning points with the pseudo inverse act as one point carrying the mean value
    for t in range(ctx.scale(15, 100)):
        dim = int(rng.randint(1, 4))
        n = int(rng.randint(2, 6))
        cp = rng.uniform(0, 8, size=(dim, n))
        cv = rng.randn(n)
        model = kc.make_model(rng, dim, nugget=0.0, names=["Gaussian", "Exponential", "Spherical"])
        dup = int(rng.randint(0, n))
        cp2 = np.hstack([cp, cp[:, [dup]]])
        extra = float(rng.randn())
        cv2 = np.append(cv, extra)
        cvm = cv.copy()
        cvm[dup] = 0.5 * (cv[dup] + extra)
        tp = rng.uniform(0, 8, size=(dim, 5))
        with warnings.catch_warnings():
            warnings.simplefilter("ignore")
            a = gs.krige.Simple(model, cp2, cv2, pseudo_inv=True)(tp)
            b = gs.krige.Simple(model, cp, cvm, pseudo_inv=True)(tp)
        ev += 1
        if not (np.allclose(a[0], b[0], atol=1e-6 * (1 + np.abs(cv).max())) and np.allclose(a[1], b[1], atol=1e-6)):
            viol.append({"key": "krige:duplicates-pinv", "what": "coincident conditioning points do not act as one point with the mean value",
                         "case": dict(cond_pos=cp2.tolist(), cond_val=cv2.tolist(), pos=tp.tolist(), model=repr(model)),
                         "got": [a[0].tolist(), a[1].tolist()], "want": [b[0].tolist(), b[1].tolist()]})
    return {"evaluations": ev, "violations": viol[:8],
            "summary": "real Krige variants: data reproduced and zero variance at conditioning points (exact mode / zero error / no nugget; with normalizers), 0 <= var (<= sill for simple), duplicated points with pinv"}
