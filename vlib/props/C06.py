"""C06 — kriging interpolates exactly; its variance is non-negative and bounded."""
import warnings
import numpy as np
import krige_cases as kc
from props import C05

KERNEL_FILES = ["krige/krigesum.pyx"]
ASSUMPTIONS = C05.ASSUMPTIONS + ["exactness is a theorem given M*K=1; numerically it is explored on well-conditioned systems only"]


def correspondence(ctx):
    r = C05.correspondence(ctx, on_data=True)
    r["rule"] = ("as C05, with the targets placed on conditioning points (right-hand side = matrix column) and the histories run in the "
                 "zero-measurement-error modes (exact / zero error / nugget-free): " + r["rule"])
    return r


def search(ctx, deep=False):
    with warnings.catch_warnings():   # out-of-range / dimension warnings of generated inputs are expected
        warnings.simplefilter("ignore")
        return _search(ctx, deep)


def _search(ctx, deep=False):
    import gstools as gs
    rng = np.random.RandomState(ctx.seed + 66)
    N = ctx.scale(120, 800) * (3 if deep else 1)
    viol, ev = C05.probe_d16(), 1
    tags, ctags = {}, {}
    for t in range(N):
        cfg = kc.gen_config(rng, latlon_ok=True, strat=t)
        # force zero measurement error: exact mode, or explicit zero error, or nugget-free model
        mode = str(rng.choice(["exact", "zero-err", "no-nugget"]))
        cfg2 = C05.zero_cfg(cfg, mode)
        model = kc.make_hist_model(cfg2, mode)
        cv = cfg2["cond_val"]
        cdesc = kc.describe(cfg2)
        cdesc.update(mode=mode, model=repr(model))
        cap = []
        try:
            with warnings.catch_warnings():
                warnings.simplefilter("ignore")
                kr = kc.build(cfg2, model=model)
                kw = {"ext_drift": cfg2["ext"][0]} if cfg2["ext"] else {}
                f, v = kr(cfg2["cond_pos"], **kw)
                fr, vr = kr(cfg2["cond_pos"], post_process=False, **kw)
                # numerical non-singularity guard: condition number of the assembled system
                kc.build(cfg2, capture=cap, model=kc.make_hist_model(cfg2, mode))
            cond = np.linalg.cond(cap[-1])
        except Exception as e:
            continue
        if cond > 1e8:
            continue
        ev += 1
        mtag = kc.mnt_tag(cfg2)
        tags[mtag] = tags.get(mtag, 0) + 1
        # repeated stations: a datum is honoured exactly where NO other conditioning point lies inside the isclose band of
        # lag 0 (theorem C06.rhs_is_column_exact: there the right-hand side is the matrix column); points of a coincident group
        # carry contradictory data — there (and everywhere) the result is the direct solution of the system
        co = kc.coincidence(cfg2, model)
        iso = co["isolated"]
        ctags[kc.coin_tag(cfg2, model)] = ctags.get(kc.coin_tag(cfg2, model), 0) + 1
        if not iso.all():
            ref = kc.solve_direct(cfg2, model, cfg2["cond_pos"], ext_t=cfg2["ext"][0] if cfg2["ext"] else None)
            if ref["cond"] <= 1e7 and np.all(np.isfinite(ref["z"])):
                tol = 1e-9 * max(ref["cond"], 1) * (1 + np.abs(ref["raw"]).max())
                ev += 1
                if not (C05.close_nan(fr, ref["raw"], tol) and np.allclose(vr, ref["var"], atol=tol)):
                    viol.append({"key": f"krige:coincident:direct-solve:{cfg2['variant']}:{mode}", "what": "kriging at (nearly) coincident conditioning "
                                 "points differs from solving the kriging system directly (plain covariance off the diagonal, error / nugget "
                                 "on the diagonal only)", "case": cdesc, "got": [np.asarray(fr).tolist(), np.asarray(vr).tolist()],
                                 "want": [ref["raw"].tolist(), ref["var"].tolist()], "cond": ref["cond"]})
        var_same = np.array_equal(v, vr)          # (the variance does not depend on post-processing: all points)
        f, fr, v, cv = f[iso], fr[iso], v[iso], cv[iso]
        # through mean / normalizer / trend: the post-processed field returns the data themselves ...
        if not C05.close_nan(f, cv, C05.data_tol(cfg2, cond, np.nonzero(iso)[0])):
            viol.append({"key": f"krige:exactness:{cfg2['variant']}:{mode}", "what": "kriged field at conditioning points differs from the data (" + mtag + ")",
                         "case": cdesc, "isolated_points": np.nonzero(iso)[0].tolist(), "got": np.asarray(f).tolist(), "want": np.asarray(cv).tolist(), "cond": cond})
        # ... and the raw field returns the independently prepared data normalize(cond_val - trend) - mean
        z = kc.prepared_data(cfg2)[iso]
        if not C05.close_nan(fr, z, 1e-7 * (1 + np.abs(z).max(initial=0.0)) * max(1.0, cond / 1e3)):
            viol.append({"key": f"krige:exactness-raw:{cfg2['variant']}:{mode}", "what": "raw kriged field at conditioning points differs from "
                         "normalize(cond_val - trend) - mean (" + mtag + ")",
                         "case": cdesc, "got": np.asarray(fr).tolist(), "want": np.asarray(z).tolist(), "cond": cond})
        # zero measurement error on a model WITH nugget: the datum is honoured, the variance is the nugget
        v_expected = model.nugget if mode == "zero-err" else 0.0
        sill = float(model.var) + float(model.nugget)          # the sill of the REPORTED variance (not read from model.sill)
        if not (np.all(np.abs(v - v_expected) <= 1e-7 * sill * max(1.0, cond / 1e3)) and var_same):
            viol.append({"key": f"krige:zero-variance:{cfg2['variant']}:{mode}", "what": "kriging variance at conditioning points is not zero",
                         "case": cdesc, "got": np.asarray(v).tolist(), "cond": cond})
        # variance bounds at arbitrary targets
        kw = {"ext_drift": cfg2["ext"][1]} if cfg2["ext"] else {}
        with warnings.catch_warnings():
            warnings.simplefilter("ignore")
            _, vv = kr(cfg2["pos"], **kw)
        ev += 1
        if np.any(vv < 0):
            viol.append({"key": "krige:negative-variance", "what": "negative kriging variance", "case": cdesc, "got": vv.tolist()})
        if not kc.is_unbiased(cfg2) and not kc.drift_callables(cfg2) and cfg2["ext"] is None and np.any(vv > sill * (1 + 1e-9)):
            viol.append({"key": "krige:variance-above-sill", "what": "simple kriging variance exceeds the sill", "case": cdesc, "got": vv.tolist()})
    # objects with a history (model edits, re-assignments, set_condition forms): exactness for the CURRENT data
    hv, hev, hsum = C05.search_histories(ctx, rng, deep, zero=True)
    viol += hv
    ev += hev
    # models whose variance differs from their raw intensity (TPL family with var_factor != 1, user-defined var_factor): exactness,
    # zero variance at the data, variance within [0, reported variance + nugget], independent solve with model.covariance
    vev, vv_, vsum = kc.search_var_factor(np.random.RandomState(ctx.seed + 6641), ctx.scale(75, 500) * (2 if deep else 1), zero=True)
    vev2, vv2, _ = kc.search_var_factor(np.random.RandomState(ctx.seed + 6651), ctx.scale(30, 200) * (2 if deep else 1), zero=False)
    viol = vv_[:3] + vv2[:2] + viol
    ev += vev + vev2
    hsum += "; " + vsum
    # coincident conditioning points with the pseudo inverse act as one point carrying the mean value — any number of
    # locations, ANY multiplicities (theorem C06.duplicates_pinv_simple).  The hypothesis of that theorem, `IsMPInv K M`,
    # is replayed on what scipy actually returns: the four Penrose equations on the captured (K, M) within 1e-9.
    from gstools.krige.base import P_INV
    for t in range(ctx.scale(30, 200)):
        dim = int(rng.randint(1, 4))
        m = int(rng.randint(1, 6))
        cp = rng.uniform(0, 8, size=(dim, m))
        model = kc.make_model(rng, dim, nugget=0.0, names=["Gaussian", "Exponential", "Spherical"])
        mult = rng.randint(1, 4, size=m)
        mult[int(rng.randint(m))] += 1            # at least one genuinely duplicated location
        pi = np.repeat(np.arange(m), mult)
        rng.shuffle(pi)                            # coincident points need not be adjacent
        cp2 = cp[:, pi]
        cv2 = rng.randn(len(pi))
        cvm = np.array([cv2[pi == a].mean() for a in range(m)])
        tp = rng.uniform(0, 8, size=(dim, 5))
        ptype = str(rng.choice(["pinv", "pinvh"]))
        cap = []

        def pinv_cap(mat, _f=P_INV[ptype]):
            inv = _f(mat)
            cap.append((np.array(mat, copy=True), np.array(inv, copy=True)))
            return inv
        with warnings.catch_warnings():
            warnings.simplefilter("ignore")
            a = gs.krige.Simple(model, cp2, cv2, pseudo_inv=True, pseudo_inv_type=pinv_cap)(tp)
            a0 = gs.krige.Simple(model, cp2, cv2, pseudo_inv=True, pseudo_inv_type=ptype)(tp)
            b = gs.krige.Simple(model, cp, cvm, pseudo_inv=True)(tp)
            kmerged = model.covariance(np.sqrt(((model.isometrize(cp)[:, :, None] - model.isometrize(cp)[:, None, :]) ** 2).sum(0)))
        if np.linalg.cond(kmerged) > 1e6:         # ill-conditioned merged system: discarded, never compared loosely
            continue
        ev += 1
        case = dict(cond_pos=cp2.tolist(), cond_val=cv2.tolist(), pos=tp.tolist(), model=repr(model), multiplicities=mult.tolist(),
                    pseudo_inv_type=ptype)
        K, M = cap[-1]
        nK, nM = np.abs(K).max(), np.abs(M).max()
        pen = [np.abs(K @ M @ K - K).max() / nK, np.abs(M @ K @ M - M).max() / nM,
               np.abs((K @ M).T - K @ M).max(), np.abs((M @ K).T - M @ K).max()]
        if not max(pen) <= 1e-9:
            viol.append({"key": "krige:pinv-penrose:" + ptype, "what": "scipy's pseudo-inverse of a duplicated simple-kriging matrix violates the "
                         "Penrose equations (hypothesis IsMPInv of C06.duplicates_pinv_simple) beyond 1e-9", "case": case, "got": pen})
        if not (np.array_equal(a[0], a0[0]) and np.array_equal(a[1], a0[1])):
            viol.append({"key": "krige:pinv-capture", "what": "callable pseudo_inv_type changes the result", "case": case})
        if not (np.allclose(a[0], b[0], atol=1e-6 * (1 + np.abs(cv2).max())) and np.allclose(a[1], b[1], atol=1e-6)):
            viol.append({"key": "krige:duplicates-pinv", "what": "coincident conditioning points do not act as one point with the mean value",
                         "case": case, "got": [a[0].tolist(), a[1].tolist()], "want": [b[0].tolist(), b[1].tolist()]})
    # ... and coincident conditioning points WITH measurement errors (regular systems, any variant, pseudo inverse or not) act as
    # ONE measurement: the precision-weighted mean of the repeated values carrying the error 1 / sum(1 / e_i) — estimate AND
    # variance at every target.  (Independent of any solve: two calls of the real API.  Fails when the error term leaks off
    # the diagonal, when errors are attached to the wrong points, or when repeated stations are merged without their errors.)
    merged = {}
    for t in range(ctx.scale(40, 250)):
        cfg = kc.gen_config(rng, latlon_ok=True, mnt=False, groups=False, strat=2 * t + 1)
        cfg["exact"] = False
        nb = cfg["cond_pos"].shape[1]
        mult = rng.randint(1, 4, size=nb)
        mult[int(rng.randint(nb))] += 1
        pi = np.repeat(np.arange(nb), mult)
        rng.shuffle(pi)
        ek = str(rng.choice(["nugget", "scalar", "array"]))
        cfg["nugget"] = float(rng.choice([0.125, 0.5])) if ek == "nugget" or rng.rand() < 0.5 else 0.0
        if ek == "nugget":
            e = np.full(len(pi), cfg["nugget"])
        elif ek == "scalar":
            e = np.full(len(pi), float(rng.choice([0.0625, 0.25])))
        else:
            e = rng.randint(1, 5, len(pi)) / 16.0
        dup = dict(cfg, cond_pos=cfg["cond_pos"][:, pi], cond_err="nugget" if ek == "nugget" else (float(e[0]) if ek == "scalar" else e))
        dup["cond_val"] = kc.gen_values(rng, dup, dup["cond_pos"])
        w = 1.0 / e
        wsum = np.array([w[pi == a].sum() for a in range(nb)])
        one = dict(cfg, cond_val=np.array([(w * dup["cond_val"])[pi == a].sum() for a in range(nb)]) / wsum, cond_err=1.0 / wsum)
        if cfg["ext"] is not None:
            dup["ext"] = (cfg["ext"][0][:, pi], cfg["ext"][1])
        try:
            with warnings.catch_warnings():
                warnings.simplefilter("ignore")
                a = kc.call(kc.build(dup), dup, store=False)
                b = kc.call(kc.build(one), one, store=False)
                mdl = kc.make_model(np.random.RandomState(cfg["model_seed"]), cfg["dim"], cfg["latlon"], cfg["temporal"],
                                    nugget=cfg["nugget"], unit=kc.unit_of(cfg))
                cond = max(kc.solve_direct(dup, mdl, cfg["pos"])["cond"], kc.solve_direct(one, mdl, cfg["pos"])["cond"])
        except Exception as ex:
            merged["rejected:" + type(ex).__name__] = merged.get("rejected:" + type(ex).__name__, 0) + 1
            continue
        if cond > 1e6:
            continue
        ev += 1
        mk = f"{cfg['variant']}/err={ek}/pinv={cfg['pinv']}"
        merged[mk] = merged.get(mk, 0) + 1
        tol = 1e-9 * cond * (1 + np.abs(b[0]).max() + np.abs(dup["cond_val"]).max())
        if not (np.allclose(a[0], b[0], atol=tol) and np.allclose(a[1], b[1], atol=tol)):
            viol.append({"key": f"krige:duplicates-with-errors:{cfg['variant']}:{ek}", "what": "coincident conditioning points with measurement errors "
                         "do not act as one measurement (precision-weighted mean value, error 1/sum(1/e_i)): estimate / variance differ",
                         "case": dict(kc.describe(dup), multiplicities=mult.tolist(), model=repr(mdl)), "got": [a[0].tolist(), a[1].tolist()],
                         "want": [b[0].tolist(), b[1].tolist()], "cond": cond})
    return {"evaluations": ev, "violations": viol[:8], "distribution": {"coincidence": ctags, "merged_with_errors": merged},
            "summary": "real Krige variants (+ generic class): data reproduced through mean/normalizer/trend (6 non-identity normalizers x constant/callable "
                       f"mean x trend: {len(tags)} combinations) and zero variance at conditioning points (exact mode / zero error / no nugget), raw field = "
                       "independently prepared data, 0 <= var (<= sill for simple), coincident points (1-5 locations, multiplicities 1-4) with pinv/pinvh = merged points "
                       "with mean values + Penrose equations of the captured pseudo-inverse; exactness asserted at the conditioning points without another point "
                       "inside the isclose band of lag 0, coincident groups compared with the direct solve "
                       f"({sum(v for k, v in ctags.items() if not k.startswith('coin:distinct'))} layouts with repeated / nearly repeated stations); "
                       f"coincident points WITH errors (nugget / scalar / per-point, all variants, pinv on/off) = one point with the precision-weighted "
                       f"mean and error 1/sum(1/e): {sum(v for k, v in merged.items() if not k.startswith('rejected'))} systems; " + hsum}
