"""C07 — conditioned random fields honour the data and never reuse stale kriging results."""
import warnings
import numpy as np
from proto import run_driver, fbits, unbits

ASSUMPTIONS = ["values (conditions, model, mean, positions) are abstracted to identifiers in the cache model; the tie compares, call by call, "
               "whether the real output equals the output of a freshly built object with the model's prediction",
               "nugget-free models in the history correspondence (nugget noise history is C11's subject)"]

SEED = 20240917


def concrete(rng):
    """concrete values behind the abstract identifiers"""
    dim = int(rng.randint(1, 3))
    n = int(rng.randint(3, 7))
    cp = rng.uniform(0, 10, size=(dim, n))
    base = rng.randn(n)
    conds = [base + 0.75 * k * np.cos(np.arange(n) + k) for k in range(4)]
    lens = [3.0, 4.5, 7.0, 2.0]      # all supports overlap the 10-wide domain: distinct identifiers stay visibly distinct
    means = [0.0, 1.5, -2.0]
    poss = [rng.uniform(0, 10, size=(dim, int(rng.randint(2, 7)))) for _ in range(3)]
    cls = str(rng.choice(["Gaussian", "Exponential", "Spherical"]))
    variant = str(rng.choice(["Simple", "Ordinary"]))
    return dict(dim=dim, cp=cp, conds=conds, lens=lens, means=means, poss=poss, cls=cls, variant=variant)


def build(cv, cond, model_id, mean_id):
    import gstools as gs
    model = getattr(gs, cv["cls"])(dim=cv["dim"], var=1.3, len_scale=cv["lens"][model_id])
    if cv["variant"] == "Simple":
        kr = gs.krige.Simple(model, cv["cp"], cv["conds"][cond], mean=cv["means"][mean_id])
    else:
        kr = gs.krige.Ordinary(model, cv["cp"], cv["conds"][cond], trend=cv["means"][mean_id])
    return gs.CondSRF(kr, seed=SEED, mode_no=64)


def gen_history(rng, length):
    ops = []
    for _ in range(length):
        r = rng.rand()
        if r < 0.40:
            ops.append({"k": "call", "pos": int(rng.randint(0, 3))} if rng.rand() < 0.6 else {"k": "call"})
        elif r < 0.50:
            ops.append({"k": "set_pos", "pos": int(rng.randint(0, 3))})
        elif r < 0.68:
            ops.append({"k": "set_condition", "cond": int(rng.randint(0, 4))} if rng.rand() < 0.6 else {"k": "set_condition"})
        elif r < 0.82:
            ops.append({"k": "model", "v": int(rng.randint(0, 4))})
        elif r < 0.94:
            ops.append({"k": "mean", "v": int(rng.randint(0, 3))})
        else:
            ops.append({"k": "delete"})
    return ops


def run_real(cv, ops, c0, m0, mu0):
    """returns per call: 'ValueError' or (equals_fresh: bool, max abs diff)"""
    crf = build(cv, c0, m0, mu0)
    cond, model_id, mean_id, pos_id = c0, m0, mu0, None
    out = []
    with warnings.catch_warnings():
        warnings.simplefilter("ignore")
        for op in ops:
            k = op["k"]
            if k == "call":
                p = op.get("pos", None)
                try:
                    if p is None:
                        res = crf(seed=SEED)
                    else:
                        res = crf(cv["poss"][p], seed=SEED)
                        pos_id = p
                except ValueError:
                    out.append("ValueError")
                    continue
                fresh = build(cv, cond, model_id, mean_id)(cv["poss"][pos_id], seed=SEED)
                d = float(np.max(np.abs(res - fresh)))
                out.append((bool(d <= 1e-9 * (1 + np.abs(fresh).max())), d))
            elif k == "set_pos":
                crf.set_pos(cv["poss"][op["pos"]])
                pos_id = op["pos"]
            elif k == "set_condition":
                if "cond" in op:
                    cond = op["cond"]
                    crf.krige.set_condition(cond_val=cv["conds"][cond])
                else:
                    crf.krige.set_condition()
            elif k == "model":
                model_id = op["v"]
                crf.model.len_scale = cv["lens"][model_id]
            elif k == "mean":
                mean_id = op["v"]
                if cv["variant"] == "Simple":
                    crf.mean = cv["means"][mean_id]
                else:
                    crf.trend = cv["means"][mean_id]
            elif k == "delete":
                crf.delete_fields()
    return out


def correspondence(ctx):
    rng = np.random.RandomState(ctx.seed + 707)
    H = ctx.scale(40, 300)
    L = ctx.scale(12, 60)
    cases, opsl = [], []
    for h in range(H):
        cv = concrete(rng)
        ops = gen_history(rng, int(rng.randint(3, L + 1)))
        c0, m0, mu0 = int(rng.randint(0, 4)), int(rng.randint(0, 4)), int(rng.randint(0, 3))
        cases.append((cv, ops, c0, m0, mu0))
        opsl.append({"op": "cond_history", "cond": c0, "model": m0, "mean": mu0, "ops": ops})
    # the conditioning formula on Float
    fops = []
    for _ in range(ctx.scale(30, 300)):
        n = int(rng.randint(1, 8))
        var = float(rng.choice([0.5, 1.0, 2.0]))
        nug = float(rng.choice([0.0, 0.0, 0.25, 1.0]))
        kv = np.abs(rng.randn(n)) * (var + nug) * rng.choice([0.0, 0.3, 1.0], size=n)
        fops.append(dict(krige=rng.randn(n), kvar=kv, raw=rng.randn(n), noise=rng.randn(n), var=var, nugget=nug))
    for f in fops:
        opsl.append({"op": "cond_value", "krige": fbits(f["krige"]), "kvar": fbits(f["kvar"]), "raw": fbits(f["raw"]),
                     "noise": fbits(f["noise"]), "var": fbits([f["var"]])[0], "nugget": fbits([f["nugget"]])[0]})
    res = run_driver(opsl)
    dis, distinct, dist = [], set(), {"calls": 0, "reused": 0, "stale_predicted": 0, "ValueError": 0}
    for (cv, ops, c0, m0, mu0), r in zip(cases, res[:H]):
        real = run_real(cv, ops, c0, m0, mu0)
        if isinstance(r, dict) and "error" in r:
            dis.append({"what": "driver error " + r["error"]})
            continue
        if len(real) != len(r):
            dis.append({"what": "number of calls differs", "ops": ops})
            continue
        for i, (a, b) in enumerate(zip(real, r)):
            dist["calls"] += 1
            if a == "ValueError" or b == "ValueError":
                dist["ValueError"] += 1
                ok = a == b
            else:
                dist["reused"] += int(b["reused"])
                dist["stale_predicted"] += int(not b["eq_fresh"])
                ok = a[0] == b["eq_fresh"]
                if not ok and a[0] and not b["eq_fresh"]:
                    # the model predicts a (documented) stale reuse, the real output nevertheless equals the fresh object's: the
                    # abstract identifiers were not distinguishable on these concrete values (e.g. all targets out of range of a
                    # compact-support model) or the code recomputed more than the model assumes — the property is not at stake
                    dist["benign_equal_where_stale_predicted"] = dist.get("benign_equal_where_stale_predicted", 0) + 1
                    ok = True
            if not ok:
                dis.append({"what": "CondSRF call: real output vs fresh object does not match the cache model's prediction",
                            "call_index": i, "real": a, "model": b, "ops": ops, "init": [c0, m0, mu0],
                            "variant": cv["variant"], "cls": cv["cls"]})
                break
        distinct.add(tuple(o["k"] for o in ops))
    # formula: compare with the real get_scaling path (the generator's nugget noise is prescribed)
    import gstools as gs
    for f, r in zip(fops, res[H:]):
        model = gs.Gaussian(dim=1, var=f["var"], nugget=f["nugget"])
        kr = gs.krige.Simple(model, [[0.0, 1.0]], [0.0, 1.0])
        crf = gs.CondSRF(kr, seed=1)

        class G:
            def get_nugget(self, shape, _n=f["noise"]):
                return _n
        crf._generator = G()
        vs, ng = crf.get_scaling(f["kvar"], f["kvar"].shape)
        real = f["krige"] + vs * f["raw"] + ng
        lean = unbits(r)
        dist["formula"] = dist.get("formula", 0) + 1
        if not np.allclose(lean, real, rtol=1e-13, atol=1e-13):
            dis.append({"what": "conditioning formula: model differs from get_scaling",
                        "case": {k: (v.tolist() if hasattr(v, "tolist") else v) for k, v in f.items()},
                        "real": np.asarray(real).tolist(), "lean": lean.tolist()})
    return {"evaluations": dist["calls"] + len(fops), "distinct_nontrivial": len(distinct),
            "rule": "random histories (calls with/without positions, set_pos, set_condition with new data / refresh, in-place model change, "
                    "mean/trend re-assignment, delete_fields) on real CondSRF objects; per call: real output == output of a freshly built "
                    "object  <=>  the cache model's token equals the fresh token; plus the conditioning formula vs get_scaling; "
                    "distinct = distinct operation-kind sequences",
            "samples": [c[1] for c in cases[:3]], "disagreements": dis[:6], "distribution": dist}


def protocol_history(rng, length):
    """histories the property guarantees: every model / mean change is followed by the documented refresh"""
    ops = []
    for o in gen_history(rng, length):
        ops.append(o)
        if o["k"] in ("model", "mean"):
            ops.append({"k": "set_condition"})
    return ops


def history_search(ctx, n):
    """the property itself on the real object: each call of a protocol-respecting history equals a fresh object"""
    rng = np.random.RandomState(ctx.seed + 777)
    viol, ev = [], 0
    for h in range(n):
        cv = concrete(rng)
        ops = protocol_history(rng, int(rng.randint(3, 14)))
        c0, m0, mu0 = int(rng.randint(0, 4)), int(rng.randint(0, 4)), int(rng.randint(0, 3))
        real = run_real(cv, ops, c0, m0, mu0)
        ev += len(real)
        for i, a in enumerate(real):
            if a != "ValueError" and not a[0]:
                # shrink: drop operations while the failure persists
                cur = list(ops)
                changed = True
                while changed:
                    changed = False
                    for j in range(len(cur)):
                        cand = cur[:j] + cur[j + 1:]
                        rr = run_real(cv, cand, c0, m0, mu0)
                        if any(x != "ValueError" and not x[0] for x in rr):
                            cur, changed = cand, True
                            break
                kinds = "-".join(o["k"] for o in cur)
                viol.append({"key": "condsrf:stale-kriging:" + kinds, "what": "a call returns a field different from a freshly built object (stale kriging result reused)",
                             "case": {"history": cur, "init": [c0, m0, mu0], "variant": cv["variant"], "class": cv["cls"], "max_abs_diff": a[1],
                                      "cond_pos": cv["cp"].tolist(), "conds": [c.tolist() for c in cv["conds"]], "len_scales": cv["lens"], "means": cv["means"],
                                      "positions": [p.tolist() for p in cv["poss"]], "seed": SEED}})
                break
        if len(viol) >= 3:
            break
    return ev, viol


def search(ctx, deep=False):
    import gstools as gs
    rng = np.random.RandomState(ctx.seed + 77)
    N = ctx.scale(25, 200) * (3 if deep else 1)
    ev, viol = history_search(ctx, ctx.scale(30, 300) * (3 if deep else 1))
    with warnings.catch_warnings():
        warnings.simplefilter("ignore")
        for t in range(N):
            dim = int(rng.randint(1, 4))
            n = int(rng.randint(2, 7))
            grid = np.array(np.meshgrid(*([np.arange(4)] * dim), indexing="ij")).reshape(dim, -1)
            idx = rng.choice(grid.shape[1], size=min(n, grid.shape[1]), replace=False)
            cp = grid[:, idx] * 2.0 + rng.uniform(-0.3, 0.3, size=(dim, len(idx)))
            cv = rng.randn(len(idx))
            cls = str(rng.choice(["Gaussian", "Exponential", "Spherical", "Matern"]))
            nug = float(rng.choice([0.0, 0.0, 0.1]))
            model = getattr(gs, cls)(dim=dim, var=float(rng.choice([0.5, 2.0])), len_scale=float(rng.choice([1.0, 3.0])), nugget=nug)
            variant = str(rng.choice(["Simple", "Ordinary", "Universal"]))
            exact = nug > 0
            if variant == "Simple":
                kr = gs.krige.Simple(model, cp, cv, mean=0.5, exact=exact)
            elif variant == "Ordinary":
                kr = gs.krige.Ordinary(model, cp, cv, exact=exact)
            else:
                kr = gs.krige.Universal(model, cp, cv, drift_functions=0, exact=exact)
            crf = gs.CondSRF(kr, mode_no=64)
            desc = dict(dim=dim, cond_pos=cp.tolist(), cond_val=cv.tolist(), model=repr(model), variant=variant)
            far = cp.max() + 200.0 * model.len_scale
            pos = np.hstack([cp, rng.uniform(-1, 8, size=(dim, 4)), np.full((dim, 1), far)])
            for seed in rng.randint(0, 10**6, size=3):
                f = crf(pos, seed=int(seed))
                ev += 1
                tol = 1e-6 * (1 + np.abs(cv).max())
                if not np.allclose(f[: cp.shape[1]], cv, atol=tol):
                    viol.append({"key": f"condsrf:data-not-honoured:{variant}", "what": "conditioned field differs from the data at a conditioning location",
                                 "case": dict(desc, seed=int(seed)), "got": f[: cp.shape[1]].tolist()})
                raw, rk, kv = crf["raw_field"], crf["raw_krige"], crf.krige["krige_var"]
                if nug == 0:
                    want = rk + np.sqrt(kv / model.var) * raw
                    got = crf(pos, seed=int(seed), post_process=False)
                    if not np.allclose(got, want, atol=1e-10):
                        viol.append({"key": "condsrf:formula", "what": "conditioned field is not krige + sqrt(kvar/var)*raw", "case": dict(desc, seed=int(seed))})
                    if variant == "Simple":
                        ev += 1
                        if not np.isclose(f[-1], 0.5 + raw[-1], atol=1e-8):
                            viol.append({"key": "condsrf:far-field", "what": "far from the data the simple-kriging conditioned field is not mean + unconditional field",
                                         "case": dict(desc, seed=int(seed)), "got": float(f[-1]), "want": float(0.5 + raw[-1])})
    return {"evaluations": ev, "violations": viol[:6],
            "summary": "real CondSRF: data honoured for several seeds and variants (incl. exact mode with nugget), formula from stored fields, far-field limit"}
