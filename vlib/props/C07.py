"""C07 — conditioned random fields honour the data and never reuse stale kriging results."""
import warnings
import numpy as np
from proto import run_driver, fbits, unbits

ASSUMPTIONS = ["values (conditions, model, mean, positions) are abstracted to identifiers in the cache model; the tie compares, call by call, "
               "whether the real output equals the output of a freshly built object with the model's prediction, and after EVERY operation "
               "the stored field names of both objects with the model's bookkeeping",
               "nugget noise history is C11's subject: histories whose model identifiers carry a nugget pass a new seed at every call "
               "(generator restarted), all other histories use nugget-free models and repeat / change seeds freely",
               "custom field names given to store= / krige_store= are distinct from the names of the other slots of the same object "
               "(the model keeps one name space per slot)",
               "positions are changed through calls and set_pos of either object, not by assigning the pos / mesh_type attributes",
               "seed=None (a random seed from the operating system) is not reproducible and stays outside the histories; the documented "
               "'keep the seed of the generator' is the omitted seed argument / seed=np.nan",
               "the independent kriging oracle of the variant search (numpy solve of the kriging system assembled from model.covariance "
               "of hand-computed anisotropic distances and hand-written drift rows) is compared only where its own matrix has a "
               "condition number <= 1e7"]

SEED = 20240917
# names of the stored fields per slot: index = the model's name identifier (0 = default name)
FIELD_NAMES = ["field", "cf1", "cf2"]          # CondSRF slot 0: conditioned field
RAWF_NAMES = ["raw_field", "rf1", "rf2"]       # CondSRF slot 1: unconditional field
RAW_NAMES = ["raw_krige", "rk1", "rk2"]        # CondSRF slot 2: raw kriging field
KFIELD_NAMES = ["field", "kf1", "kf2"]         # Krige slot 0: kriging field
VAR_NAMES = ["krige_var", "kv1", "kv2"]        # Krige slot 1: kriging variance
CRF_SLOTS = [FIELD_NAMES, RAWF_NAMES, RAW_NAMES]
KRIGE_SLOTS = [KFIELD_NAMES, VAR_NAMES]

# model families behind the abstract model identifiers.  PLAIN: no optional argument; OPT: optional shape arguments with four
# well separated admissible values each (dim 1-3)
PLAIN = ["Gaussian", "Exponential", "Spherical", "Cubic", "Circular", "HyperSpherical"]
_HURST = [0.5, 0.2, 0.8, 0.35]
_LOW = [0.0, 0.5, 1.0, 0.25]
OPT = {
    "Stable": {"alpha": [1.9, 0.6, 1.3, 1.0]},
    "Matern": {"nu": [0.5, 3.0, 1.5, 1.0]},
    "Rational": {"alpha": [1.0, 4.0, 0.5, 2.0]},
    "Integral": {"nu": [1.0, 3.0, 0.5, 2.0]},
    "SuperSpherical": {"nu": [1.0, 2.5, 1.5, 4.0]},
    "TPLSimple": {"nu": [2.0, 3.5, 2.5, 5.0]},
    "TPLGaussian": {"hurst": _HURST, "len_low": _LOW},
    "TPLExponential": {"hurst": _HURST, "len_low": _LOW},
    "TPLStable": {"hurst": _HURST, "alpha": [1.5, 0.7, 1.9, 1.1], "len_low": _LOW},
}
PROFILES = ["len", "opt", "geo", "rescale", "var", "nugget"]
NPOS = 6


# kriging variants usable as the kriging step of a CondSRF: the three functional-drift forms of universal kriging, external
# drift kriging (every CondSRF / kriging call has to pass the drift at the target mesh) and detrended kriging (callable trend)
VARIANTS = ["Simple", "Ordinary", "Universal", "Universal-quadratic", "Universal-callables", "ExtDrift", "Detrended"]


def drift_count(variant, dim):
    """number of drift rows (functional + external) of the kriging system"""
    return {"Universal": dim, "Universal-quadratic": dim + dim * (dim + 1) // 2, "Universal-callables": 2, "ExtDrift": 1}.get(variant, 0)


def _drift_a(*pos):
    return np.cos(np.asarray(pos[0], dtype=float) / 4.0)


def _drift_b(*pos):
    return 0.3 * np.asarray(pos[-1], dtype=float) + 0.02 * np.asarray(pos[0], dtype=float) ** 2


def ext_fun(*pos):
    """the external drift variable, known everywhere"""
    return np.sin(np.asarray(pos[0], dtype=float) / 3.0) + 0.2 * np.asarray(pos[-1], dtype=float)


def ext_at(mesh):
    """external drift at a target mesh (pos, mesh_type): one value per point, structured meshes in 'ij' order"""
    pos, mt = mesh
    if mt == "structured":
        return ext_fun(*np.meshgrid(*pos, indexing="ij")).reshape(-1)
    return ext_fun(*pos)


def trend_fun(c):
    """the callable trend of detrended kriging behind a mean identifier"""
    def trend(*pos):
        return c + 0.1 * np.asarray(pos[0], dtype=float)
    return trend


def concrete(rng, dim=None, variant=None, cls=None, profile=None, same_count=None):
    """concrete values behind the abstract identifiers.  `profile` says in WHAT the four model identifiers differ:
       len (length scale, and anisotropy + rotation for dim > 1), opt (ONE optional argument only), geo (anisotropy / rotation
       only), rescale only, var only, nugget only"""
    dim = int(rng.randint(1, 4)) if dim is None else dim
    v = str(rng.choice(VARIANTS))
    variant = v if variant is None else variant
    n = int(rng.randint(3, 7)) + (drift_count(variant, dim) + 1 if variant not in ("Simple", "Detrended") else 0)   # keep the system regular
    cp = rng.uniform(0, 10, size=(dim, n))
    base = rng.randn(n)
    conds = [base + 0.75 * k * np.cos(np.arange(n) + k) for k in range(4)]
    means = [0.0, 1.5, -2.0]
    c = str(rng.choice(PLAIN)) if rng.rand() < 0.35 else str(rng.choice(sorted(OPT)))
    cls = c if cls is None else cls
    w = {"len": 0.25, "opt": 0.4 if cls in OPT else 0.0, "geo": 0.12 if dim > 1 else 0.0, "rescale": 0.1, "var": 0.1, "nugget": 0.06}
    pr = str(rng.choice(PROFILES, p=np.array([w[k] for k in PROFILES]) / sum(w.values())))
    profile = pr if profile is None else profile
    o = str(rng.choice(sorted(OPT[cls]))) if cls in OPT else None
    # what all four identifiers share ...
    shared = dict(var=1.3, len_scale=3.0)
    if dim > 1:
        shared.update(anis=[0.7] * (dim - 1), angles=[0.4] * (1 if dim == 2 else 3))
    # ... and what distinguishes them (all supports overlap the 10-wide domain: distinct identifiers stay visibly distinct)
    if profile == "len":
        vary = {"len_scale": [3.0, 4.5, 7.0, 2.0]}
        if dim > 1:
            vary["anis"] = [[a] * (dim - 1) for a in [1.0, 0.5, 1.0, 0.4]]
            vary["angles"] = [[a] * (1 if dim == 2 else 3) for a in [0.0, 0.7, 1.2, 0.0]]
    elif profile == "opt":
        vary = {o: list(OPT[cls][o])}
    elif profile == "geo":
        vary = {"anis": [[a] * (dim - 1) for a in [1.0, 0.5, 0.8, 0.4]],
                "angles": [[a] * (1 if dim == 2 else 3) for a in [0.0, 0.7, 1.2, 0.3]]}
        if rng.rand() < 0.5:
            del vary[str(rng.choice(["anis", "angles"]))]      # only the ratios / only the rotation
    elif profile == "rescale":
        vary = {"rescale": [1.0, 2.0, 0.5, 1.5]}
    elif profile == "var":
        vary = {"var": [1.3, 0.4, 2.5, 0.9]}
    else:
        vary = {"nugget": [0.2, 0.05, 0.5, 0.1]}
    if cls.startswith("TPL") and "var" not in vary:
        # truncated power law models keep the INTENSITY (var_raw) under in-place edits of len_scale / hurst / len_low (var =
        # var_raw * var_factor(len_scale, len_low, hurst) follows): the freshly built reference is given the same intensity
        shared["var_raw"] = shared.pop("var")
    mparams = [dict(shared, **{k: vals[i] for k, vals in vary.items()}) for i in range(4)]
    # target meshes: 0, 1, 5 share a point count, 2 and 4 share one, 3 is a structured mesh; `same_count`: all unstructured
    # meshes have the same point count (a field that survives a mesh change has a plausible shape)
    same_count = bool(rng.rand() < 0.5) if same_count is None else same_count
    n0 = int(rng.randint(2, 7))
    n2 = n0 if same_count else int(rng.randint(2, 7))
    u = lambda k: (rng.uniform(0, 10, size=(dim, k)), "unstructured")      # noqa
    poss = [u(n0), u(n0), u(n2), (tuple(np.sort(rng.uniform(0, 10, size=int(rng.randint(2, 4)))) for _ in range(dim)), "structured"),
            u(n2), u(n0)]
    # measurement errors given at construction (a float / a per-point array, exact=False) in three of ten setups: every
    # set_condition of the histories omits cond_err — new values, the argument-less refresh — and has to keep them in force
    # (the freshly built reference object is given the same errors)
    q = rng.rand()
    err = float(rng.choice([0.0625, 0.25])) if q < 0.15 else (rng.randint(1, 5, n) / 16.0 if q < 0.3 else None)
    return dict(dim=dim, cp=cp, conds=conds, means=means, poss=poss, cls=cls, variant=variant, profile=profile,
                vary=sorted(vary), mparams=mparams, err=err)


def describe(cv):
    e = cv.get("err")
    return dict(variant=cv["variant"], dim=cv["dim"], profile=cv["profile"], vary=cv["vary"],
                cond_err="nugget" if e is None else ("float" if isinstance(e, float) else "array"), **{"class": cv["cls"]})


def make_model(cv, model_id):
    import gstools as gs
    return getattr(gs, cv["cls"])(dim=cv["dim"], **cv["mparams"][model_id])


def set_model(model, cv, model_id):
    """the in-place model edit behind a model identifier: ONLY the attributes the identifiers differ in are assigned"""
    for k in cv["vary"]:
        setattr(model, k, cv["mparams"][model_id][k])


def build(cv, cond, model_id, mean_id, seed=SEED):
    import gstools as gs
    model = make_model(cv, model_id)
    v = cv["variant"]
    e = cv.get("err")
    ekw = {} if e is None else {"cond_err": e if isinstance(e, float) else np.array(e)}
    if v == "Simple":
        kr = gs.krige.Simple(model, cv["cp"], cv["conds"][cond], mean=cv["means"][mean_id], **ekw)
    elif v == "Ordinary":
        kr = gs.krige.Ordinary(model, cv["cp"], cv["conds"][cond], trend=cv["means"][mean_id], **ekw)
    elif v == "ExtDrift":
        kr = gs.krige.ExtDrift(model, cv["cp"], cv["conds"][cond], ext_fun(*cv["cp"]), trend=cv["means"][mean_id], **ekw)
    elif v == "Detrended":
        kr = gs.krige.Detrended(model, cv["cp"], cv["conds"][cond], trend_fun(cv["means"][mean_id]), **ekw)
    else:
        drift = {"Universal": "linear", "Universal-quadratic": "quadratic", "Universal-callables": [_drift_a, _drift_b]}[v]
        kr = gs.krige.Universal(model, cv["cp"], cv["conds"][cond], drift_functions=drift, trend=cv["means"][mean_id], **ekw)
    return gs.CondSRF(kr, seed=seed, mode_no=64)


def ext_kw(cv, pos_id):
    """what every CondSRF / kriging call of an external-drift setup has to pass: the drift at the target mesh"""
    if cv["variant"] != "ExtDrift" or pos_id is None:
        return {}
    return {"ext_drift": ext_at(cv["poss"][pos_id])}


def seed_id(cv, op, ncall):
    """seed identifier of the `ncall`-th CondSRF call (real seed = SEED + id); None: the call passes no seed (`keep` 1) or
       seed=np.nan (`keep` 2), i.e. keeps the seed of the generator.  Histories with a model nugget pass a new seed at every call"""
    if cv["profile"] == "nugget":
        return 10 + ncall
    if op.get("keep", 0):
        return None
    return op.get("sd", 0)


def driver_ops(cv, ops):
    """the history as sent to the Lean model"""
    out, ncall = [], 0
    for op in ops:
        o = normal(op)
        o.pop("seed", None)
        if op["k"] == "call":
            ncall += 1
            sid = seed_id(cv, op, ncall)
            if sid is not None:
                o["seed"] = sid
        out.append(o)
    return out


def _slot_opts(rng, op, name_key, save_key, p_off, p_name):
    q = rng.rand()
    if q < p_off:
        op[save_key] = False
    elif q < p_off + p_name:
        op[name_key] = int(rng.randint(1, 3))


def gen_call(rng, with_pos=None):
    """a CondSRF call with random store / krige_store options (defaults half of the time).  Per slot: name identifier
       (`fn`, `rfn`, `rn` for the CondSRF slots, `kfn`, `vn` for the Krige slots) and save flag (`fs`, `rfs`, `store`, `kfs`,
       `kstore`); `list`: pass lists although a scalar / a single string would do (2: without trailing defaults)"""
    op = {"k": "call"}
    if (rng.rand() < 0.6) if with_pos is None else with_pos:
        op["pos"] = int(rng.randint(0, NPOS))
    q = rng.rand()
    if q < 0.3:
        op["sd"] = int(rng.randint(1, 3))       # a new seed
    elif q < 0.65:
        op["keep"] = int(rng.randint(1, 3))     # no seed argument / seed=np.nan: keep the generator's seed
    r = rng.rand()
    if r < 0.5:
        return op
    if r < 0.6:                    # the scalar forms: nothing stored in the CondSRF object / in the Krige object
        if rng.rand() < 0.6:
            op.update(store=False, fs=False, rfs=False)
        if "store" not in op or rng.rand() < 0.4:
            op.update(kstore=False, kfs=False)
        return op
    _slot_opts(rng, op, "rn", "store", 0.25, 0.3)
    _slot_opts(rng, op, "vn", "kstore", 0.2, 0.3)
    _slot_opts(rng, op, "fn", "fs", 0.2, 0.3)
    _slot_opts(rng, op, "rfn", "rfs", 0.2, 0.3)
    _slot_opts(rng, op, "kfn", "kfs", 0.2, 0.3)
    if rng.rand() < 0.5:
        op["list"] = int(rng.randint(1, 3))
    return op


def gen_krige_call(rng, with_pos=None):
    o = {"k": "krige_call"}
    if (rng.rand() < 0.6) if with_pos is None else with_pos:
        o["pos"] = int(rng.randint(0, NPOS))
    q = rng.rand()
    if q < 0.15:
        o.update(store=False, kfs=False)
    elif q < 0.3:
        o["vn"] = int(rng.randint(1, 3))
    elif q < 0.45:
        _slot_opts(rng, o, "vn", "store", 0.3, 0.4)
        _slot_opts(rng, o, "kfn", "kfs", 0.3, 0.4)
    return o


def gen_invalidation(rng):
    """operations after which stored kriging results of earlier meshes / data must not be found again"""
    q = rng.rand()
    if q < 0.3:
        return [{"k": "set_condition", "cond": int(rng.randint(0, 4))}]
    if q < 0.4:
        return [{"k": "set_condition"}]
    if q < 0.55:
        return [{"k": "set_pos", "pos": int(rng.randint(0, NPOS))}]
    if q < 0.65:
        return [{"k": "krige_set_pos", "pos": int(rng.randint(0, NPOS))}]
    if q < 0.75:
        return [{"k": "delete"}]
    if q < 0.85:
        return [{"k": "krige_delete"}]
    if q < 0.93:
        return [{"k": "model", "v": int(rng.randint(0, 4)), "re": bool(rng.rand() < 0.5)}, {"k": "set_condition"}]
    return [gen_krige_call(rng, with_pos=False)]


def mesh_walk(rng):
    """generate on several different meshes in a row (CondSRF calls, some direct kriging calls), then invalidate, then call
       WITHOUT positions (once or twice)"""
    seg = []
    for p in rng.permutation(NPOS)[: int(rng.randint(2, 5))]:
        o = gen_call(rng, with_pos=True) if rng.rand() < 0.75 else gen_krige_call(rng, with_pos=True)
        o["pos"] = int(p)
        seg.append(o)
    seg += gen_invalidation(rng)
    if rng.rand() < 0.3:
        seg += gen_invalidation(rng)
    seg.append(gen_call(rng, with_pos=False))
    if rng.rand() < 0.4:
        seg.append(gen_call(rng, with_pos=False))
    return seg


def change_walk(rng):
    """generate, then one to three rounds of: change the model (in place or by re-assignment) / the mean / the conditioning
       values, refresh as documented, generate again (mostly without positions, same or new seed)"""
    seg = [gen_call(rng, with_pos=True)]
    for _ in range(int(rng.randint(1, 4))):
        q = rng.rand()
        if q < 0.6:
            seg.append({"k": "model", "v": int(rng.randint(0, 4)), "re": bool(rng.rand() < 0.4)})
            seg.append({"k": "set_condition"} if rng.rand() < 0.6 else {"k": "set_condition", "cond": int(rng.randint(0, 4))})
        elif q < 0.8:
            seg += [{"k": "mean", "v": int(rng.randint(0, 3))}, {"k": "set_condition"}]
        else:
            seg.append({"k": "set_condition", "cond": int(rng.randint(0, 4))})
        seg.append(gen_call(rng, with_pos=bool(rng.rand() < 0.3)))
    return seg


def gen_history(rng, length):
    ops = []
    while len(ops) < length:
        r = rng.rand()
        if r < 0.08:
            ops += mesh_walk(rng)
        elif r < 0.16:
            ops += change_walk(rng)
        elif r < 0.4:
            ops.append(gen_call(rng))
        elif r < 0.5:
            ops.append(gen_krige_call(rng))
        elif r < 0.57:
            ops.append({"k": "set_pos", "pos": int(rng.randint(0, NPOS))})
        elif r < 0.62:
            ops.append({"k": "krige_set_pos", "pos": int(rng.randint(0, NPOS))})
        elif r < 0.73:
            ops.append({"k": "set_condition", "cond": int(rng.randint(0, 4))} if rng.rand() < 0.6 else {"k": "set_condition"})
        elif r < 0.85:
            ops.append({"k": "model", "v": int(rng.randint(0, 4)), "re": bool(rng.rand() < 0.35)})
        elif r < 0.91:
            ops.append({"k": "mean", "v": int(rng.randint(0, 3))})
        elif r < 0.96:
            ops.append({"k": "delete"})
        else:
            ops.append({"k": "krige_delete"})
    return ops


def kind(o):
    """operation kind used in violation keys; operations with default options keep their plain name"""
    k = o["k"]
    if k == "call":
        if o.get("keep", 0):
            k += "_keepseed"
        if not o.get("store", True):
            k += "_nostore"
        if o.get("rn", 0):
            k += "_rn%d" % o["rn"]
        if not o.get("kstore", True):
            k += "_nokstore"
        if o.get("vn", 0):
            k += "_vn%d" % o["vn"]
    elif k == "krige_call":
        if not o.get("store", True):
            k += "_nostore"
        if o.get("vn", 0):
            k += "_vn%d" % o["vn"]
    return k


def _store_arg(slots, form):
    """store= argument from [(name table, name id, save flag)] per slot.  form 0: the most compact form (a bool when all
       slots agree and use default names, a single string when only the first slot is named), 1: a full list, 2: a list
       without trailing defaults (get_store_config pads with True)"""
    entries = [tbl[i] if i else bool(sv) for tbl, i, sv in slots]
    if not form:
        if all(isinstance(e, bool) for e in entries) and len(set(entries)) == 1:
            return entries[0]
        if isinstance(entries[0], str) and all(e is True for e in entries[1:]):
            return entries[0]
    if form == 2:
        while len(entries) > 1 and entries[-1] is True:
            entries.pop()
    return entries


def store_args(op):
    """the store= / krige_store= arguments of CondSRF.__call__ behind a call operation (a named slot is always saved)"""
    form = op.get("list", 0)
    store = _store_arg([(FIELD_NAMES, op.get("fn", 0), op.get("fs", True)), (RAWF_NAMES, op.get("rfn", 0), op.get("rfs", True)),
                        (RAW_NAMES, op.get("rn", 0), op.get("store", True))], form)
    kstore = _store_arg([(KFIELD_NAMES, op.get("kfn", 0), op.get("kfs", True)), (VAR_NAMES, op.get("vn", 0), op.get("kstore", True))], form)
    return store, kstore


def krige_store_arg(op):
    """the store= argument of a direct kriging call"""
    return _store_arg([(KFIELD_NAMES, op.get("kfn", 0), op.get("kfs", True)), (VAR_NAMES, op.get("vn", 0), op.get("store", True))],
                      op.get("list", 0))


def normal(op):
    """the operation as sent to the model: a slot with a custom name is saved (the name IS the save request)"""
    o = dict(op)
    for nk, sk in (("fn", "fs"), ("rfn", "rfs"), ("rn", "store"), ("kfn", "kfs"), ("vn", "kstore" if op["k"] == "call" else "store")):
        if o.get(nk, 0):
            o[sk] = True
    return o


def stored_sets(crf):
    return sorted(crf.field_names), sorted(crf.krige.field_names)


def run_real(cv, ops, c0, m0, mu0):
    """replays a history on a real CondSRF object.  Returns a dict:
       calls: per CondSRF call 'ValueError' (no positions yet) or (equals_fresh: bool, max abs diff[, note]) — fresh = a newly
              built object with the current data / model / mean and the seed IN FORCE (the last seed passed to a call, else the
              constructor's), called once at the current positions;
       uncond: per CondSRF call None or (equals_fresh, max abs diff) of the stored unconditional field alone;
       seeds: per CondSRF call the generator's public seed after the call (as identifier);
       names: per operation (sorted field_names of the CondSRF object, of the Krige object) after it;
       survivors: (operation index, operation kind, leftover names) wherever a deletion / position change left a stored field
                  behind that this very operation did not store (independent of the Lean model)"""
    crf = build(cv, c0, m0, mu0)
    cond, model_id, mean_id, pos_id = c0, m0, mu0, None
    out, names, survivors, uncond, seeds = [], [], [], [], []
    ncall = 0
    cur = 0              # identifier of the seed in force (the generator was built with SEED + 0)
    fresh_cache = {}
    with warnings.catch_warnings():
        warnings.simplefilter("ignore")
        for idx, op in enumerate(ops):
            k = op["k"]
            old_pos = pos_id
            own_crf, own_krige, raised = None, None, False
            if k == "call":
                p = op.get("pos", None)
                store, kstore = store_args(op)
                ncall += 1
                sid = seed_id(cv, op, ncall)
                if sid is not None:
                    cur = sid       # the generator takes the seed over before anything can fail
                seed = SEED + cur
                skw = {"seed": SEED + sid} if sid is not None else ({"seed": np.nan} if op.get("keep", 0) == 2 else {})
                if p is not None:
                    pos_id = p      # set_pos happens before anything can fail
                skw.update(ext_kw(cv, pos_id))
                try:
                    if p is None:
                        res = crf(store=store, krige_store=kstore, **skw)
                    else:
                        res = crf(cv["poss"][p][0], mesh_type=cv["poss"][p][1], store=store, krige_store=kstore, **skw)
                except Exception as e:       # noqa
                    raised = True
                    if pos_id is None and isinstance(e, ValueError):
                        out.append("ValueError")
                    else:
                        out.append((False, float("inf"), "raised %s: %s" % (type(e).__name__, str(e)[:80])))
                    uncond.append(None)
                gs_ = crf.generator.seed
                seeds.append(None if gs_ is None else int(gs_) - SEED)
                if not raised:
                    o = normal(op)
                    own_crf = {tbl[o.get(nk, 0)] for tbl, nk, sk in ((FIELD_NAMES, "fn", "fs"), (RAWF_NAMES, "rfn", "rfs"),
                                                                    (RAW_NAMES, "rn", "store")) if o.get(sk, True)}
                    own_krige = {tbl[o.get(nk, 0)] for tbl, nk, sk in ((KFIELD_NAMES, "kfn", "kfs"), (VAR_NAMES, "vn", "kstore"))
                                 if o.get(sk, True)}
                    # the reference: a freshly built object (current data, model, mean; built with the seed of this call), called
                    # once at the current positions — a pure function of these identifiers, computed once per history
                    fk = (cond, model_id, mean_id, pos_id, seed)
                    if fk not in fresh_cache:
                        fo = build(cv, cond, model_id, mean_id, seed=seed)
                        ff = fo(cv["poss"][pos_id][0], seed=seed, mesh_type=cv["poss"][pos_id][1], **ext_kw(cv, pos_id))
                        fresh_cache[fk] = (ff, fo["raw_field"])
                    fresh, fresh_raw = fresh_cache[fk]
                    # the unconditional part on its own (whenever this call stored it): equal to the fresh object's in EVERY
                    # history, refreshed or not
                    rname = RAWF_NAMES[o.get("rfn", 0)]
                    if o.get("rfs", True) and rname in crf.field_names:
                        rr_ = np.asarray(crf[rname])
                        if rr_.shape != np.shape(fresh_raw):
                            uncond.append((False, float("inf")))
                        else:
                            du = float(np.max(np.abs(rr_ - fresh_raw)))
                            uncond.append((bool(du <= 1e-9 * (1 + np.abs(fresh_raw).max())), du))
                    else:
                        uncond.append(None)
                    if np.shape(res) != np.shape(fresh):
                        out.append((False, float("inf"), "shape %s instead of %s" % (np.shape(res), np.shape(fresh))))
                    else:
                        d = float(np.max(np.abs(res - fresh)))
                        out.append((bool(d <= 1e-9 * (1 + np.abs(fresh).max())), d))
            elif k == "krige_call":
                p = op.get("pos", None)
                if p is not None:
                    pos_id = p
                try:
                    if p is None:
                        crf.krige(store=krige_store_arg(op), **ext_kw(cv, pos_id))
                    else:
                        crf.krige(cv["poss"][p][0], mesh_type=cv["poss"][p][1], store=krige_store_arg(op), **ext_kw(cv, pos_id))
                    o = normal(op)
                    own_krige = {tbl[o.get(nk, 0)] for tbl, nk, sk in ((KFIELD_NAMES, "kfn", "kfs"), (VAR_NAMES, "vn", "store"))
                                 if o.get(sk, True)}
                except ValueError:
                    if pos_id is not None:
                        raise
            elif k == "set_pos":
                crf.set_pos(cv["poss"][op["pos"]][0], cv["poss"][op["pos"]][1])
                pos_id = op["pos"]
                own_crf, own_krige = set(), set()
            elif k == "krige_set_pos":
                crf.krige.set_pos(cv["poss"][op["pos"]][0], cv["poss"][op["pos"]][1])
                pos_id = op["pos"]
                own_krige = set()
            elif k == "set_condition":
                if "cond" in op:
                    cond = op["cond"]
                    crf.krige.set_condition(cond_val=cv["conds"][cond])
                else:
                    crf.krige.set_condition()
            elif k == "model":
                model_id = op["v"]
                if op.get("re", False):
                    crf.model = make_model(cv, model_id)       # re-assignment of a newly built model object
                else:
                    set_model(crf.model, cv, model_id)
            elif k == "mean":
                mean_id = op["v"]
                if cv["variant"] == "Simple":
                    crf.mean = cv["means"][mean_id]
                elif cv["variant"] == "Detrended":
                    crf.trend = trend_fun(cv["means"][mean_id])
                else:
                    crf.trend = cv["means"][mean_id]
            elif k == "delete":
                crf.delete_fields()
            elif k == "krige_delete":
                crf.krige.delete_fields()
            nc, nk_ = stored_sets(crf)
            names.append((nc, nk_))
            # the invariant 'after delete_fields() / a position change no stored field remains' on the real objects
            left = []
            if k == "delete":
                left = ["CondSRF:" + x for x in nc]
            elif k in ("krige_delete", "set_condition"):
                left = ["Krige:" + x for x in nk_]
            elif pos_id != old_pos and old_pos is not None:
                if own_crf is not None:
                    left += ["CondSRF:" + x for x in nc if x not in own_crf]
                if own_krige is not None:
                    left += ["Krige:" + x for x in nk_ if x not in own_krige]
            if left:
                survivors.append((idx, k if pos_id == old_pos or k in ("delete", "krige_delete", "set_condition") else k + "-new-pos", left))
    return {"calls": out, "names": names, "survivors": survivors, "uncond": uncond, "seeds": seeds}


def _c(**kw):
    return dict({"k": "call"}, **kw)


_OFF = dict(store=False, fs=False, rfs=False)       # crf(store=False): nothing stored in the CondSRF object
_KOFF = dict(kstore=False, kfs=False)               # crf(krige_store=False): nothing stored in the Krige object

# directed histories, replayed first on every run (correspondence and search).  All respect the documented protocol
# (every model / mean change is followed by the refresh), so every call must equal a freshly built object.
DIRECTED = [
    # the classic ones (D6): new conditioning values / model change + refresh / mean change + refresh, positions unchanged
    ("new-values", [_c(pos=0), {"k": "set_condition", "cond": 1}, _c()]),
    ("model-refresh", [_c(pos=0), {"k": "model", "v": 1}, {"k": "set_condition"}, _c()]),
    ("model-reassign-refresh", [_c(pos=0), {"k": "model", "v": 2, "re": True}, {"k": "set_condition"}, _c(), _c(sd=1)]),
    ("mean-refresh", [_c(pos=0), {"k": "mean", "v": 1}, {"k": "set_condition"}, _c()]),
    ("model-refresh-with-values", [_c(pos=0), {"k": "model", "v": 1}, {"k": "set_condition", "cond": 1}, _c(pos=1)]),
    # history 1: the store=False call re-stores krige_var but not raw_krige
    ("h1-nostore", [_c(pos=0), {"k": "set_condition", "cond": 1}, _c(**_OFF), _c()]),
    # history 2: a direct kriging call re-stores krige_var
    ("h2-krige-call", [_c(pos=0), {"k": "set_condition", "cond": 1}, {"k": "krige_call", "pos": 0}, _c()]),
    ("h2-krige-call-nopos", [_c(pos=0), {"k": "model", "v": 2}, {"k": "set_condition"}, {"k": "krige_call"}, _c()]),
    # a direct kriging call at other positions (same / different point count) moves the shared positions
    ("krige-other-pos-same-count", [_c(pos=0), {"k": "krige_call", "pos": 1}, _c()]),
    ("krige-other-pos", [_c(pos=0), {"k": "krige_call", "pos": 2}, _c()]),
    ("krige-set-pos", [_c(pos=0), {"k": "krige_set_pos", "pos": 1}, _c(**_OFF), _c()]),
    # custom names: run 2 stores its raw kriging field under another name, its variance under the default name
    ("names-raw", [_c(pos=0), {"k": "set_condition", "cond": 1}, _c(rn=1), _c()]),
    ("h1-list-form", [_c(pos=0), {"k": "set_condition", "cond": 2}, _c(store=False), _c()]),
    ("names-var", [_c(pos=0, vn=1), {"k": "set_condition", "cond": 1}, _c(), {"k": "krige_call", "vn": 1}, _c(vn=1)]),
    # harmless reuse must survive: nothing changed, deletions on either object
    ("reuse", [_c(pos=0), _c(), _c(pos=0), {"k": "krige_delete"}, _c(**_OFF), _c(), {"k": "delete"}, _c(**_KOFF), _c()]),
    # several meshes, then an invalidation, then calls without positions
    ("meshes-new-values", [_c(pos=0), _c(pos=2), {"k": "set_condition", "cond": 1}, _c()]),
    ("meshes-set-pos", [_c(pos=0), _c(pos=1), {"k": "set_pos", "pos": 5}, _c()]),
    ("meshes-structured", [_c(pos=3), _c(pos=0), _c(pos=3), {"k": "set_condition", "cond": 2}, _c(), {"k": "krige_set_pos", "pos": 4}, _c()]),
    ("meshes-krige-first", [{"k": "krige_call", "pos": 1}, _c(), {"k": "set_condition", "cond": 3}, _c(), {"k": "delete"}, _c()]),
    # the unconditional part after a model change, calls WITHOUT a seed (keep 1: no seed argument, keep 2: seed=np.nan)
    ("model-refresh-keep", [_c(pos=0), {"k": "model", "v": 1}, {"k": "set_condition"}, _c(keep=1), _c(pos=1, keep=2)]),
    ("model-reassign-refresh-keep", [_c(pos=0, sd=1), {"k": "model", "v": 2, "re": True}, {"k": "set_condition"}, _c(pos=0, keep=1), _c(),
                                     {"k": "model", "v": 3}, {"k": "set_condition", "cond": 2}, _c(keep=2), _c(sd=1), _c(keep=1)]),
    ("seed-of-a-raising-call-kept", [_c(sd=2), _c(pos=0, keep=1), {"k": "model", "v": 1}, {"k": "set_condition"}, _c(keep=1), _c(sd=2)]),
    ("model-twice-keep", [_c(pos=3, keep=1), {"k": "model", "v": 2}, {"k": "model", "v": 1, "re": True}, {"k": "set_condition"},
                          {"k": "krige_call"}, _c(keep=1), {"k": "delete"}, _c(keep=2)]),
    ("meshes-names", [_c(pos=0, fn=1, rfn=1, rn=1, kfn=1, vn=1), _c(pos=4, rn=2, vn=2), _c(pos=1), _c(pos=5, rn=1, vn=1),
                      {"k": "model", "v": 3}, {"k": "set_condition"}, _c(rn=1, vn=1), {"k": "krige_delete"}, _c(rn=1, vn=1)]),
]


def directed_cases():
    """every directed history on several model families / profiles (what the model identifiers differ in)"""
    out = []
    combos = [("Simple", None, "len"), ("Ordinary", None, "len"), ("Simple", "Stable", "opt"), ("Ordinary", "Matern", "opt"),
              ("Universal", "TPLStable", "opt"), ("Simple", "Rational", "rescale"), ("Ordinary", "Exponential", "var"),
              ("Simple", "Spherical", "geo"), ("Ordinary", "Gaussian", "nugget"), ("ExtDrift", "Exponential", "len"),
              ("Detrended", "Matern", "var"), ("Universal-quadratic", "Spherical", "geo"), ("Universal-callables", "Stable", "len")]
    for i, (name, ops) in enumerate(DIRECTED):
        for j in (i % 2, 2 + (i % (len(combos) - 2))):
            variant, cls, profile = combos[j]
            dim = 1 + (i + j) % 2 if profile != "geo" else 2 + (i % 2)
            cv = concrete(np.random.RandomState(9000 + 16 * i + j), dim=dim, variant=variant, cls=cls, profile=profile)
            out.append((name, cv, [dict(o) for o in ops], 0, 0, 0))
    return out


_DIRECTED_RUNS = {}


def directed_run(i, cv, ops, c0, m0, mu0):
    """run_real of the i-th directed case, computed once per process (correspondence and search replay the same cases)"""
    if i not in _DIRECTED_RUNS:
        try:
            _DIRECTED_RUNS[i] = run_real(cv, ops, c0, m0, mu0)
        except Exception as e:       # noqa
            _DIRECTED_RUNS[i] = e
    if isinstance(_DIRECTED_RUNS[i], Exception):
        raise _DIRECTED_RUNS[i]
    return _DIRECTED_RUNS[i]


def model_names(nm):
    """the model's stored-field bookkeeping as field-name sets"""
    return (sorted(CRF_SLOTS[sl][n] for sl, n in nm["crf"] if n < 3), sorted(KRIGE_SLOTS[sl][n] for sl, n in nm["krige"] if n < 3))


def correspondence(ctx):
    rng = np.random.RandomState(ctx.seed + 707)
    H = ctx.scale(60, 400)
    L = ctx.scale(12, 60)
    cases, opsl = [], []
    for name, cv, ops, c0, m0, mu0 in directed_cases():
        cases.append((cv, ops, c0, m0, mu0))
    ND = len(cases)
    for h in range(H):
        cv = concrete(rng)
        # every second history respects the documented protocol (refresh after each model / mean change: every call must be
        # fresh), the others also exercise the model's prediction of staleness without refresh
        ops = (protocol_history if h % 2 else gen_history)(rng, int(rng.randint(3, L + 1)))
        c0, m0, mu0 = int(rng.randint(0, 4)), int(rng.randint(0, 4)), int(rng.randint(0, 3))
        cases.append((cv, ops, c0, m0, mu0))
    H = len(cases)
    for cv, ops, c0, m0, mu0 in cases:
        opsl.append({"op": "cond_history", "cond": c0, "model": m0, "mean": mu0, "seed": 0, "ops": driver_ops(cv, ops)})
    # the conditioning formula on Float
    fops = []
    for _ in range(ctx.scale(30, 300)):
        n = int(rng.randint(1, 8))
        var = float(rng.choice([0.5, 1.0, 2.0]))
        nug = float(rng.choice([0.0, 0.0, 0.25, 1.0]))
        kv = np.abs(rng.randn(n)) * (var + nug) * rng.choice([0.0, 0.3, 1.0, 1.7], size=n)
        fops.append(dict(krige=rng.randn(n), kvar=kv, raw=rng.randn(n), noise=rng.randn(n), var=var, nugget=nug))
    for f in fops:
        opsl.append({"op": "cond_value", "krige": fbits(f["krige"]), "kvar": fbits(f["kvar"]), "raw": fbits(f["raw"]),
                     "noise": fbits(f["noise"]), "var": fbits([f["var"]])[0], "nugget": fbits([f["nugget"]])[0]})
    res = run_driver(opsl)
    dis, distinct = [], set()
    dist = {"calls": 0, "reused": 0, "stale_predicted": 0, "ValueError": 0, "mixed_runs_predicted": 0, "names_compared": 0,
            "max_stored": 0, "ops": {}, "profiles": {}, "classes": {}, "variants": {}, "cond_err": {}, "pos_changes_with_stored_fields": 0,
            "uncond_compared": 0, "seeds_compared": 0, "calls_keeping_seed": 0, "calls_keeping_seed_after_model_change": 0}
    for ci, ((cv, ops, c0, m0, mu0), r) in enumerate(zip(cases, res[:H])):
        for o in ops:
            dist["ops"][kind(o)] = dist["ops"].get(kind(o), 0) + 1
        dist["profiles"][cv["profile"]] = dist["profiles"].get(cv["profile"], 0) + 1
        dist["classes"][cv["cls"]] = dist["classes"].get(cv["cls"], 0) + 1
        dist["variants"][cv["variant"]] = dist["variants"].get(cv["variant"], 0) + 1
        dist["cond_err"][describe(cv)["cond_err"]] = dist["cond_err"].get(describe(cv)["cond_err"], 0) + 1
        changed = False
        for o in ops:
            if o["k"] == "model":
                changed = True
            elif o["k"] == "call" and cv["profile"] != "nugget" and o.get("keep", 0):
                dist["calls_keeping_seed"] += 1
                dist["calls_keeping_seed_after_model_change"] += int(changed)
                changed = False
            elif o["k"] == "call":
                changed = False
        try:
            rr = directed_run(ci, cv, ops, c0, m0, mu0) if ci < ND else run_real(cv, ops, c0, m0, mu0)
        except Exception as e:       # noqa
            dis.append({"what": "history raised outside a CondSRF call: %s: %s" % (type(e).__name__, e), "ops": ops, "config": describe(cv)})
            continue
        if isinstance(r, dict) and "error" in r:
            dis.append({"what": "driver error " + r["error"]})
            continue
        real, rcalls = rr["calls"], r["calls"]
        if len(real) != len(rcalls) or len(rr["names"]) != len(r["names"]):
            dis.append({"what": "number of calls differs", "ops": ops})
            continue
        # stored fields of both objects after every operation: real field_names == the model's bookkeeping
        prev = ([], [])
        for i, (a, b) in enumerate(zip(rr["names"], r["names"])):
            dist["names_compared"] += 1
            mb = model_names(b)
            dist["max_stored"] = max(dist["max_stored"], len(a[0]) + len(a[1]))
            if ops[i]["k"] in ("set_pos", "krige_set_pos", "call", "krige_call") and (prev[0] or prev[1]) and "pos" in ops[i]:
                dist["pos_changes_with_stored_fields"] += 1
            prev = a
            if (list(a[0]), list(a[1])) != (mb[0], mb[1]):
                dis.append({"what": "stored fields (field_names of the CondSRF / Krige object) after an operation differ from the cache "
                                    "model's bookkeeping", "op_index": i, "op": ops[i], "real": {"CondSRF": a[0], "Krige": a[1]},
                            "model": {"CondSRF": mb[0], "Krige": mb[1]}, "ops": ops, "init": [c0, m0, mu0], "config": describe(cv)})
                break
        # the generator: its public seed after every call, and the stored unconditional field against the fresh object's
        for i, (sr, ur, b) in enumerate(zip(rr["seeds"], rr["uncond"], rcalls)):
            if b != "ValueError":
                dist["seeds_compared"] += 1
                if sr != b["seed"]:
                    dis.append({"what": "CondSRF call: generator.seed after the call differs from the model's seed in force",
                                "call_index": i, "real": sr, "model": b["seed"], "ops": ops, "init": [c0, m0, mu0], "config": describe(cv)})
                    break
                if ur is not None:
                    dist["uncond_compared"] += 1
                    if ur[0] != b["gen_eq_fresh"]:
                        dis.append({"what": "CondSRF call: the stored unconditional field vs the fresh object's does not match the generator "
                                            "model's prediction (fresh at every call of every history)", "call_index": i, "real": ur,
                                    "model": {"gen": b["gen"], "gen_fresh": b["gen_fresh"]}, "ops": ops, "init": [c0, m0, mu0],
                                    "config": describe(cv)})
                        break
        for i, (a, b) in enumerate(zip(real, rcalls)):
            dist["calls"] += 1
            if a == "ValueError" or b == "ValueError":
                dist["ValueError"] += 1
                ok = a == b
            else:
                dist["reused"] += int(b["reused"])
                dist["stale_predicted"] += int(not b["eq_fresh"])
                dist["mixed_runs_predicted"] += int(not b["same_run"])
                ok = a[0] == (b["eq_fresh"] and b["gen_eq_fresh"])
                if not ok and a[0] and not b["eq_fresh"]:
                    # the model predicts a (documented) stale reuse, the real output nevertheless equals the fresh object's: the
                    # abstract identifiers were not distinguishable on these concrete values (e.g. all targets out of range of a
                    # compact-support model) or the code recomputed more than the model assumes — the property is not at stake
                    dist["benign_equal_where_stale_predicted"] = dist.get("benign_equal_where_stale_predicted", 0) + 1
                    ok = True
            if not ok:
                dis.append({"what": "CondSRF call: real output vs fresh object does not match the cache model's prediction",
                            "call_index": i, "real": a, "model": b, "ops": ops, "init": [c0, m0, mu0], "config": describe(cv)})
                break
        distinct.add(tuple(kind(o) for o in ops))
    # formula: compare with the real get_scaling path (the generator's nugget noise is prescribed)
    import gstools as gs
    for f, r in zip(fops, res[H:]):
        model = gs.Gaussian(dim=1, var=f["var"], nugget=f["nugget"])
        kr = gs.krige.Simple(model, [[0.0, 1.0]], [0.0, 1.0])
        crf = gs.CondSRF(kr, seed=1)

        class G:
            def get_nugget(self, shape, _n=f["noise"]):
                return _n
        crf._generator = G()
        vs, ng = crf.get_scaling(f["kvar"], f["kvar"].shape)
        real = f["krige"] + vs * f["raw"] + ng
        lean = unbits(r)
        dist["formula"] = dist.get("formula", 0) + 1
        if not np.allclose(lean, real, rtol=1e-13, atol=1e-13):
            dis.append({"what": "conditioning formula: model differs from get_scaling",
                        "case": {k: (v.tolist() if hasattr(v, "tolist") else v) for k, v in f.items()},
                        "real": np.asarray(real).tolist(), "lean": lean.tolist()})
    return {"evaluations": dist["calls"] + dist["names_compared"] + len(fops), "distinct_nontrivial": len(distinct),
            "rule": "directed histories first (stale-reuse histories through store=False, direct kriging calls, custom names, several meshes "
                    "followed by an invalidation and a call without positions), each on several model families, then random histories "
                    "(CondSRF calls with/without positions, with a new seed, the same seed or NO seed argument / seed=nan (keep the generator's "
                    "seed) and every store / krige_store form incl. custom names for every "
                    "slot, direct kriging calls at the same / other positions, set_pos on either object over six meshes (shared and different "
                    "point counts, one structured), runs of mesh changes, set_condition with new data / refresh, model change in place or by "
                    "re-assignment, mean/trend re-assignment, delete_fields on either object) on real CondSRF objects (Simple / Ordinary / "
                    "Universal with linear, quadratic and callable drift / ExtDrift / Detrended, dim 1-3, 15 model families; the model identifiers of a history differ ONLY in length scale (+ geometry), in one "
                    "optional argument, in anisotropy / rotation, in rescale, in var or in nugget); per call: real output == output of a freshly "
                    "built object  <=>  the cache model's tokens (raw kriging field AND variance) equal the fresh token; after every "
                    "operation: field_names of both objects == the model's stored-field bookkeeping; per call: generator.seed == the model's "
                    "seed in force, and the stored unconditional field == the fresh object's  <=>  the generator model's token equals the "
                    "fresh token (in EVERY history, refreshed or not); plus the conditioning formula vs "
                    "get_scaling; distinct = distinct operation-kind sequences",
            "samples": [c[1] for c in cases[:3]], "disagreements": dis[:6], "distribution": dist}


def protocol_history(rng, length):
    """histories the property guarantees: every model / mean change is followed by the documented refresh"""
    ops = []
    for o in gen_history(rng, length):
        ops.append(o)
        if o["k"] in ("model", "mean"):
            # both forms are the documented refresh: without arguments, or together with new conditioning values
            ops.append({"k": "set_condition"} if rng.rand() < 0.5 else {"k": "set_condition", "cond": int(rng.randint(0, 4))})
    return ops


def _fails(cv, ops, c0, m0, mu0):
    try:
        rr = run_real(cv, ops, c0, m0, mu0)["calls"]
    except Exception:       # noqa
        return None
    bad = [x for x in rr if x != "ValueError" and not x[0]]
    return bad[0] if bad else None


def _fails_uncond(cv, ops, c0, m0, mu0):
    try:
        rr = run_real(cv, ops, c0, m0, mu0)["uncond"]
    except Exception:       # noqa
        return None
    bad = [x for x in rr if x is not None and not x[0]]
    return bad[0] if bad else None


def _protocol_ok(ops):
    """every model / mean change is followed by a refresh before the next CondSRF call"""
    dirty = False
    for o in ops:
        if o["k"] in ("model", "mean"):
            dirty = True
        elif o["k"] == "set_condition":
            dirty = False
        elif o["k"] == "call" and dirty:
            return False
    return True


def shrink(cv, ops, c0, m0, mu0, _fails=_fails):
    """drop operations, then reset options to their defaults, while the failure persists (and the protocol is respected)"""
    cur = [dict(o) for o in ops]
    changed = True
    while changed:
        changed = False
        for j in range(len(cur)):
            cand = cur[:j] + cur[j + 1:]
            if _protocol_ok(cand) and _fails(cv, cand, c0, m0, mu0):
                cur, changed = cand, True
                break
        if changed:
            continue
        for j in range(len(cur)):
            for f in ("list", "sd", "keep", "re", "fn", "fs", "rfn", "rfs", "kfn", "kfs", "store", "kstore", "rn", "vn"):
                if f in cur[j]:
                    o = dict(cur[j])
                    del o[f]
                    cand = cur[:j] + [o] + cur[j + 1:]
                    if _fails(cv, cand, c0, m0, mu0):
                        cur, changed = cand, True
                        break
            if changed:
                break
    return cur


def case_dump(cv):
    return dict(describe(cv), cond_pos=cv["cp"].tolist(), conds=[c.tolist() for c in cv["conds"]], model_kwargs=cv["mparams"],
                cond_err_values=None if cv.get("err") is None else np.asarray(cv["err"]).tolist(),
                means=cv["means"], positions=[[np.asarray(a).tolist() for a in p[0]] for p in cv["poss"]],
                mesh_types=[p[1] for p in cv["poss"]], seed=SEED, crf_slot_names=CRF_SLOTS, krige_slot_names=KRIGE_SLOTS)


def history_search(ctx, n):
    """the property itself on the real object: each call of a protocol-respecting history equals a fresh object, and no
       deletion / position change leaves a stored field behind"""
    rng = np.random.RandomState(ctx.seed + 777)
    viol, ev, keys = [], 0, set()

    def examine(cv, ops, c0, m0, mu0, origin, di=None):
        nonlocal ev
        try:
            rr = run_real(cv, ops, c0, m0, mu0) if di is None else directed_run(di, cv, ops, c0, m0, mu0)
        except Exception as e:       # noqa
            key = "condsrf:history-raised:" + "-".join(kind(o) for o in ops)
            if key not in keys:
                keys.add(key)
                viol.append({"key": key, "what": "an operation other than a CondSRF call raised %s: %s" % (type(e).__name__, e),
                             "case": dict(case_dump(cv), history=ops, init=[c0, m0, mu0], origin=origin)})
            return
        real = rr["calls"]
        ev += len(real) + len(ops)
        for idx, k, left in rr["survivors"]:
            key = "condsrf:fields-survive:" + k
            if key not in keys:
                keys.add(key)
                viol.append({"key": key, "what": "stored fields remain after %s although delete_fields() / a position change / set_condition "
                                                 "removes all stored fields of the object: %s" % (k, ", ".join(left)),
                             "case": dict(case_dump(cv), history=ops[: idx + 1], init=[c0, m0, mu0], origin=origin,
                                          field_names_after=rr["names"][idx])})
        for i, u in enumerate(rr["uncond"]):
            if u is not None and not u[0]:
                cur = shrink(cv, ops, c0, m0, mu0, _fails=_fails_uncond)
                b = _fails_uncond(cv, cur, c0, m0, mu0) or u
                key = "condsrf:stale-generator:" + "-".join(kind(o) for o in cur)
                if key not in keys:
                    keys.add(key)
                    viol.append({"key": key, "what": "the unconditional field of a call differs from the one of a freshly built object with "
                                                     "the seed in force and the current model (the generator was not synchronised)",
                                 "case": dict(case_dump(cv), history=cur, init=[c0, m0, mu0], max_abs_diff=b[1], origin=origin)})
                break
        for i, a in enumerate(real):
            if a != "ValueError" and not a[0]:
                cur = shrink(cv, ops, c0, m0, mu0)
                b = _fails(cv, cur, c0, m0, mu0) or a
                kinds = "-".join(kind(o) for o in cur)
                key = "condsrf:stale-kriging:" + kinds
                if key in keys:
                    return
                keys.add(key)
                viol.append({"key": key, "what": "a call returns a field different from a freshly built object (stale kriging result or stale "
                                                 "generator state reused)",
                             "case": dict(case_dump(cv), history=cur, init=[c0, m0, mu0], max_abs_diff=b[1],
                                          note=b[2] if len(b) > 2 else "", origin=origin)})
                return

    for di, (name, cv, ops, c0, m0, mu0) in enumerate(directed_cases()):
        examine(cv, ops, c0, m0, mu0, "directed:" + name, di)
    nd = len(viol)
    for h in range(n):
        cv = concrete(rng)
        ops = protocol_history(rng, int(rng.randint(3, 14)))
        c0, m0, mu0 = int(rng.randint(0, 4)), int(rng.randint(0, 4)), int(rng.randint(0, 3))
        examine(cv, ops, c0, m0, mu0, "random")
        if len(viol) - nd >= 3:
            break
    return ev, viol


# ---------------------------------------------------------------------------------------------------------------------------
# kriging variants x model geometry x seed modes on the real CondSRF, against an independent oracle (no Lean model involved)
STRATA = ["neither", "iso-rotated", "aniso-unrotated", "aniso-rotated"]
VS_VARIANTS = ["Simple", "Ordinary", "Universal-linear", "Universal-quadratic", "Universal-callables", "ExtDrift", "Detrended",
               "Generic-drift+ext"]
ROUTES = ["direct", "inplace", "reassign"]
VS_CLASSES = {"Gaussian": {}, "Exponential": {}, "Spherical": {}, "Matern": {"nu": 1.5}, "Stable": {"alpha": 1.5}}


def iso_matrix(dim, anis, angles):
    """hand-written geometry: the linear map taking positions to the isotropic coordinates of a model whose main axes are
       rotated by the Tait-Bryan angles (planes xy, xz, yz with alternating signs) and whose transversal length scales are
       anis * len_scale"""
    rot = np.eye(dim)
    for i, (a, (p_, q_)) in enumerate(zip(angles, [(0, 1), (0, 2), (1, 2)])):
        g = np.eye(dim)
        th = (-1) ** i * a
        g[p_, p_] = g[q_, q_] = np.cos(th)
        g[p_, q_], g[q_, p_] = -np.sin(th), np.sin(th)
        rot = g @ rot
    return np.diag(1.0 / np.array([1.0] + list(anis))) @ rot.T


def geometry(rng, dim, stratum):
    k = {1: 0, 2: 1, 3: 3}[dim]
    anis = [1.0] * (dim - 1)
    angles = [0.0] * k
    if stratum in ("aniso-unrotated", "aniso-rotated"):
        anis = [float(rng.choice([0.3, 0.45, 0.6, 1.6])) for _ in range(dim - 1)]
    if stratum in ("iso-rotated", "aniso-rotated"):
        angles = [float(rng.uniform(0.25, 1.4)) * (1 if rng.rand() < 0.8 else -1) for _ in range(k)]
    return anis, angles


def drift_rows(variant, dim, pos):
    """functional drift terms on the ORIGINAL coordinates"""
    pos = [np.asarray(x, dtype=float) for x in pos]
    rows = []
    if variant in ("Universal-linear", "Universal-quadratic", "Generic-drift+ext"):
        rows += [pos[i] for i in range(dim)]
    if variant == "Universal-quadratic":
        rows += [pos[i] * pos[j] for i in range(dim) for j in range(i, dim)]
    if variant == "Universal-callables":
        rows += [_drift_a(*pos), _drift_b(*pos)]
    return rows


def brute_krige(model, T, cp, prep, pos, variant, exact):
    """kriging system assembled and solved with numpy: covariances of the hand-computed distances, unbiasedness row, drift
       rows on the original coordinates, external drift.  Returns (estimate of the prepared data, clipped variance, condition
       number of the matrix)"""
    from scipy.spatial.distance import cdist
    a, b = (T @ cp).T, (T @ pos).T
    n, m = cp.shape[1], pos.shape[1]
    ccc = model.covariance(cdist(a, a)) + model.nugget * np.eye(n)
    hct = cdist(a, b)
    cct = model.covariance(hct)
    if exact:
        cct = cct + model.nugget * (hct == 0)
    unbiased = variant not in ("Simple", "Detrended")
    rows_c = ([np.ones(n)] if unbiased else []) + drift_rows(variant, cp.shape[0], cp)
    rows_t = ([np.ones(m)] if unbiased else []) + drift_rows(variant, cp.shape[0], pos)
    if variant in ("ExtDrift", "Generic-drift+ext"):
        rows_c.append(ext_fun(*cp))
        rows_t.append(ext_fun(*pos))
    k = n + len(rows_c)
    mat = np.zeros((k, k))
    rhs = np.zeros((k, m))
    mat[:n, :n] = ccc
    rhs[:n] = cct
    for i, (rc, rt) in enumerate(zip(rows_c, rows_t)):
        mat[n + i, :n] = mat[:n, n + i] = rc
        rhs[n + i] = rt
    sol = np.linalg.solve(mat, rhs)
    est = prep @ sol[:n]
    kvar = np.maximum(model.sill - np.einsum("ij,ij->j", rhs, sol), 0.0)
    return est, kvar, float(np.linalg.cond(mat))


def variant_search(ctx, n, report):
    """every kriging variant usable as the kriging step of CondSRF x model geometry stratum (isotropic model carrying rotation
       angles / anisotropic unrotated / both / neither, dim 1-3) x how the geometry is reached (built that way / in-place
       change + refresh / re-assignment + refresh after a first field) x seed mode of the calls (new seed, same seed, NO seed
       argument, seed=np.nan) x given / other / stored positions.  Oracles: the data; krige + sqrt(kvar/var) * SRF(model, seed)
       with krige, kvar from a numpy solve of the kriging system and the SRF built independently; a freshly built object."""
    import gstools as gs
    rng = np.random.RandomState(ctx.seed + 7077)
    combos = [(v, st, r) for v in VS_VARIANTS for st in STRATA for r in ROUTES]
    order = rng.permutation(len(combos))
    ev = 0
    stats = {"cases": 0, "calls": 0, "formula_compared": 0, "ill_conditioned_skipped": 0, "keep_after_change": 0}
    side = {1: 8, 2: 4, 3: 3}
    with warnings.catch_warnings():
        warnings.simplefilter("ignore")
        for t in range(n):
            variant, stratum, route = combos[order[t % len(combos)]]
            dim = int(rng.choice([1, 2, 3], p=[0.35, 0.4, 0.25])) if stratum == "neither" else int(rng.choice([2, 3], p=[0.7, 0.3]))
            ndrift = len(drift_rows(variant, dim, [np.zeros(1)] * dim)) + (variant in ("ExtDrift", "Generic-drift+ext"))
            nc = ndrift + 1 + int(rng.randint(2, 6))
            grid = np.array(np.meshgrid(*([np.arange(side[dim])] * dim), indexing="ij")).reshape(dim, -1)
            idx = rng.choice(grid.shape[1], size=min(nc, grid.shape[1]), replace=False)
            cp = grid[:, idx] * 2.0 + rng.uniform(-0.3, 0.3, size=(dim, len(idx)))
            val = rng.randn(len(idx))
            # (Gaussian / Exponential sample their modes by inversion in dim <= 2, the others by MCMC: 20x slower to build)
            cls = str(rng.choice(sorted(VS_CLASSES), p=[0.35, 0.35, 0.14, 0.08, 0.08]))
            exact = bool(rng.rand() < 0.15)
            nug = 0.1 if exact else 0.0
            anis, angles = geometry(rng, dim, stratum)
            target = dict(var=float(rng.choice([0.5, 2.0])), len_scale=float(rng.choice([1.0, 2.0, 3.0])), nugget=nug)
            if dim > 1:
                target.update(anis=anis, angles=angles)
            tr_c = float(rng.choice([0.0, 0.3]))

            def mk(par, c=cls):
                return getattr(gs, c)(dim=dim, **VS_CLASSES[c], **par)

            def mkkrige(m):
                tr = tr_c if tr_c else None
                if variant == "Simple":
                    return gs.krige.Simple(m, cp, val, mean=0.5, exact=exact)
                if variant == "Ordinary":
                    return gs.krige.Ordinary(m, cp, val, trend=tr, exact=exact)
                if variant == "ExtDrift":
                    return gs.krige.ExtDrift(m, cp, val, ext_fun(*cp), trend=tr, exact=exact)
                if variant == "Detrended":
                    return gs.krige.Detrended(m, cp, val, trend_fun(0.4), exact=exact)
                if variant == "Generic-drift+ext":
                    return gs.krige.Krige(m, cp, val, drift_functions="linear", ext_drift=ext_fun(*cp), trend=tr, exact=exact)
                drift = {"Universal-linear": "linear", "Universal-quadratic": "quadratic",
                         "Universal-callables": [_drift_a, _drift_b]}[variant]
                return gs.krige.Universal(m, cp, val, drift, trend=tr, exact=exact)

            def offsets(pos):
                """(what was removed from the data, what is added to the raw field at pos)"""
                if variant == "Simple":
                    return 0.5 + 0 * cp[0], 0.5 + 0 * pos[0]
                if variant == "Detrended":
                    return trend_fun(0.4)(*cp), trend_fun(0.4)(*pos)
                return tr_c + 0 * cp[0], tr_c + 0 * pos[0]

            meshes = [np.hstack([cp, rng.uniform(-1, 7, size=(dim, 5))]),
                      np.hstack([cp[:, ::-1], rng.uniform(-1, 7, size=(dim, 3))])]
            dat_idx = [np.arange(cp.shape[1]), np.arange(cp.shape[1])]
            dat_val = [val, val[::-1]]
            has_ext = variant in ("ExtDrift", "Generic-drift+ext")
            seed0 = int(rng.randint(1, 10**6))
            cur = seed0
            desc = dict(variant=variant, stratum=stratum, route=route, dim=dim, cond_pos=cp.tolist(), cond_val=val.tolist(),
                        model_class=cls, model_kwargs=target, exact=exact, trend=tr_c, constructor_seed=seed0, history=[])
            try:
                mesh_id = None
                if route == "direct":
                    crf = gs.CondSRF(mkkrige(mk(target)), seed=seed0, mode_no=64)
                else:
                    # start in another geometry stratum (and another length scale / variance), generate once, then move
                    other = STRATA[(STRATA.index(stratum) + int(rng.randint(1, 4))) % 4] if dim > 1 else "neither"
                    a0, g0 = geometry(rng, dim, other)
                    start = dict(target)
                    if dim > 1:
                        start.update(anis=a0, angles=g0)
                    if rng.rand() < 0.6 or dim == 1:
                        start["len_scale"] = float(rng.choice([1.5, 4.0]))
                    if rng.rand() < 0.4:
                        start["var"] = 1.25
                    cls0 = cls if route == "inplace" else str(rng.choice(sorted(VS_CLASSES)))
                    crf = gs.CondSRF(mkkrige(mk(start, cls0)), seed=seed0, mode_no=64)
                    mesh_id = int(rng.randint(0, 2))
                    kw0 = {"ext_drift": ext_fun(*meshes[mesh_id])} if has_ext else {}
                    if rng.rand() < 0.5:
                        cur = int(rng.randint(1, 10**6))
                        kw0["seed"] = cur
                    crf(meshes[mesh_id], **kw0)
                    desc["history"].append("start: %s %r; crf(mesh %d%s)" % (cls0, start, mesh_id, ", seed=%d" % cur if "seed" in kw0 else ""))
                    if route == "inplace":
                        for k_ in ("anis", "angles", "len_scale", "var"):
                            if k_ in target and start[k_] != target[k_]:
                                setattr(crf.model, k_, target[k_])
                                desc["history"].append("crf.model.%s = %r" % (k_, target[k_]))
                    else:
                        crf.model = mk(target)
                        desc["history"].append("crf.model = %s(**model_kwargs)" % cls)
                    crf.krige.set_condition()
                    desc["history"].append("crf.krige.set_condition()")
                stats["cases"] += 1
                changed = route != "direct"
                ncalls = int(rng.randint(2, 4))
                for c_i in range(ncalls):
                    smode = str(rng.choice(["new", "same", "omit", "nan"])) if not exact else "new"
                    pmode = "given" if mesh_id is None else str(rng.choice(["given-same", "given-other", "stored"]))
                    if pmode in ("given", "given-other"):
                        mesh_id = int(rng.randint(0, 2)) if mesh_id is None else 1 - mesh_id
                    pos = meshes[mesh_id]
                    kw = {"ext_drift": ext_fun(*pos)} if has_ext else {}
                    if smode == "new":
                        cur = int(rng.randint(1, 10**6))
                        kw["seed"] = cur
                    elif smode == "same":
                        kw["seed"] = cur
                    elif smode == "nan":
                        kw["seed"] = np.nan
                    desc["history"].append("crf(%s%s)" % ("" if pmode == "stored" else "mesh %d" % mesh_id,
                                                          "" if smode == "omit" else ", seed=%s" % kw["seed"]))
                    got = crf(**kw) if pmode == "stored" else crf(pos, **kw)
                    ev += 1
                    stats["calls"] += 1
                    stats["keep_after_change"] += int(changed and smode in ("omit", "nan"))
                    changed = False
                    case = dict(desc, history=list(desc["history"]), seed_in_force=cur, seed_mode=smode, positions=pmode,
                                target_pos=pos.tolist())
                    # (a) the data
                    tol = 1e-6 * (1 + np.abs(val).max())
                    if not np.allclose(got[dat_idx[mesh_id]], dat_val[mesh_id], atol=tol):
                        report({"key": "condsrf:variants:data-not-honoured:%s:%s" % (variant, stratum),
                                "what": "conditioned field differs from the data at the conditioning locations (zero measurement error)",
                                "case": case, "max_abs_diff": float(np.max(np.abs(got[dat_idx[mesh_id]] - dat_val[mesh_id])))})
                    # (c) a freshly built object with the seed in force (the last call of a case; the histories above compare
                    #     every call with a fresh object)
                    if c_i == ncalls - 1:
                        fkw = {"ext_drift": ext_fun(*pos)} if has_ext else {}
                        fresh = gs.CondSRF(mkkrige(mk(target)), seed=cur, mode_no=64)(pos, **fkw)
                        ev += 1
                        if not np.allclose(got, fresh, atol=1e-9 * (1 + np.abs(fresh).max())):
                            report({"key": "condsrf:variants:not-fresh:%s:seed-%s" % (route, smode),
                                    "what": "conditioned field differs from the one of a freshly built object (same data, model, seed in force)",
                                    "case": case, "max_abs_diff": float(np.max(np.abs(got - fresh)))})
                    # (b) the defining formula from independent parts
                    # (the structured part only: a plain SRF adds its own nugget noise, CondSRF scales that separately)
                    raw = gs.SRF(mk(dict(target, nugget=0.0)), seed=cur, mode_no=64)(pos)
                    own_raw = np.asarray(crf["raw_field"])
                    ev += 1
                    raw_ok = bool(np.allclose(own_raw, raw, atol=1e-9 * (1 + np.abs(raw).max())))
                    if not raw_ok:
                        report({"key": "condsrf:variants:unconditional-part:%s:seed-%s" % (route, smode),
                                "what": "the unconditional field entering the conditioned field is not SRF(current model, seed in force)(pos)",
                                "case": case, "max_abs_diff": float(np.max(np.abs(own_raw - raw)))})
                    off_c, off_t = offsets(pos)
                    ref = mk(target)
                    est, kvar, cnd = brute_krige(ref, iso_matrix(dim, anis, angles), cp, val - off_c, pos, variant, exact)
                    if cnd > 1e7:
                        stats["ill_conditioned_skipped"] += 1
                        continue
                    ev += 1
                    stats["formula_compared"] += 1
                    sc = 1 + np.abs(est).max()
                    own_k, own_v = np.asarray(crf["raw_krige"]), np.asarray(crf.krige["krige_var"])
                    part_ok = np.allclose(own_k, est, atol=1e-7 * sc) and np.allclose(own_v, kvar, atol=1e-7 * (1 + ref.sill))
                    if not part_ok:
                        report({"key": "condsrf:variants:kriging-part:%s:%s" % (variant, stratum),
                                "what": "raw kriging field / kriging variance used by CondSRF differ from the kriging system solved with numpy "
                                        "(covariances of anisotropic distances, drift terms on the original coordinates)",
                                "case": case, "max_abs_diff_estimate": float(np.max(np.abs(own_k - est))),
                                "max_abs_diff_variance": float(np.max(np.abs(own_v - kvar))), "condition_number": cnd})
                    if nug == 0 and part_ok and raw_ok:      # (a wrong part is reported above)
                        want = est + np.sqrt(kvar / ref.var) * raw + off_t
                        if not np.allclose(got, want, atol=1e-7 * (1 + np.abs(want).max())):
                            report({"key": "condsrf:variants:formula:%s:%s" % (variant, stratum),
                                    "what": "conditioned field is not trend/mean + krige + sqrt(kvar/var) * SRF(model, seed)(pos) with krige, kvar "
                                            "from an independently solved kriging system and an independently built SRF",
                                    "case": case, "max_abs_diff": float(np.max(np.abs(got - want))), "condition_number": cnd})
            except Exception as e:       # noqa
                report({"key": "condsrf:variants:raised:%s" % variant, "what": "%s: %s" % (type(e).__name__, e), "case": desc})
    return ev, stats


# ---------------------------------------------------------------------------------------------------------------------------
# wave 6: (1) the conditions of a CondSRF are the VALUES given at set_condition time; (4) partial set_condition calls keep every
# other setting.  Both on the real objects against independent oracles (numpy solve on snapshots + an independently built SRF)
# and against freshly built objects with the same visible state.
W6_VARIANTS = ["Simple", "Ordinary", "Universal-linear", "ExtDrift", "Detrended"]


def _w6_layout(rng, dim, n):
    side = {1: 12, 2: 4, 3: 3}[dim]
    grid = np.array(np.meshgrid(*([np.arange(side)] * dim), indexing="ij")).reshape(dim, -1)
    idx = rng.choice(grid.shape[1], size=min(n, grid.shape[1]), replace=False)
    return grid[:, idx] * 2.0 + rng.uniform(-0.3, 0.3, size=(dim, len(idx)))


def _w6_krige(variant, model, cp, val, err, ext=None, mean=0.5, trend=None, normalizer=None, exact=False):
    import gstools as gs
    kw = dict(cond_err=err, exact=exact)
    if variant == "Simple":
        return gs.krige.Simple(model, cp, val, mean=mean, normalizer=normalizer, trend=trend, **kw)
    if variant == "Ordinary":
        return gs.krige.Ordinary(model, cp, val, normalizer=normalizer, trend=trend, **kw)
    if variant == "Universal-linear":
        return gs.krige.Universal(model, cp, val, "linear", normalizer=normalizer, trend=trend, **kw)
    if variant == "ExtDrift":
        return gs.krige.ExtDrift(model, cp, val, ext, normalizer=normalizer, trend=trend, **kw)
    return gs.krige.Detrended(model, cp, val, trend_fun(0.4), **kw)


def _w6_oracle(kc, variant, ref_model, T, cp, val, err, pos, ext_c=None, ext_t=None, mean=0.5, trend=None, norm=None, exact=False):
    """independent kriging part: numpy solve of the system assembled from ref_model.covariance of hand-computed distances"""
    tr_c, tr_t = (0.0, 0.0) if trend is None else (trend, trend)
    mu = mean if variant == "Simple" else 0.0
    if variant == "Detrended":
        tr_c, tr_t = trend_fun(0.4)(*cp), trend_fun(0.4)(*pos)
    z = kc.ref_normalize(norm, np.asarray(val, dtype=float) - tr_c) - mu
    n = cp.shape[1]
    e = np.full(n, float(ref_model.nugget)) if isinstance(err, str) else np.broadcast_to(np.asarray(err, dtype=float), (n,))
    rows_c = list(cp) if variant == "Universal-linear" else []
    rows_t = list(pos) if variant == "Universal-linear" else []
    if variant == "ExtDrift":
        rows_c, rows_t = [np.asarray(ext_c, dtype=float).reshape(-1)], [np.asarray(ext_t, dtype=float).reshape(-1)]
    ref = kc.hand_solve(ref_model.covariance, float(ref_model.var) + float(ref_model.nugget), (T @ cp).T, (T @ pos).T, z, e,
                        unbiased=variant not in ("Simple", "Detrended"), rows_c=rows_c, rows_t=rows_t, exact=exact)
    ref.update(z=z, mu=mu, tr_t=tr_t)
    return ref


def aliasing_search(ctx, n, report):
    """CondSRF on Krige objects built from caller-owned containers (float64 (dim, n) arrays, tuples / lists of 1-D arrays, 1-D arrays,
       columns, Fortran order; value / error / drift arrays; controls: lists, integer arrays, data with a NaN); the caller modifies
       its containers IN PLACE (scale, shift, noise, reorder) after a first field, WITHOUT set_condition; then fields at the stored
       mesh (kriging cache reused), the same mesh given again and a new mesh: the public cond_val / cond_pos / cond_err / cond_ext_drift
       are the values given when set, the field honours krige.cond_val at krige.cond_pos and the data as set (zero error), equals a
       freshly built object made from the snapshot (same seed), and its kriging part equals the numpy solve of the snapshot"""
    import gstools as gs
    import krige_cases as kc
    rng = np.random.RandomState(ctx.seed + 7177)
    ev, stats = 0, {"cases": 0, "calls": 0, "containers": {}, "modified": {}}
    with warnings.catch_warnings():
        warnings.simplefilter("ignore")
        for t in range(n):
            variant = W6_VARIANTS[t % len(W6_VARIANTS)]
            dim = int(rng.choice([1, 2, 2, 3], p=[0.3, 0.3, 0.3, 0.1]))
            nc = int(rng.randint(3, 7)) + {"Universal-linear": dim + 1, "ExtDrift": 2}.get(variant, 0)
            cp0 = _w6_layout(rng, dim, nc)
            nc = cp0.shape[1]
            val0 = rng.randn(nc)
            witherr = bool(rng.rand() < 0.35)
            err0 = rng.randint(1, 4, nc) / 16.0 if witherr else "nugget"
            ext0 = ext_fun(*cp0) + 0.3 * rng.randn(nc) if variant == "ExtDrift" else None
            cls = str(rng.choice(["Gaussian", "Exponential"]))
            mpar = dict(dim=dim, var=float(rng.choice([0.5, 2.0])), len_scale=float(rng.choice([1.5, 3.0])))
            anis, angles = [1.0] * (dim - 1), [0.0] * {1: 0, 2: 1, 3: 3}[dim]
            if dim > 1 and rng.rand() < 0.5:
                anis, angles = geometry(rng, dim, "aniso-rotated")
                mpar.update(anis=anis, angles=angles)
            mk = lambda: getattr(gs, cls)(**mpar)       # noqa
            cfgm = dict(cond_pos=cp0, cond_val=val0, cond_err=err0, ext=None if ext0 is None else (ext0.reshape(1, -1), None), norm=None)
            given, tag = kc.caller_arrays(rng, cfgm)
            val0 = np.array(cfgm["cond_val"], dtype=float)      # (the integer control rounds the values)
            snap = dict(cp=cp0.copy(), val=val0.copy(), err=err0 if isinstance(err0, str) else err0.copy(), ext=None if ext0 is None else ext0.copy())
            desc = dict(variant=variant, dim=dim, model_class=cls, model_kwargs=mpar, cond_pos=cp0.tolist(), cond_val=val0.tolist(),
                        cond_err=err0 if isinstance(err0, str) else err0.tolist(), ext_drift=None if ext0 is None else ext0.tolist(),
                        containers=tag, history=[])
            try:
                kr = _w6_krige(variant, mk(), given["cond_pos"][0], given["cond_val"][0], given["cond_err"][0] if "cond_err" in given else "nugget",
                               ext=given["ext_drift"][0] if "ext_drift" in given else None)
                seed0 = int(rng.randint(1, 10**6))
                crf = gs.CondSRF(kr, seed=seed0, mode_no=64)
                meshes = [np.hstack([cp0, rng.uniform(-1, 7, size=(dim, 4))]), np.hstack([cp0, rng.uniform(-1, 7, size=(dim, 3))])]
                ekw = lambda p: {"ext_drift": np.concatenate([snap["ext"], ext_fun(*p[:, nc:])])} if variant == "ExtDrift" else {}      # noqa
                crf(meshes[0].copy(), seed=seed0, **ekw(meshes[0]))
                desc["history"].append("crf(mesh 0, seed=%d)" % seed0)
            except Exception as e:       # noqa
                report({"key": "condsrf:caller-array-aliased:raised-at-construction", "what": "%s: %s" % (type(e).__name__, e), "case": desc})
                continue
            stats["cases"] += 1
            stats["containers"][tag] = stats["containers"].get(tag, 0) + 1
            roles = sorted(given)
            chosen = [str(rng.choice(roles))] if rng.rand() < 0.7 else ([r for r in roles if rng.rand() < 0.6] or [roles[0]])
            for r in chosen:
                kd = str(rng.choice(["scale", "shift", "noise", "reorder"]))
                for b in given[r][1]:
                    kc._mutate(b, "scale" if (r == "cond_err" and kd in ("shift", "noise")) else kd, rng)
                stats["modified"][r + ":" + kd] = stats["modified"].get(r + ":" + kd, 0) + 1
                desc["history"].append("caller modifies its %s container in place (%s)" % (r, kd))
            T = iso_matrix(dim, anis, angles)
            cur = {"mid": 0}          # the mesh the object has stored

            def visible():
                bad = []
                k = crf.krige
                if not np.array_equal(np.asarray(k.cond_val, dtype=float).reshape(-1), snap["val"]):
                    bad.append("cond_val")
                if not np.array_equal(np.asarray(k.cond_pos, dtype=float).reshape(dim, -1), snap["cp"]):
                    bad.append("cond_pos")
                want_e = np.zeros(nc) if isinstance(snap["err"], str) else snap["err"]
                if np.shape(k.cond_err) not in ((), (nc,)) or not np.array_equal(np.broadcast_to(np.asarray(k.cond_err, dtype=float), (nc,)), want_e):
                    bad.append("cond_err")
                if snap["ext"] is not None and not np.array_equal(np.asarray(k.cond_ext_drift, dtype=float).reshape(-1), snap["ext"]):
                    bad.append("ext_drift")
                return bad

            def examine(suffix, plan):
                nonlocal ev
                vis = visible()
                ev += 1
                rl = "+".join(vis) if vis else "unobserved(" + "+".join(sorted(chosen)) + ")"
                if vis:
                    report({"key": "condsrf:caller-array-aliased:%s:visible-state%s" % (rl, suffix),
                            "what": "after the caller modified its own arrays in place (no set_condition call) the public %s of crf.krige differ from "
                                    "the values given when the conditions were set" % ", ".join(vis), "case": dict(desc, history=list(desc["history"]))})
                for how, mid in plan:
                    seed = int(rng.randint(1, 10**6))
                    mid = cur["mid"] if how == "stored" else mid
                    cur["mid"] = mid
                    pos = meshes[mid]
                    desc["history"].append("crf(%s, seed=%d)" % ("" if how == "stored" else "mesh %d" % mid, seed))
                    case = dict(desc, history=list(desc["history"]), target_pos=pos.tolist())
                    try:
                        got = crf(seed=seed, **ekw(pos)) if how == "stored" else crf(pos.copy(), seed=seed, **ekw(pos))
                        fresh = gs.CondSRF(_w6_krige(variant, mk(), snap["cp"].copy(), snap["val"].copy(),
                                                     snap["err"] if isinstance(snap["err"], str) else snap["err"].copy(),
                                                     ext=None if snap["ext"] is None else snap["ext"].copy()), seed=seed, mode_no=64)(pos.copy(), **ekw(pos))
                    except Exception as e:       # noqa
                        report({"key": "condsrf:caller-array-aliased:%s:raised%s" % (rl, suffix), "what": "%s: %s" % (type(e).__name__, e), "case": case})
                        continue
                    ev += 3
                    stats["calls"] += 1
                    if isinstance(snap["err"], str):       # zero measurement error: the data as set are honoured ...
                        if not np.allclose(got[:nc], snap["val"], atol=1e-6 * (1 + np.abs(snap["val"]).max())):
                            report({"key": "condsrf:caller-array-aliased:%s:data-not-honoured%s" % (rl, suffix),
                                    "what": "the conditioned field does not honour the data as they were when set (the caller modified %s in place "
                                            "afterwards, no set_condition)" % ", ".join(sorted(chosen)), "case": case,
                                    "max_abs_diff": float(np.max(np.abs(got[:nc] - snap["val"])))})
                        # ... and so are the conditions the object itself reports
                        k = crf.krige
                        rp, rv = np.asarray(k.cond_pos, dtype=float).reshape(dim, -1), np.asarray(k.cond_val, dtype=float).reshape(-1)
                        if rp.shape != (dim, nc) or not np.allclose(rp, pos[:, :nc]) or not np.allclose(got[:nc], rv, atol=1e-6 * (1 + np.abs(rv).max())):
                            report({"key": "condsrf:caller-array-aliased:%s:reported-conditions-not-honoured%s" % (rl, suffix),
                                    "what": "the conditioned field does not equal krige.cond_val at krige.cond_pos", "case": case})
                    if not (np.shape(got) == np.shape(fresh) and np.allclose(got, fresh, atol=1e-9 * (1 + np.abs(fresh).max()))):
                        report({"key": "condsrf:caller-array-aliased:%s:field%s" % (rl, suffix),
                                "what": "the conditioned field differs from the one of a freshly built object made from a snapshot of the conditions as "
                                        "they were when set (same model, same seed)", "case": case,
                                "max_abs_diff": float(np.max(np.abs(got - fresh))) if np.shape(got) == np.shape(fresh) else None})
                    ref = _w6_oracle(kc, variant, mk(), T, snap["cp"], snap["val"], snap["err"], pos, ext_c=snap["ext"],
                                     ext_t=ekw(pos).get("ext_drift"))
                    if ref["cond"] <= 1e7:
                        own_k, own_v = np.asarray(crf["raw_krige"]), np.asarray(crf.krige["krige_var"])
                        tol = 1e-9 * max(ref["cond"], 1) * (1 + np.abs(ref["raw"]).max())
                        if not (np.allclose(own_k, ref["raw"], atol=tol) and np.allclose(own_v, ref["var"], atol=tol)):
                            report({"key": "condsrf:caller-array-aliased:%s:estimate%s" % (rl, suffix),
                                    "what": "raw kriging field / kriging variance behind the conditioned field differ from the numpy solve of the conditions "
                                            "as they were when set", "case": case, "condition_number": ref["cond"],
                                    "max_abs_diff_estimate": float(np.max(np.abs(own_k - ref["raw"]))), "max_abs_diff_variance": float(np.max(np.abs(own_v - ref["var"])))})

            examine("", [("stored", 0), ("given", 0), ("given", 1)][: int(rng.randint(2, 4))] if rng.rand() < 0.7 else [("given", 1), ("stored", 1)])
            if rng.rand() < 0.4:
                try:
                    crf.krige.set_condition()
                    desc["history"].append("crf.krige.set_condition()")
                except Exception as e:       # noqa
                    report({"key": "condsrf:caller-array-aliased:raised-at-refresh", "what": "%s: %s" % (type(e).__name__, e), "case": desc})
                    continue
                examine("-after-refresh", [("stored", 1) if rng.rand() < 0.5 else ("given", 0)])
    return ev, stats


def partial_condition_search(ctx, n, report):
    """objects built with explicit settings — measurement errors (float / per-point array, exact=False), external drift, normalizer,
       trend / mean — then PARTIAL set_condition calls: new values alone, new positions + values (+ drift), the argument-less refresh
       after an in-place model change, fit_normalizer alone, new drift alone, new errors alone, values + errors.  Every setting that
       the call does not name must stay in force: after each step the conditioned field (same seed) equals a freshly built object
       with the same visible state and trend + denormalize(mean + krige + sqrt(kvar/var) * SRF(model, seed)) with krige / kvar from a
       numpy solve carrying the CURRENT errors on the diagonal; krige.cond_err reports them; noisy observations are not interpolated"""
    import gstools as gs
    import krige_cases as kc
    rng = np.random.RandomState(ctx.seed + 7277)
    ev, stats = 0, {"cases": 0, "steps": {}, "err_kinds": {}, "normalizers": {}, "compared": 0, "ill_conditioned_skipped": 0}
    with warnings.catch_warnings():
        warnings.simplefilter("ignore")
        for t in range(n):
            variant = W6_VARIANTS[t % len(W6_VARIANTS)]
            dim = int(rng.choice([1, 2, 2, 3], p=[0.3, 0.3, 0.3, 0.1]))
            cls = str(rng.choice(["Gaussian", "Exponential"]))
            S = dict(var=float(rng.choice([0.5, 2.0])), L=float(rng.choice([1.5, 3.0])), mean=float(rng.choice([0.0, 0.5])),
                     trend=None if (variant in ("Simple", "Detrended") or rng.rand() < 0.5) else float(rng.choice([0.3, -0.4])),
                     norm=None)
            anis, angles = [1.0] * (dim - 1), [0.0] * {1: 0, 2: 1, 3: 3}[dim]
            if dim > 1 and rng.rand() < 0.4:
                anis, angles = geometry(rng, dim, "aniso-rotated")
            if variant != "Detrended" and rng.rand() < 0.5:
                S["norm"] = dict(kind=str(rng.choice(["LogNormal", "BoxCox"])), lmbda=float(rng.choice([0.5, 1.5])), shift=0.0)
                if S["norm"]["kind"] == "LogNormal":
                    S["norm"]["lmbda"] = 1.0
            ekind = str(rng.choice(["float", "array", "array", "nugget"], p=[0.3, 0.3, 0.3, 0.1]))

            def mkmodel():
                kw = dict(dim=dim, var=S["var"], len_scale=S["L"])
                if dim > 1:
                    kw.update(anis=anis, angles=angles)
                return getattr(gs, cls)(**kw)

            def new_pos(k=None):
                k = int(rng.randint(3, 7)) + {"Universal-linear": dim + 1, "ExtDrift": 2}.get(variant, 0) if k is None else k
                return _w6_layout(rng, dim, k)

            def new_val(cp):
                g = 0.7 * rng.randn(cp.shape[1])
                tr = trend_fun(0.4)(*cp) if variant == "Detrended" else (S["trend"] or 0.0)
                mu = S["mean"] if variant == "Simple" else 0.0
                if S["norm"] is None:
                    return tr + mu + 1.5 * g
                lo, hi = kc.gauss_range(S["norm"])
                return tr + kc.ref_denormalize(S["norm"], np.clip(mu + g, lo, hi))

            def new_err(k):
                if ekind == "float":
                    return float(rng.choice([0.0625, 0.125, 0.25]))
                if ekind == "array":
                    return rng.randint(1, 5, k) / 16.0
                return "nugget"

            def new_ext(cp):
                return ext_fun(*cp) + 0.3 * rng.randn(cp.shape[1])

            def mkkrige(model):
                return _w6_krige(variant, model, S["cp"].copy(), S["val"].copy(), S["err"] if isinstance(S["err"], (str, float)) else S["err"].copy(),
                                 ext=None if S["ext"] is None else S["ext"].copy(), mean=S["mean"], trend=S["trend"],
                                 normalizer=kc.make_normalizer(S["norm"]))

            S["cp"] = new_pos()
            nc = S["cp"].shape[1]
            S["val"], S["err"], S["ext"] = new_val(S["cp"]), new_err(nc), (new_ext(S["cp"]) if variant == "ExtDrift" else None)
            desc = dict(variant=variant, dim=dim, model_class=cls, anis=anis, angles=angles, error_kind=ekind, history=[])
            stats["err_kinds"][ekind] = stats["err_kinds"].get(ekind, 0) + 1
            nk = "none" if S["norm"] is None else S["norm"]["kind"]
            stats["normalizers"][nk] = stats["normalizers"].get(nk, 0) + 1

            def state():
                return {k: (v.tolist() if isinstance(v, np.ndarray) else v) for k, v in S.items()}
            try:
                seed0 = int(rng.randint(1, 10**6))
                crf = gs.CondSRF(mkkrige(mkmodel()), seed=seed0, mode_no=64)
                desc["history"].append("built: " + repr(state()))
            except Exception as e:       # noqa
                report({"key": "condsrf:partial-set-condition:raised-at-construction", "what": "%s: %s" % (type(e).__name__, e), "case": desc})
                continue
            stats["cases"] += 1
            have_pos = False

            def compare(step):
                nonlocal ev, have_pos
                cp, nc_ = S["cp"], S["cp"].shape[1]
                seed = int(rng.randint(1, 10**6))
                stored = have_pos and step not in ("pos+val",) and rng.rand() < 0.4
                if not stored:
                    compare.pos = np.hstack([cp, rng.uniform(-1, 7, size=(dim, 4))])
                pos = compare.pos
                if pos.shape[0] != dim:
                    return
                ekw = {"ext_drift": np.concatenate([S["ext"], ext_fun(*pos[:, nc_:])])} if variant == "ExtDrift" and pos.shape[1] == nc_ + 4 else {}
                if variant == "ExtDrift" and not ekw:
                    ekw = {"ext_drift": ext_fun(*pos)}
                desc["history"].append("crf(%sseed=%d)" % ("" if stored else "targets, ", seed))
                case = dict(desc, history=list(desc["history"]), expected_state=state(), target_pos=pos.tolist())
                try:
                    got = crf(seed=seed, **ekw) if stored else crf(pos.copy(), seed=seed, **ekw)
                    have_pos = True
                    fresh_o = gs.CondSRF(mkkrige(mkmodel()), seed=seed, mode_no=64)
                    fresh = fresh_o(pos.copy(), **ekw)
                except Exception as e:       # noqa
                    report({"key": "condsrf:partial-set-condition:%s:raised" % step, "what": "%s: %s" % (type(e).__name__, e), "case": case})
                    return
                ev += 2
                k = crf.krige
                want_e = np.zeros(nc_) if isinstance(S["err"], str) else np.broadcast_to(np.asarray(S["err"], dtype=float), (nc_,))
                if np.shape(k.cond_err) not in ((), (nc_,)) or not np.array_equal(np.broadcast_to(np.asarray(k.cond_err, dtype=float), (nc_,)), want_e):
                    report({"key": "condsrf:partial-set-condition:%s:cond_err-not-kept" % step,
                            "what": "krige.cond_err after the partial set_condition call is not the measurement error in force (the one given at "
                                    "construction / by the last call that named cond_err)", "case": case,
                            "got": np.asarray(k.cond_err, dtype=float).tolist(), "want": want_e.tolist()})
                if S["ext"] is not None and not np.array_equal(np.asarray(k.cond_ext_drift, dtype=float).reshape(-1), S["ext"]):
                    report({"key": "condsrf:partial-set-condition:%s:ext_drift-not-kept" % step,
                            "what": "krige.cond_ext_drift after the partial set_condition call is not the external drift in force", "case": case})
                if not (np.shape(got) == np.shape(fresh) and np.allclose(got, fresh, atol=1e-9 * (1 + np.abs(fresh).max()), equal_nan=True)):
                    report({"key": "condsrf:partial-set-condition:%s:not-fresh" % step,
                            "what": "after set_condition(%s) the conditioned field differs from the one of a freshly built object with the same visible "
                                    "state (conditions, measurement errors, drift, normalizer, trend / mean, model; same seed)" % step, "case": case,
                            "max_abs_diff": float(np.nanmax(np.abs(got - fresh))) if np.shape(got) == np.shape(fresh) else None})
                ref_model = mkmodel()
                ref = _w6_oracle(kc, variant, ref_model, iso_matrix(dim, anis, angles), cp, S["val"], S["err"], pos, ext_c=S["ext"],
                                 ext_t=ekw.get("ext_drift"), mean=S["mean"], trend=S["trend"], norm=S["norm"])
                if ref["cond"] > 1e7 or not np.all(np.isfinite(ref["z"])):
                    stats["ill_conditioned_skipped"] += 1
                    return
                ev += 2
                stats["compared"] += 1
                own_k, own_v = np.asarray(crf["raw_krige"]), np.asarray(crf.krige["krige_var"])
                tol = 1e-9 * max(ref["cond"], 1) * (1 + np.abs(ref["raw"]).max())
                part_ok = np.allclose(own_k, ref["raw"], atol=tol) and np.allclose(own_v, ref["var"], atol=tol)
                if not part_ok:
                    dev_ref = float(np.max(np.abs(ref["raw"][:nc_] - ref["z"])))
                    dev_own = float(np.max(np.abs(own_k[:nc_] - ref["z"])))
                    dropped = bool(np.all(want_e > 0) and dev_ref > 1e-3 and dev_own < 1e-6 * (1 + dev_ref))
                    report({"key": "condsrf:partial-set-condition:%s:%s" % (step, "errors-dropped" if dropped else "kriging-part"),
                            "what": ("after set_condition(%s) the kriging part interpolates the noisy observations exactly: the measurement errors given "
                                     "earlier are no longer in force" % step) if dropped else
                                    ("after set_condition(%s) the raw kriging field / kriging variance differ from the numpy solve of the kriging system of "
                                     "the current state (errors on the diagonal, drift, prepared data)" % step), "case": case, "condition_number": ref["cond"],
                            "max_abs_diff_estimate": float(np.max(np.abs(own_k - ref["raw"]))), "max_abs_diff_variance": float(np.max(np.abs(own_v - ref["var"])))})
                    return
                raw = gs.SRF(ref_model, seed=seed, mode_no=64)(pos)
                y = ref["mu"] + ref["raw"] + np.sqrt(ref["var"] / ref_model.var) * raw
                want = ref["tr_t"] + kc.ref_denormalize(S["norm"], y)
                # tolerance: the tolerance of the kriging parts on the normalised scale, carried through the local
                # slope of denormalize (unbounded at the edge of its domain: points whose neighbourhood leaves the domain are skipped)
                # (the kriging parts were compared within `tol` above; the square root carries a variance difference of that size near zero
                #  variance — at the data — into the field with unbounded slope: that verified difference is granted, nothing else)
                dy = 1e-9 * (1 + np.abs(y)) + tol + np.abs(np.sqrt(own_v) - np.sqrt(ref["var"])) / np.sqrt(ref_model.var) * np.abs(raw)
                with np.errstate(all="ignore"):
                    lo_, hi_ = kc.ref_denormalize(S["norm"], y - dy), kc.ref_denormalize(S["norm"], y + dy)
                fin = np.isfinite(want) & np.isfinite(lo_) & np.isfinite(hi_)
                slack = 2 * np.maximum(np.abs(hi_ - kc.ref_denormalize(S["norm"], y)), np.abs(lo_ - kc.ref_denormalize(S["norm"], y))) + 1e-9 * (1 + np.abs(want))
                if not (np.array_equal(np.isfinite(want), np.isfinite(got)) and np.all(np.abs(got[fin] - want[fin]) <= slack[fin])):
                    report({"key": "condsrf:partial-set-condition:%s:formula" % step,
                            "what": "conditioned field is not trend + denormalize(mean + krige + sqrt(kvar/var) * SRF(model, seed)) of the current state",
                            "case": case, "max_abs_diff": float(np.nanmax(np.abs(got - want)))})

            compare("constructed")
            for _ in range(int(rng.randint(1, 4))):
                forms = ["val", "val", "pos+val", "refresh-after-model-change", "refresh"]
                if S["norm"] is not None and S["norm"]["kind"] == "BoxCox":
                    forms.append("fit_normalizer")
                if variant == "ExtDrift":
                    forms.append("ext")
                if ekind != "nugget":
                    forms += ["err", "val+err"]
                step = str(rng.choice(forms))
                stats["steps"][step] = stats["steps"].get(step, 0) + 1
                kr = crf.krige
                try:
                    if step == "val":
                        S["val"] = new_val(S["cp"])
                        kr.set_condition(cond_val=S["val"].copy())
                    elif step == "pos+val":
                        S["cp"] = new_pos(S["cp"].shape[1] if isinstance(S["err"], np.ndarray) or rng.rand() < 0.5 else None)
                        S["val"] = new_val(S["cp"])
                        if isinstance(S["err"], np.ndarray) and S["cp"].shape[1] != len(S["err"]):
                            raise RuntimeError("layout")
                        if variant == "ExtDrift":
                            S["ext"] = new_ext(S["cp"])
                            kr.set_condition(S["cp"].copy(), S["val"].copy(), ext_drift=S["ext"].copy())
                        elif rng.rand() < 0.5:
                            kr.set_condition(S["cp"].copy(), S["val"].copy())
                        else:
                            kr.set_condition(cond_pos=tuple(S["cp"].copy()), cond_val=S["val"].copy())
                    elif step == "refresh-after-model-change":
                        S["L"] = float(rng.choice([x for x in (1.0, 1.5, 2.5, 3.0) if x != S["L"]]))
                        crf.model.len_scale = S["L"]
                        if rng.rand() < 0.5:
                            S["var"] = float(rng.choice([0.75, 1.25]))
                            crf.model.var = S["var"]
                        kr.set_condition()
                    elif step == "refresh":
                        kr.set_condition()
                    elif step == "fit_normalizer":
                        kr.set_condition(fit_normalizer=True)
                        S["norm"] = dict(S["norm"], lmbda=float(kr.normalizer.lmbda))       # (what the fit returns is C18's subject)
                    elif step == "ext":
                        S["ext"] = new_ext(S["cp"])
                        kr.set_condition(ext_drift=S["ext"].copy())
                    elif step == "err":
                        S["err"] = new_err(S["cp"].shape[1])
                        kr.set_condition(cond_err=S["err"] if isinstance(S["err"], float) else S["err"].copy())
                    else:
                        S["val"], S["err"] = new_val(S["cp"]), new_err(S["cp"].shape[1])
                        kr.set_condition(cond_val=S["val"].copy(), cond_err=S["err"] if isinstance(S["err"], float) else S["err"].copy())
                except RuntimeError:
                    break
                except Exception as e:       # noqa
                    report({"key": "condsrf:partial-set-condition:%s:raised" % step, "what": "%s: %s" % (type(e).__name__, e),
                            "case": dict(desc, history=list(desc["history"]), expected_state=state())})
                    break
                desc["history"].append("krige.set_condition: " + step)
                compare(step)
    return ev, stats


def search(ctx, deep=False):
    import gstools as gs
    rng = np.random.RandomState(ctx.seed + 77)
    N = ctx.scale(25, 200) * (3 if deep else 1)
    ev, viol = history_search(ctx, ctx.scale(26, 400) * (3 if deep else 1))
    seen = set()

    def report(v):
        if v["key"] not in seen:
            seen.add(v["key"])
            viol.append(v)

    ev_v, vstats = variant_search(ctx, ctx.scale(96, 960) * (2 if deep else 1), report)
    ev += ev_v
    ev_a, astats = aliasing_search(ctx, ctx.scale(40, 400) * (2 if deep else 1), report)
    ev_p, pstats = partial_condition_search(ctx, ctx.scale(45, 450) * (2 if deep else 1), report)
    ev += ev_a + ev_p

    with warnings.catch_warnings():
        warnings.simplefilter("ignore")
        for t in range(N):
            dim = int(rng.randint(1, 4))
            n = int(rng.randint(2, 7))
            grid = np.array(np.meshgrid(*([np.arange(4)] * dim), indexing="ij")).reshape(dim, -1)
            idx = rng.choice(grid.shape[1], size=min(n, grid.shape[1]), replace=False)
            cp = grid[:, idx] * 2.0 + rng.uniform(-0.3, 0.3, size=(dim, len(idx)))
            cv = rng.randn(len(idx))
            cls = str(rng.choice(["Gaussian", "Exponential", "Spherical", "Matern"]))
            nug = float(rng.choice([0.0, 0.0, 0.1]))
            kw = {}
            if dim > 1 and rng.rand() < 0.5:       # anisotropic, rotated models
                kw = dict(anis=[float(rng.choice([0.3, 0.6]))] * (dim - 1), angles=[float(rng.uniform(0, 1.5))] * (1 if dim == 2 else 3))
            var = float(rng.choice([0.5, 2.0]))
            mk = lambda: getattr(gs, cls)(dim=dim, var=var, len_scale=float(ls), nugget=nug, **kw)      # noqa
            ls = rng.choice([1.0, 3.0])
            model = mk()
            variant = str(rng.choice(["Simple", "Ordinary", "Universal"]))
            exact = nug > 0

            def mkkrige(m):
                if variant == "Simple":
                    return gs.krige.Simple(m, cp, cv, mean=0.5, exact=exact)
                if variant == "Ordinary":
                    return gs.krige.Ordinary(m, cp, cv, exact=exact)
                return gs.krige.Universal(m, cp, cv, drift_functions=0, exact=exact)
            kr = mkkrige(model)
            crf = gs.CondSRF(kr, mode_no=64)
            desc = dict(dim=dim, cond_pos=cp.tolist(), cond_val=cv.tolist(), model=repr(model), variant=variant)
            far = cp.max() + 200.0 * model.len_scale
            pos = np.hstack([cp, rng.uniform(-1, 8, size=(dim, 4)), np.full((dim, 1), far)])
            for seed in rng.randint(0, 10**6, size=3):
                f = crf(pos, seed=int(seed))
                ev += 1
                tol = 1e-6 * (1 + np.abs(cv).max())
                if not np.allclose(f[: cp.shape[1]], cv, atol=tol):
                    report({"key": f"condsrf:data-not-honoured:{variant}", "what": "conditioned field differs from the data at a conditioning location",
                            "case": dict(desc, seed=int(seed)), "got": f[: cp.shape[1]].tolist()})
                raw, rk, kv = crf["raw_field"], crf["raw_krige"], crf.krige["krige_var"]
                if nug == 0:
                    want = rk + np.sqrt(kv / model.var) * raw
                    got = crf(pos, seed=int(seed), post_process=False)
                    if not np.allclose(got, want, atol=1e-10):
                        report({"key": "condsrf:formula", "what": "conditioned field is not krige + sqrt(kvar/var)*raw", "case": dict(desc, seed=int(seed))})
                    # the same from an independent kriging solve (a second Krige object on a second model object) and a plain SRF of the
                    # same seed: also beyond the sill (unbiased kriging far from the data: kvar > var) and for anisotropic models
                    kfield, kvar2 = mkkrige(mk())(pos, return_var=True, post_process=False)
                    raw2 = gs.SRF(mk(), seed=int(seed), mode_no=64)(pos)
                    want2 = kfield + np.sqrt(kvar2 / var) * raw2
                    ev += 1
                    if not np.allclose(got, want2, atol=1e-9 * (1 + np.abs(want2).max())):
                        report({"key": f"condsrf:formula-independent:{variant}",
                                "what": "conditioned field is not krige + sqrt(kvar/var)*raw with krige, kvar from an independent kriging call and raw from an SRF of the same seed",
                                "case": dict(desc, seed=int(seed)), "max_abs_diff": float(np.max(np.abs(got - want2))),
                                "kvar_over_var_max": float(np.max(kvar2) / var)})
                    if variant == "Simple":
                        ev += 1
                        if not np.isclose(f[-1], 0.5 + raw[-1], atol=1e-8):
                            report({"key": "condsrf:far-field", "what": "far from the data the simple-kriging conditioned field is not mean + unconditional field",
                                    "case": dict(desc, seed=int(seed)), "got": float(f[-1]), "want": float(0.5 + raw[-1])})
    import krige_cases as kc
    pristine = [v for v in viol if kc.ALIAS_PRISTINE.match(v["key"])]       # aliasing of cond_err / ext_drift arrays (finding AL1): always listed, last
    viol = [v for v in viol if not kc.ALIAS_PRISTINE.match(v["key"])][:10] + pristine[:4]
    return {"evaluations": ev, "violations": viol,
            "summary": "caller-owned containers %r: CondSRF on Krige objects built from float64 arrays / tuples and lists of arrays / 1-D arrays / columns / "
                       "Fortran order (controls: lists, integer arrays, NaN data), containers modified in place afterwards without set_condition; fields "
                       "at the stored / the same / a new mesh vs the data as set, krige.cond_val at krige.cond_pos, a fresh object made from the snapshot, "
                       "the numpy solve of the snapshot; public conditions unchanged; argument-less refresh.  partial set_condition %r: objects with "
                       "explicit measurement errors (float / array), external drift, normalizer, trend / mean; set_condition naming only values / positions + "
                       "values / nothing (refresh, also after an in-place model change) / fit_normalizer / drift / errors: every other setting stays in "
                       "force (fresh object with the same visible state, numpy solve with the current errors on the diagonal + independent SRF, "
                       "krige.cond_err, noisy observations not interpolated).  " % (astats, pstats) +
                       "variant search %r: every kriging variant usable for conditioning (Simple, Ordinary, Universal with linear / quadratic / "
                       "callable drift, ExtDrift, Detrended, generic Krige with functional + external drift) x model geometry stratum (isotropic "
                       "model carrying rotation angles, anisotropic unrotated, both, neither; dim 1-3) x how it is reached (built / in-place "
                       "change + refresh / re-assignment + refresh after a first field) x calls with a new seed, the same seed, NO seed, "
                       "seed=nan at given / other / stored positions; oracles: the data, the unconditional part vs an independent SRF(model, "
                       "seed in force), kriging estimate and variance vs a numpy solve of the kriging system (hand-computed anisotropic "
                       "distances, drift rows on the original coordinates), the composed formula, a freshly built object.  " % (vstats,) +
                       "real CondSRF: directed + random protocol-respecting histories (calls with new / same / NO seed; store / krige_store forms, custom names for every slot, direct "
                       "kriging calls, set_pos / delete_fields on either object over six meshes, runs of mesh changes + invalidation + call without "
                       "positions, model changes in place / by re-assignment touching only the length scale, one optional argument, the geometry, "
                       "rescale, var or nugget, each followed by the refresh; 15 model families) vs freshly built objects; after every deletion / "
                       "set_condition / position change no stored field may remain (field_names of both objects); data honoured for several "
                       "seeds and variants (incl. exact mode with nugget, anisotropic rotated models); formula from stored fields and from an "
                       "independent kriging solve + SRF of the same seed (incl. kvar > var); far-field limit"}
