"""C07 — conditioned random fields honour the data and never reuse stale kriging results."""
import warnings
import numpy as np
from proto import run_driver, fbits, unbits

ASSUMPTIONS = ["values (conditions, model, mean, positions) are abstracted to identifiers in the cache model; the tie compares, call by call, "
               "whether the real output equals the output of a freshly built object with the model's prediction",
               "nugget-free models in the history correspondence (nugget noise history is C11's subject)",
               "custom field names given to store= / krige_store= are distinct from the names of the other slots of the same object "
               "(the model keeps one name space per role: raw_krige slot of CondSRF, krige_var slot of Krige)",
               "positions are changed through calls and set_pos of either object, not by assigning the pos / mesh_type attributes"]

SEED = 20240917
RAW_NAMES = ["raw_krige", "rk1"]     # names of the third CondSRF slot: model name ids 0, 1
VAR_NAMES = ["krige_var", "kv1"]     # names of the second Krige slot


def concrete(rng, dim=None, variant=None):
    """concrete values behind the abstract identifiers"""
    dim = int(rng.randint(1, 4)) if dim is None else dim
    v = str(rng.choice(["Simple", "Ordinary", "Universal"]))
    variant = v if variant is None else variant
    n = int(rng.randint(3, 7)) + (dim + 1 if variant == "Universal" else 0)   # linear drift: keep the system regular
    cp = rng.uniform(0, 10, size=(dim, n))
    base = rng.randn(n)
    conds = [base + 0.75 * k * np.cos(np.arange(n) + k) for k in range(4)]
    lens = [3.0, 4.5, 7.0, 2.0]      # all supports overlap the 10-wide domain: distinct identifiers stay visibly distinct
    # model identifiers also differ in anisotropy / rotation for dim > 1 (edited in place by the 'model' operation)
    anis = [1.0, 0.5, 1.0, 0.4]
    angles = [0.0, 0.7, 1.2, 0.0]
    means = [0.0, 1.5, -2.0]
    n0 = int(rng.randint(2, 7))
    # positions 0 and 1: same point count; 2, 3: independent counts
    poss = [rng.uniform(0, 10, size=(dim, n0)), rng.uniform(0, 10, size=(dim, n0))] + \
           [rng.uniform(0, 10, size=(dim, int(rng.randint(2, 7)))) for _ in range(2)]
    cls = str(rng.choice(["Gaussian", "Exponential", "Spherical"]))
    return dict(dim=dim, cp=cp, conds=conds, lens=lens, anis=anis, angles=angles, means=means, poss=poss, cls=cls,
                variant=variant)


NPOS = 4


def set_model(model, cv, model_id):
    """the in-place model edit behind a model identifier"""
    model.len_scale = cv["lens"][model_id]
    if cv["dim"] > 1:
        model.anis = [cv["anis"][model_id]] * (cv["dim"] - 1)
        model.angles = [cv["angles"][model_id]] * (1 if cv["dim"] == 2 else 3)


def build(cv, cond, model_id, mean_id):
    import gstools as gs
    kw = {}
    if cv["dim"] > 1:
        kw = dict(anis=[cv["anis"][model_id]] * (cv["dim"] - 1), angles=[cv["angles"][model_id]] * (1 if cv["dim"] == 2 else 3))
    model = getattr(gs, cv["cls"])(dim=cv["dim"], var=1.3, len_scale=cv["lens"][model_id], **kw)
    if cv["variant"] == "Simple":
        kr = gs.krige.Simple(model, cv["cp"], cv["conds"][cond], mean=cv["means"][mean_id])
    elif cv["variant"] == "Ordinary":
        kr = gs.krige.Ordinary(model, cv["cp"], cv["conds"][cond], trend=cv["means"][mean_id])
    else:
        kr = gs.krige.Universal(model, cv["cp"], cv["conds"][cond], drift_functions="linear", trend=cv["means"][mean_id])
    return gs.CondSRF(kr, seed=SEED, mode_no=64)


def gen_call(rng, with_pos=None):
    """a CondSRF call with random store / krige_store options (defaults most of the time)"""
    op = {"k": "call"}
    if (rng.rand() < 0.6) if with_pos is None else with_pos:
        op["pos"] = int(rng.randint(0, NPOS))
    r = rng.rand()
    if r < 0.55:
        return op
    if rng.rand() < 0.5:
        op["store"] = False
    elif rng.rand() < 0.4:
        op["rn"] = 1
    if rng.rand() < 0.35:
        op["kstore"] = False
    elif rng.rand() < 0.3:
        op["vn"] = 1
    if rng.rand() < 0.4:           # list forms: the other slots get their own flags
        op["sx"] = [bool(rng.rand() < 0.5), bool(rng.rand() < 0.5)]
    if rng.rand() < 0.4:
        op["kx"] = bool(rng.rand() < 0.5)
    return op


def gen_history(rng, length):
    ops = []
    for _ in range(length):
        r = rng.rand()
        if r < 0.34:
            ops.append(gen_call(rng))
        elif r < 0.46:
            o = {"k": "krige_call"}
            if rng.rand() < 0.6:
                o["pos"] = int(rng.randint(0, NPOS))
            q = rng.rand()
            if q < 0.15:
                o["store"] = False
            elif q < 0.3:
                o["vn"] = 1
            ops.append(o)
        elif r < 0.53:
            ops.append({"k": "set_pos", "pos": int(rng.randint(0, NPOS))})
        elif r < 0.59:
            ops.append({"k": "krige_set_pos", "pos": int(rng.randint(0, NPOS))})
        elif r < 0.73:
            ops.append({"k": "set_condition", "cond": int(rng.randint(0, 4))} if rng.rand() < 0.6 else {"k": "set_condition"})
        elif r < 0.83:
            ops.append({"k": "model", "v": int(rng.randint(0, 4))})
        elif r < 0.91:
            ops.append({"k": "mean", "v": int(rng.randint(0, 3))})
        elif r < 0.96:
            ops.append({"k": "delete"})
        else:
            ops.append({"k": "krige_delete"})
    return ops


def kind(o):
    """operation kind used in violation keys; operations with default options keep their plain name"""
    k = o["k"]
    if k == "call":
        if not o.get("store", True):
            k += "_nostore"
        if o.get("rn", 0):
            k += "_rn%d" % o["rn"]
        if not o.get("kstore", True):
            k += "_nokstore"
        if o.get("vn", 0):
            k += "_vn%d" % o["vn"]
    elif k == "krige_call":
        if not o.get("store", True):
            k += "_nostore"
        if o.get("vn", 0):
            k += "_vn%d" % o["vn"]
    return k


def store_args(op):
    """the store= / krige_store= arguments of CondSRF.__call__ behind a call operation"""
    st, kst, rn, vn = op.get("store", True), op.get("kstore", True), op.get("rn", 0), op.get("vn", 0)
    if rn == 0 and "sx" not in op:
        store = st
    else:
        sx = op.get("sx", [st, st])
        store = [sx[0], sx[1], RAW_NAMES[rn] if rn else st]
    if vn == 0 and "kx" not in op:
        kstore = kst
    else:
        kstore = [op.get("kx", kst), VAR_NAMES[vn] if vn else kst]
    return store, kstore


def run_real(cv, ops, c0, m0, mu0):
    """returns per CondSRF call: 'ValueError' (no positions yet) or (equals_fresh: bool, max abs diff[, note])"""
    crf = build(cv, c0, m0, mu0)
    cond, model_id, mean_id, pos_id = c0, m0, mu0, None
    out = []
    with warnings.catch_warnings():
        warnings.simplefilter("ignore")
        for op in ops:
            k = op["k"]
            if k == "call":
                p = op.get("pos", None)
                store, kstore = store_args(op)
                if p is not None:
                    pos_id = p      # set_pos happens before anything can fail
                try:
                    if p is None:
                        res = crf(seed=SEED, store=store, krige_store=kstore)
                    else:
                        res = crf(cv["poss"][p], seed=SEED, store=store, krige_store=kstore)
                except Exception as e:       # noqa
                    if pos_id is None and isinstance(e, ValueError):
                        out.append("ValueError")
                    else:
                        out.append((False, float("inf"), "raised " + type(e).__name__))
                    continue
                fresh = build(cv, cond, model_id, mean_id)(cv["poss"][pos_id], seed=SEED)
                if np.shape(res) != np.shape(fresh):
                    out.append((False, float("inf"), "shape %s instead of %s" % (np.shape(res), np.shape(fresh))))
                    continue
                d = float(np.max(np.abs(res - fresh)))
                out.append((bool(d <= 1e-9 * (1 + np.abs(fresh).max())), d))
            elif k == "krige_call":
                p = op.get("pos", None)
                vn = op.get("vn", 0)
                store = op.get("store", True)
                if store and vn:
                    store = [True, VAR_NAMES[vn]]
                if p is not None:
                    pos_id = p
                try:
                    if p is None:
                        crf.krige(store=store)
                    else:
                        crf.krige(cv["poss"][p], store=store)
                except ValueError:
                    if pos_id is not None:
                        raise
            elif k == "set_pos":
                crf.set_pos(cv["poss"][op["pos"]])
                pos_id = op["pos"]
            elif k == "krige_set_pos":
                crf.krige.set_pos(cv["poss"][op["pos"]])
                pos_id = op["pos"]
            elif k == "set_condition":
                if "cond" in op:
                    cond = op["cond"]
                    crf.krige.set_condition(cond_val=cv["conds"][cond])
                else:
                    crf.krige.set_condition()
            elif k == "model":
                model_id = op["v"]
                set_model(crf.model, cv, model_id)
            elif k == "mean":
                mean_id = op["v"]
                if cv["variant"] == "Simple":
                    crf.mean = cv["means"][mean_id]
                else:
                    crf.trend = cv["means"][mean_id]
            elif k == "delete":
                crf.delete_fields()
            elif k == "krige_delete":
                crf.krige.delete_fields()
    return out


def _c(**kw):
    return dict({"k": "call"}, **kw)


# directed histories, replayed first on every run (correspondence and search).  All respect the documented protocol
# (every model / mean change is followed by the refresh), so every call must equal a freshly built object.
DIRECTED = [
    # the classic ones (D6): new conditioning values / model change + refresh / mean change + refresh, positions unchanged
    ("new-values", [_c(pos=0), {"k": "set_condition", "cond": 1}, _c()]),
    ("model-refresh", [_c(pos=0), {"k": "model", "v": 1}, {"k": "set_condition"}, _c()]),
    ("mean-refresh", [_c(pos=0), {"k": "mean", "v": 1}, {"k": "set_condition"}, _c()]),
    ("model-refresh-with-values", [_c(pos=0), {"k": "model", "v": 1}, {"k": "set_condition", "cond": 1}, _c(pos=1)]),
    # history 1: the store=False call re-stores krige_var but not raw_krige
    ("h1-nostore", [_c(pos=0), {"k": "set_condition", "cond": 1}, _c(store=False), _c()]),
    # history 2: a direct kriging call re-stores krige_var
    ("h2-krige-call", [_c(pos=0), {"k": "set_condition", "cond": 1}, {"k": "krige_call", "pos": 0}, _c()]),
    ("h2-krige-call-nopos", [_c(pos=0), {"k": "model", "v": 2}, {"k": "set_condition"}, {"k": "krige_call"}, _c()]),
    # a direct kriging call at other positions (same / different point count) moves the shared positions
    ("krige-other-pos-same-count", [_c(pos=0), {"k": "krige_call", "pos": 1}, _c()]),
    ("krige-other-pos", [_c(pos=0), {"k": "krige_call", "pos": 2}, _c()]),
    ("krige-set-pos", [_c(pos=0), {"k": "krige_set_pos", "pos": 1}, _c(store=False), _c()]),
    # custom names: run 2 stores its raw kriging field under another name, its variance under the default name
    ("names-raw", [_c(pos=0), {"k": "set_condition", "cond": 1}, _c(rn=1), _c()]),
    ("h1-list-form", [_c(pos=0), {"k": "set_condition", "cond": 2}, _c(sx=[True, True], store=False), _c()]),
    ("names-var", [_c(pos=0, vn=1), {"k": "set_condition", "cond": 1}, _c(), {"k": "krige_call", "vn": 1}, _c(vn=1)]),
    # harmless reuse must survive: nothing changed, deletions on either object
    ("reuse", [_c(pos=0), _c(), _c(pos=0), {"k": "krige_delete"}, _c(store=False), _c(), {"k": "delete"}, _c(kstore=False), _c()]),
]


def directed_cases():
    out = []
    for i, (name, ops) in enumerate(DIRECTED):
        for j, variant in enumerate(["Simple", "Ordinary"]):
            cv = concrete(np.random.RandomState(9000 + 2 * i + j), dim=1 + (i + j) % 2, variant=variant)
            out.append((name, cv, [dict(o) for o in ops], 0, 0, 0))
    return out


def correspondence(ctx):
    rng = np.random.RandomState(ctx.seed + 707)
    H = ctx.scale(100, 400)
    L = ctx.scale(12, 60)
    cases, opsl = [], []
    for name, cv, ops, c0, m0, mu0 in directed_cases():
        cases.append((cv, ops, c0, m0, mu0))
    for h in range(H):
        cv = concrete(rng)
        ops = gen_history(rng, int(rng.randint(3, L + 1)))
        c0, m0, mu0 = int(rng.randint(0, 4)), int(rng.randint(0, 4)), int(rng.randint(0, 3))
        cases.append((cv, ops, c0, m0, mu0))
    H = len(cases)
    for cv, ops, c0, m0, mu0 in cases:
        opsl.append({"op": "cond_history", "cond": c0, "model": m0, "mean": mu0, "ops": ops})
    # the conditioning formula on Float
    fops = []
    for _ in range(ctx.scale(30, 300)):
        n = int(rng.randint(1, 8))
        var = float(rng.choice([0.5, 1.0, 2.0]))
        nug = float(rng.choice([0.0, 0.0, 0.25, 1.0]))
        kv = np.abs(rng.randn(n)) * (var + nug) * rng.choice([0.0, 0.3, 1.0, 1.7], size=n)
        fops.append(dict(krige=rng.randn(n), kvar=kv, raw=rng.randn(n), noise=rng.randn(n), var=var, nugget=nug))
    for f in fops:
        opsl.append({"op": "cond_value", "krige": fbits(f["krige"]), "kvar": fbits(f["kvar"]), "raw": fbits(f["raw"]),
                     "noise": fbits(f["noise"]), "var": fbits([f["var"]])[0], "nugget": fbits([f["nugget"]])[0]})
    res = run_driver(opsl)
    dis, distinct = [], set()
    dist = {"calls": 0, "reused": 0, "stale_predicted": 0, "ValueError": 0, "mixed_runs_predicted": 0, "ops": {}}
    for (cv, ops, c0, m0, mu0), r in zip(cases, res[:H]):
        for o in ops:
            dist["ops"][kind(o)] = dist["ops"].get(kind(o), 0) + 1
        try:
            real = run_real(cv, ops, c0, m0, mu0)
        except Exception as e:       # noqa
            dis.append({"what": "history raised outside a CondSRF call: %s: %s" % (type(e).__name__, e), "ops": ops})
            continue
        if isinstance(r, dict) and "error" in r:
            dis.append({"what": "driver error " + r["error"]})
            continue
        if len(real) != len(r):
            dis.append({"what": "number of calls differs", "ops": ops})
            continue
        for i, (a, b) in enumerate(zip(real, r)):
            dist["calls"] += 1
            if a == "ValueError" or b == "ValueError":
                dist["ValueError"] += 1
                ok = a == b
            else:
                dist["reused"] += int(b["reused"])
                dist["stale_predicted"] += int(not b["eq_fresh"])
                dist["mixed_runs_predicted"] += int(not b["same_run"])
                ok = a[0] == b["eq_fresh"]
                if not ok and a[0] and not b["eq_fresh"]:
                    # the model predicts a (documented) stale reuse, the real output nevertheless equals the fresh object's: the
                    # abstract identifiers were not distinguishable on these concrete values (e.g. all targets out of range of a
                    # compact-support model) or the code recomputed more than the model assumes — the property is not at stake
                    dist["benign_equal_where_stale_predicted"] = dist.get("benign_equal_where_stale_predicted", 0) + 1
                    ok = True
            if not ok:
                dis.append({"what": "CondSRF call: real output vs fresh object does not match the cache model's prediction",
                            "call_index": i, "real": a, "model": b, "ops": ops, "init": [c0, m0, mu0],
                            "variant": cv["variant"], "cls": cv["cls"], "dim": cv["dim"]})
                break
        distinct.add(tuple(kind(o) for o in ops))
    # formula: compare with the real get_scaling path (the generator's nugget noise is prescribed)
    import gstools as gs
    for f, r in zip(fops, res[H:]):
        model = gs.Gaussian(dim=1, var=f["var"], nugget=f["nugget"])
        kr = gs.krige.Simple(model, [[0.0, 1.0]], [0.0, 1.0])
        crf = gs.CondSRF(kr, seed=1)

        class G:
            def get_nugget(self, shape, _n=f["noise"]):
                return _n
        crf._generator = G()
        vs, ng = crf.get_scaling(f["kvar"], f["kvar"].shape)
        real = f["krige"] + vs * f["raw"] + ng
        lean = unbits(r)
        dist["formula"] = dist.get("formula", 0) + 1
        if not np.allclose(lean, real, rtol=1e-13, atol=1e-13):
            dis.append({"what": "conditioning formula: model differs from get_scaling",
                        "case": {k: (v.tolist() if hasattr(v, "tolist") else v) for k, v in f.items()},
                        "real": np.asarray(real).tolist(), "lean": lean.tolist()})
    return {"evaluations": dist["calls"] + len(fops), "distinct_nontrivial": len(distinct),
            "rule": "directed histories first (stale-reuse histories through store=False, direct kriging calls, custom names), then random "
                    "histories (CondSRF calls with/without positions and every store / krige_store form incl. custom names, direct kriging "
                    "calls at the same / other positions, set_pos on either object, set_condition with new data / refresh, in-place model "
                    "change incl. anisotropy and rotation, mean/trend re-assignment, delete_fields on either object) on real CondSRF objects "
                    "(Simple / Ordinary / Universal, dim 1-3); per call: real output == output of a freshly built object  <=>  the cache "
                    "model's tokens (raw kriging field AND variance) equal the fresh token; plus the conditioning formula vs get_scaling; "
                    "distinct = distinct operation-kind sequences",
            "samples": [c[1] for c in cases[:3]], "disagreements": dis[:6], "distribution": dist}


def protocol_history(rng, length):
    """histories the property guarantees: every model / mean change is followed by the documented refresh"""
    ops = []
    for o in gen_history(rng, length):
        ops.append(o)
        if o["k"] in ("model", "mean"):
            # both forms are the documented refresh: without arguments, or together with new conditioning values
            ops.append({"k": "set_condition"} if rng.rand() < 0.5 else {"k": "set_condition", "cond": int(rng.randint(0, 4))})
    return ops


def _fails(cv, ops, c0, m0, mu0):
    try:
        rr = run_real(cv, ops, c0, m0, mu0)
    except Exception:       # noqa
        return None
    bad = [x for x in rr if x != "ValueError" and not x[0]]
    return bad[0] if bad else None


def _protocol_ok(ops):
    """every model / mean change is followed by a refresh before the next CondSRF call"""
    dirty = False
    for o in ops:
        if o["k"] in ("model", "mean"):
            dirty = True
        elif o["k"] == "set_condition":
            dirty = False
        elif o["k"] == "call" and dirty:
            return False
    return True


def shrink(cv, ops, c0, m0, mu0):
    """drop operations, then reset options to their defaults, while the failure persists (and the protocol is respected)"""
    cur = [dict(o) for o in ops]
    changed = True
    while changed:
        changed = False
        for j in range(len(cur)):
            cand = cur[:j] + cur[j + 1:]
            if _protocol_ok(cand) and _fails(cv, cand, c0, m0, mu0):
                cur, changed = cand, True
                break
        if changed:
            continue
        for j in range(len(cur)):
            for f in ("sx", "kx", "store", "kstore", "rn", "vn"):
                if f in cur[j]:
                    o = dict(cur[j])
                    del o[f]
                    cand = cur[:j] + [o] + cur[j + 1:]
                    if _fails(cv, cand, c0, m0, mu0):
                        cur, changed = cand, True
                        break
            if changed:
                break
    return cur


def history_search(ctx, n):
    """the property itself on the real object: each call of a protocol-respecting history equals a fresh object"""
    rng = np.random.RandomState(ctx.seed + 777)
    viol, ev, keys = [], 0, set()

    def examine(cv, ops, c0, m0, mu0, origin):
        nonlocal ev
        try:
            real = run_real(cv, ops, c0, m0, mu0)
        except Exception as e:       # noqa
            key = "condsrf:history-raised:" + "-".join(kind(o) for o in ops)
            if key not in keys:
                keys.add(key)
                viol.append({"key": key, "what": "an operation other than a CondSRF call raised %s: %s" % (type(e).__name__, e),
                             "case": {"history": ops, "init": [c0, m0, mu0], "origin": origin}})
            return
        ev += len(real)
        for i, a in enumerate(real):
            if a != "ValueError" and not a[0]:
                cur = shrink(cv, ops, c0, m0, mu0)
                b = _fails(cv, cur, c0, m0, mu0) or a
                kinds = "-".join(kind(o) for o in cur)
                key = "condsrf:stale-kriging:" + kinds
                if key in keys:
                    return
                keys.add(key)
                viol.append({"key": key, "what": "a call returns a field different from a freshly built object (stale kriging result reused)",
                             "case": {"history": cur, "init": [c0, m0, mu0], "variant": cv["variant"], "class": cv["cls"], "dim": cv["dim"],
                                      "max_abs_diff": b[1], "note": b[2] if len(b) > 2 else "", "origin": origin,
                                      "cond_pos": cv["cp"].tolist(), "conds": [c.tolist() for c in cv["conds"]], "len_scales": cv["lens"],
                                      "anis": cv["anis"], "angles": cv["angles"], "means": cv["means"],
                                      "positions": [p.tolist() for p in cv["poss"]], "seed": SEED,
                                      "raw_names": RAW_NAMES, "var_names": VAR_NAMES}})
                return

    for name, cv, ops, c0, m0, mu0 in directed_cases():
        examine(cv, ops, c0, m0, mu0, "directed:" + name)
    nd = len(viol)
    for h in range(n):
        cv = concrete(rng)
        ops = protocol_history(rng, int(rng.randint(3, 14)))
        c0, m0, mu0 = int(rng.randint(0, 4)), int(rng.randint(0, 4)), int(rng.randint(0, 3))
        examine(cv, ops, c0, m0, mu0, "random")
        if len(viol) - nd >= 3:
            break
    return ev, viol


def search(ctx, deep=False):
    import gstools as gs
    rng = np.random.RandomState(ctx.seed + 77)
    N = ctx.scale(25, 200) * (3 if deep else 1)
    ev, viol = history_search(ctx, ctx.scale(40, 400) * (3 if deep else 1))
    seen = set()

    def report(v):
        if v["key"] not in seen:
            seen.add(v["key"])
            viol.append(v)

    with warnings.catch_warnings():
        warnings.simplefilter("ignore")
        for t in range(N):
            dim = int(rng.randint(1, 4))
            n = int(rng.randint(2, 7))
            grid = np.array(np.meshgrid(*([np.arange(4)] * dim), indexing="ij")).reshape(dim, -1)
            idx = rng.choice(grid.shape[1], size=min(n, grid.shape[1]), replace=False)
            cp = grid[:, idx] * 2.0 + rng.uniform(-0.3, 0.3, size=(dim, len(idx)))
            cv = rng.randn(len(idx))
            cls = str(rng.choice(["Gaussian", "Exponential", "Spherical", "Matern"]))
            nug = float(rng.choice([0.0, 0.0, 0.1]))
            kw = {}
            if dim > 1 and rng.rand() < 0.5:       # anisotropic, rotated models
                kw = dict(anis=[float(rng.choice([0.3, 0.6]))] * (dim - 1), angles=[float(rng.uniform(0, 1.5))] * (1 if dim == 2 else 3))
            var = float(rng.choice([0.5, 2.0]))
            mk = lambda: getattr(gs, cls)(dim=dim, var=var, len_scale=float(ls), nugget=nug, **kw)      # noqa
            ls = rng.choice([1.0, 3.0])
            model = mk()
            variant = str(rng.choice(["Simple", "Ordinary", "Universal"]))
            exact = nug > 0

            def mkkrige(m):
                if variant == "Simple":
                    return gs.krige.Simple(m, cp, cv, mean=0.5, exact=exact)
                if variant == "Ordinary":
                    return gs.krige.Ordinary(m, cp, cv, exact=exact)
                return gs.krige.Universal(m, cp, cv, drift_functions=0, exact=exact)
            kr = mkkrige(model)
            crf = gs.CondSRF(kr, mode_no=64)
            desc = dict(dim=dim, cond_pos=cp.tolist(), cond_val=cv.tolist(), model=repr(model), variant=variant)
            far = cp.max() + 200.0 * model.len_scale
            pos = np.hstack([cp, rng.uniform(-1, 8, size=(dim, 4)), np.full((dim, 1), far)])
            for seed in rng.randint(0, 10**6, size=3):
                f = crf(pos, seed=int(seed))
                ev += 1
                tol = 1e-6 * (1 + np.abs(cv).max())
                if not np.allclose(f[: cp.shape[1]], cv, atol=tol):
                    report({"key": f"condsrf:data-not-honoured:{variant}", "what": "conditioned field differs from the data at a conditioning location",
                            "case": dict(desc, seed=int(seed)), "got": f[: cp.shape[1]].tolist()})
                raw, rk, kv = crf["raw_field"], crf["raw_krige"], crf.krige["krige_var"]
                if nug == 0:
                    want = rk + np.sqrt(kv / model.var) * raw
                    got = crf(pos, seed=int(seed), post_process=False)
                    if not np.allclose(got, want, atol=1e-10):
                        report({"key": "condsrf:formula", "what": "conditioned field is not krige + sqrt(kvar/var)*raw", "case": dict(desc, seed=int(seed))})
                    # the same from an independent kriging solve (a second Krige object on a second model object) and a plain SRF of the
                    # same seed: also beyond the sill (unbiased kriging far from the data: kvar > var) and for anisotropic models
                    kfield, kvar2 = mkkrige(mk())(pos, return_var=True, post_process=False)
                    raw2 = gs.SRF(mk(), seed=int(seed), mode_no=64)(pos)
                    want2 = kfield + np.sqrt(kvar2 / var) * raw2
                    ev += 1
                    if not np.allclose(got, want2, atol=1e-9 * (1 + np.abs(want2).max())):
                        report({"key": f"condsrf:formula-independent:{variant}",
                                "what": "conditioned field is not krige + sqrt(kvar/var)*raw with krige, kvar from an independent kriging call and raw from an SRF of the same seed",
                                "case": dict(desc, seed=int(seed)), "max_abs_diff": float(np.max(np.abs(got - want2))),
                                "kvar_over_var_max": float(np.max(kvar2) / var)})
                    if variant == "Simple":
                        ev += 1
                        if not np.isclose(f[-1], 0.5 + raw[-1], atol=1e-8):
                            report({"key": "condsrf:far-field", "what": "far from the data the simple-kriging conditioned field is not mean + unconditional field",
                                    "case": dict(desc, seed=int(seed)), "got": float(f[-1]), "want": float(0.5 + raw[-1])})
    return {"evaluations": ev, "violations": viol[:10],
            "summary": "real CondSRF: directed + random protocol-respecting histories (store / krige_store forms, custom names, direct kriging calls, "
                       "set_pos / delete_fields on either object, anisotropy edits + refresh) vs freshly built objects; data honoured for several "
                       "seeds and variants (incl. exact mode with nugget, anisotropic rotated models); formula from stored fields and from an "
                       "independent kriging solve + SRF of the same seed (incl. kvar > var); far-field limit"}
