"""C13 — geographic and spatio-temporal coordinates are consistent across modules."""
import warnings
import numpy as np
import proto
from proto import run_driver, fbits, unbits

ASSUMPTIONS = [
    "theorems are about the hand-written model GSV.Model.LatLon (tied by differential execution at 1e-12) and about the "
    "generated haversine kernel GSV.Estimator.dist_haversine (tied bit-exactly to the .so under C08/C15), instantiated at the reals",
    "floating-point effects are out of scope of the theorems: e.g. at the poles cos(pi/2) is 6e-17 in doubles, so the code "
    "recovers a longitude there that the real-number model cannot; the search measures the 3-D error instead",
    "arcsin is a local operation class (Asin) of the model: Float.asin in the driver, Real.arcsin in the theorems",
    "numpy's deg2rad/rad2deg are x*(pi/180), x*(180/pi); np.dot/np.matmul summation order is not modelled (1e-12 tolerance)",
    "that a live lat-lon / temporal CovModel object carries no geometric state besides (flags, dim, len_scale, anis, angles) - the setter "
    "state machine GSV.Model.LatLon.msStep - is tied by read / change / read histories (state exact, isometrize / anisometrize 1e-12 "
    "after every setter), not proved",
]

RADII = [1.0, 57.29577951308232, 6371.0]   # RADIAN_SCALE, DEGREE_SCALE, KM_SCALE
LAT_EDGE = [-90.0, 90.0, 0.0, -0.0, 89.999999, -89.999999, 45.0, -45.0, 1e-9, -1e-9]
LON_EDGE = [-180.0, 180.0, 0.0, 179.9999, -179.9999, 190.0, -190.0, 360.0, -360.0, 540.0, 725.5, -725.5, 90.0, -90.0, 359.5, 1e-9]


def f1(x):
    return fbits([x])[0]


def gen_latlon(rng, n):
    lat = np.where(rng.rand(n) < 0.35, rng.choice(LAT_EDGE, n), rng.uniform(-90, 90, n))
    lon = np.where(rng.rand(n) < 0.35, rng.choice(LON_EDGE, n), rng.uniform(-720, 720, n))
    return lat, lon


def gen_radius(rng):
    return float(rng.choice(RADII)) if rng.rand() < 0.7 else float(np.round(rng.uniform(0.1, 1e4), 3))


def close(a, b, tol, scale=1.0):
    a, b = np.asarray(a, dtype=float), np.asarray(b, dtype=float)
    if a.shape != b.shape:
        return False
    both_nan = np.isnan(a) & np.isnan(b)
    return bool(np.all(both_nan | (np.abs(a - b) <= tol * (scale + np.abs(a) + np.abs(b)))))


def dec(r):
    """decode a driver result made of bit-pattern lists"""
    return unbits(np.asarray(r, dtype=np.uint64).ravel()).reshape(np.shape(r))


def py_haversine(lat1, lon1, lat2, lon2):
    """the formula of estimator.pyx `dist_haversine`, same operation order, numpy doubles"""
    d2r = np.pi / 180.0
    dlat = (lat2 - lat1) * d2r
    dlon = (lon2 - lon1) * d2r
    a = np.sin(dlat / 2.0) ** 2.0 + np.cos(lat1 * d2r) * np.cos(lat2 * d2r) * np.sin(dlon / 2.0) ** 2.0
    return 2.0 * np.arctan2(np.sqrt(a), np.sqrt(1.0 - a)), a


def unit(lat, lon):
    """independent conversion (own code) of degrees to unit vectors, shape (n, 3)"""
    la, lo = np.radians(np.asarray(lat, dtype=float)), np.radians(np.asarray(lon, dtype=float))
    return np.stack([np.cos(la) * np.cos(lo), np.cos(la) * np.sin(lo), np.sin(la)], axis=-1)


def angle(u, v):
    """well-conditioned great-circle angle of unit vectors: atan2(|u x v|, u.v)"""
    return np.arctan2(np.linalg.norm(np.cross(u, v), axis=-1), np.sum(u * v, axis=-1))


def to_latlon(p):
    """independent inverse conversion (own code); p shape (n, 3), any radius"""
    r = np.linalg.norm(p, axis=-1)
    return np.degrees(np.arcsin(np.clip(p[..., 2] / r, -1, 1))), np.degrees(np.arctan2(p[..., 1], p[..., 0]))


GEO_SCALES = [1.0, 57.29577951308232, 6371.0]


def gen_geo(rng):
    """radian / degree / km / arbitrary, equally likely"""
    k = int(rng.randint(0, 4))
    return GEO_SCALES[k] if k < 3 else float(np.round(rng.uniform(0.1, 1e4), 3))


def gen_cloud(rng, n):
    """lat-lon point cloud: global incl. boundary values, regional, or a small cluster"""
    lat, lon = gen_latlon(rng, n)
    k = rng.rand()
    if k < 0.4:       # regional data set
        lat = np.clip(lat * 0.1 + rng.uniform(-60, 60), -90, 90)
        lon = lon * 0.02 + rng.uniform(-200, 200)
    elif k < 0.55:    # small cluster (a few km)
        lat = np.clip(lat * 1e-3 + rng.uniform(-80, 80), -90, 90)
        lon = lon * 1e-4 + rng.uniform(-200, 200)
    return lat, lon


def gen_bin_args(rng, R, reach, combo=None):
    """one of the four (bin_no given / None) x (max_dist given / None) combinations; max_dist is in the unit of R
    (`reach` = a typical distance of the data in radians / metric units)"""
    combo = int(rng.randint(0, 4)) if combo is None else combo
    kw = {}
    if combo & 1:
        kw["bin_no"] = int(rng.randint(1, 13))
    if combo & 2:
        kw["max_dist"] = float(reach * R * rng.uniform(0.2, 1.5))
    return kw


def sturges_oracle(n):
    return int(np.ceil(2 * np.log2(n) + 1))


def box_gc_oracle(lat, lon, R):
    """independent: great-circle length (unit of R) of the bounding-box diagonal of the points on the sphere of radius R;
    second value: the arcsin argument (ill-conditioned next to 1)"""
    P = R * unit(lat, lon)
    x = np.linalg.norm(P.max(axis=0) - P.min(axis=0)) / (2 * R)
    return 2 * R * np.arcsin(min(x, 1.0)), x


def brute_bins(dd, df2, edges):
    """Matheron estimate and counts per bin [e_k, e_k+1) from pair distances and squared differences"""
    nb = max(len(edges) - 1, 0)
    wg, wc = np.zeros(nb), np.zeros(nb, dtype=int)
    for b in range(nb):
        sel = (dd >= edges[b]) & (dd < edges[b + 1])
        wc[b] = sel.sum()
        wg[b] = 0.5 * df2[sel].mean() if wc[b] else 0.0
    return wg, wc


class KernelSpy:
    """captures what vario_estimate hands to the isotropic kernel (a copy of bin_edges and pos)"""

    def __init__(self):
        self.got = None

    def __enter__(self):
        from gstools.variogram import variogram as V
        self.V, self.orig = V, V._unstructured

        def w(field, bin_edges, pos, **kw):
            self.got = (np.array(bin_edges, dtype=float), np.array(pos, dtype=float), dict(kw))
            return self.orig(field, bin_edges, pos, **kw)
        V._unstructured = w
        return self

    def __exit__(self, *a):
        self.V._unstructured = self.orig


# ====================================================================== in-place histories of model objects
def noa(d):
    return d * (d - 1) // 2


def gen_hist_config(rng):
    """(latlon, temporal, full dim): temporal metric (spatial dim 1-3), lat-lon, lat-lon + temporal, plain (a few)"""
    k = rng.rand()
    if k < 0.45:
        return False, True, int(rng.randint(1, 4)) + 1
    if k < 0.65:
        return True, False, 3
    if k < 0.9:
        return True, True, 4
    return False, False, int(rng.randint(1, 5))


def gen_vals(rng, kind, dim, bad=True):
    """a value as the caller writes it for the anis / angles / len_scale setter: correct, short, long or empty list, or a scalar"""
    want = {"anis": dim - 1, "angles": noa(dim), "len": dim}[kind]
    r = rng.rand()
    ln = want if r < 0.5 else int(rng.randint(0, want + 3))
    if kind == "len":
        ln = max(ln, 1)
    if kind == "angles":
        v = np.round(rng.uniform(-3, 3, ln), 3)
        v[rng.rand(ln) < 0.15] = 0.0
    else:
        v = np.round(np.exp(rng.uniform(-1.5, 1.5, ln)), 3)
        if kind == "len" and ln > 1 and rng.rand() < 0.3:
            v[:] = v[0]                                     # equal length scales: isotropic
        if bad and ln > (1 if kind == "len" else 0) and rng.rand() < 0.08:
            v[int(rng.randint(1 if kind == "len" else 0, ln))] = [0.0, -1.0, float("nan")][int(rng.randint(3))]
    v = [float(x) for x in v]
    if len(v) >= 1 and rng.rand() < (0.5 if kind == "len" else 0.12):
        return v[0]
    return v


def gen_history13(rng, latlon, temporal, dim, bad=True, nops=None):
    """setter history [(kind, value)]; the dimension is followed (lat-lon: forced)"""
    ops, last = [], {}
    lo = 2 if temporal else 1
    for _ in range(int(rng.randint(1, 9)) if nops is None else nops):
        k = str(rng.choice(["anis", "angles", "len", "dim"], p=[.25, .25, .25, .25]))
        if k in last and rng.rand() < 0.5:
            # re-assign the previous value of this kind with ONE entry changed
            v = list(last[k])
            v[int(rng.randint(len(v)))] = float(np.round(rng.uniform(-3, 3) if k == "angles" else np.exp(rng.uniform(-1.5, 1.5)), 3))
            ops.append((k, v))
            continue
        if k == "dim":
            d = int(rng.randint(lo, 5))
            if bad and rng.rand() < 0.04:
                d = 0
            ops.append(("dim", d))
            if d >= 1 and not latlon:
                dim = d
        else:
            v = gen_vals(rng, k, dim, bad)
            if isinstance(v, list) and len(v) > 0 and (k == "angles" or all(x > 0 for x in v)):
                last[k] = v
            ops.append((k, v))
    return ops


def apply_op13(m, op):
    k, v = op
    try:
        with warnings.catch_warnings(), np.errstate(all="ignore"):
            warnings.simplefilter("ignore")
            if k == "anis":
                m.anis = v
            elif k == "angles":
                m.angles = v
            elif k == "len":
                m.len_scale = v
            elif k == "dim":
                m.dim = v
            else:
                raise KeyError(k)
        return "ok"
    except ValueError:
        return "ValueError"


def hist_case13(rng, gs, add):
    """one lat-lon / temporal model object: constructor, then setters; isometrize / anisometrize are READ after the constructor and
    after every setter (each with probability 0.7, both at the end) and compared with GSV.Model.LatLon.msRun (state exact, 1e-12)"""
    latlon, temporal, dim = gen_hist_config(rng)
    R = gen_radius(rng) if latlon else 1.0
    ls = gen_vals(rng, "len", dim, bad=False)
    anis = gen_vals(rng, "anis", dim, bad=False)
    angles = gen_vals(rng, "angles", dim)
    Model = [gs.Exponential, gs.Gaussian, gs.Matern, gs.Spherical][int(rng.randint(4))]
    kw = dict(latlon=latlon, temporal=temporal, len_scale=ls, anis=anis, angles=angles)
    if latlon:
        kw["geo_scale"] = R
        if rng.rand() < 0.5:
            kw["dim"] = int(rng.randint(1, 5))          # ignored: forced to 3 (+1)
    elif temporal and rng.rand() < 0.5:
        kw["spatial_dim"] = dim - 1
    else:
        kw["dim"] = dim
    m = Model(**kw)
    ops = gen_history13(rng, latlon, temporal, dim)
    n = int(rng.randint(1, 4))
    pos = np.round(rng.uniform(-5, 5, (4, n)), 3)
    q = np.round(rng.uniform(-5, 5, (4, n)), 3)
    if latlon:
        lat, lon = gen_latlon(rng, n)
        pos[0], pos[1], pos[2] = lat, lon, np.round(rng.uniform(-50, 50, n), 3)
        qlat, qlon = gen_latlon(rng, n)
        q[:3] = G_latlon2pos(qlat, qlon, R) * rng.choice([1.0, 1.0, 0.7, 1.3], size=(1, n))
        q[3] = np.round(rng.uniform(-50, 50, n), 3)
    steps = []

    def read(final):
        out = dict(dim=int(m.dim), len_scale=float(m.len_scale), anis=np.array(m.anis, dtype=float), angles=np.array(m.angles, dtype=float))
        if final or rng.rand() < 0.7:
            out["iso"] = np.array(m.isometrize(pos[:m.field_dim]))
        if final or rng.rand() < 0.7:
            out["ani"] = np.array(m.anisometrize(q[:m.dim]))
        return out
    steps.append(("ok", read(not ops)))
    for i, op in enumerate(ops):
        st = apply_op13(m, op)
        steps.append((st, read(i == len(ops) - 1)))
    lops = [dict(k="dim", d=int(v)) if k == "dim" else dict(k=k, v=fbits(np.atleast_1d(np.asarray(v, dtype=float)))) for k, v in ops]
    case = dict(model=Model.__name__, latlon=latlon, temporal=temporal, dim=dim, geo_scale=R, len_scale=ls, anis=anis, angles=angles,
                history=[[k, v] for k, v in ops], pos=pos.tolist(), q=q.tolist())
    one = lambda v: fbits(np.atleast_1d(np.asarray(v, dtype=float)))
    add(dict(op="ll_hist", latlon=latlon, temporal=temporal, dim=dim, R=f1(m.geo_scale), len_scale=one(ls), anis=one(anis), angles=one(angles),
             ops=lops, n=n, pos=fbits(pos), q=fbits(q)),
        "history" + ("-latlon" if latlon else "-metric") + ("-temporal" if temporal else ""), steps, 1e-12, (R if latlon else 1.0) + 50.0, case)
    return ops


def G_latlon2pos(lat, lon, R):
    """own conversion (used only to build query points)"""
    return R * unit(lat, lon).T


def cmp_hist13(steps, r, tol, scale):
    if isinstance(r, str) or len(r) != len(steps):
        return f"model answered {r if isinstance(r, str) else len(r)} for {len(steps)} steps"
    for i, ((st, obs), mo) in enumerate(zip(steps, r)):
        if mo[0] != st:
            return f"step {i}: setter status {st} (gstools) vs {mo[0]} (model)"
        if int(mo[1]) != obs["dim"]:
            return f"step {i}: dim {obs['dim']} vs {mo[1]}"
        if unbits([mo[2]])[0] != obs["len_scale"]:
            return f"step {i}: len_scale {obs['len_scale']} vs {unbits([mo[2]])[0]}"
        for key, idx in (("anis", 3), ("angles", 4)):
            lean = np.asarray(unbits(mo[idx]), dtype=float) if mo[idx] else np.zeros(0)
            if not (lean.shape == obs[key].shape and np.array_equal(lean + 0.0, obs[key] + 0.0)):
                return f"step {i}: {key} {obs[key].tolist()} (gstools) vs {lean.tolist()} (model)"
        for key, idx, sc in (("iso", 5, scale), ("ani", 6, 180.0 + scale)):
            if key in obs:
                lean = np.array([unbits(p_) for p_ in mo[idx]], dtype=float).T
                if not close(lean, obs[key], tol, sc):
                    return f"step {i}: {'isometrize' if key == 'iso' else 'anisometrize'} {obs[key].tolist()} (gstools) vs {lean.tolist()} (model)"
    return None



# ====================================================================== Krige objects between calls (GSV.Model.LatLon.ksStep)
def krige_hist_case13(rng, gs, add):
    """One Krige object on a live lat-lon / lat-lon + temporal / metric temporal model: constructor, then in-place setters, model
    replacement (another geo_scale with converted lengths, or other parameters), set_condition with / without positions, calls with /
    without targets.  Public observables only: the matrix handed to the (callable) pseudo-inverse at every set_condition, the
    right-hand sides handed to the kriging kernel at every call; compared with cov(distances) of GSV.Model.LatLon.ksRun
    (cov = the covariance function of a copy of the model taken at that moment)."""
    import copy
    import gstools.krige.base as KB
    k = rng.rand()
    latlon, temporal = (True, True) if k < 0.4 else (True, False) if k < 0.65 else (False, True)
    dim = 3 + int(temporal) if latlon else int(rng.randint(1, 4)) + 1
    Model = [gs.Exponential, gs.Gaussian, gs.Matern, gs.Spherical][int(rng.randint(4))]
    R = gen_radius(rng) if latlon else 1.0
    var = float(np.round(rng.uniform(0.5, 3.0), 2))
    nug = float(rng.choice([0.0, 0.0, 0.2]))

    def params(R_):
        ls = float(np.round(rng.uniform(0.3, 1.5), 3)) * (R_ if latlon else 2.0)
        an = [float(np.round(np.exp(rng.uniform(-1.2, 1.2)), 3)) for _ in range(dim - 1)]
        if latlon and temporal:
            an[-1] = float(np.round(np.exp(rng.uniform(-1.2, 1.2)) * 10.0 / R_, 6))
        ag = [float(np.round(rng.uniform(-3, 3), 3)) for _ in range(noa(dim))]
        return ls, an, ag

    def make(ls, an, ag, R_):
        kw = dict(latlon=latlon, temporal=temporal, len_scale=ls, anis=an, angles=ag, var=var, nugget=nug)
        if latlon:
            kw["geo_scale"] = R_
        else:
            kw["dim"] = dim
        return Model(**kw)

    def pts(n):
        x = np.zeros((4, n))
        if latlon:
            x[0], x[1] = gen_latlon(rng, n)
            x[2] = np.round(rng.uniform(-10, 10, n), 3)
        else:
            x[:dim] = np.round(rng.uniform(-5, 5, (dim, n)), 3)
        return x
    fd = (2 + int(temporal)) if latlon else dim
    ls, an, ag = params(R)
    m = make(ls, an, ag, R)
    cap = {}
    orig_c = KB.calc_field_krige_and_variance_c

    def spy_k(mat_, vecs, cond, num_threads=None):
        cap["vecs"] = np.array(vecs, copy=True)
        return orig_c(mat_, vecs, cond, num_threads)

    def pinv_k(mat_):
        cap["mat"] = np.array(mat_, copy=True)
        return np.linalg.pinv(mat_)
    lops, recs, trace = [], [], []
    KB.calc_field_krige_and_variance_c = spy_k
    try:
        n = int(rng.randint(1, 6))
        cpos, cval = pts(n), rng.randn(n)
        obj = [gs.krige.Simple, gs.krige.Ordinary][int(rng.randint(2))](m, cpos[:fd], cval, pseudo_inv_type=pinv_k)
        n0, cpos0 = n, cpos.copy()
        trace.append(["Krige(model, cond_pos)", cpos[:fd].tolist()])

        def rec_cond():
            nn = obj.cond_no
            recs.append(("cond", cap["mat"][:nn, :nn].copy(), copy.deepcopy(obj.model), float(obj.cond_err) if np.ndim(obj.cond_err) == 0 else 0.0))
        rec_cond()
        for _ in range(int(rng.randint(2, 9))):
            r = rng.rand()
            if r < 0.3:
                (kk, v), = gen_history13(rng, latlon, temporal, dim, nops=1)
                if kk == "dim" and not latlon:
                    v = dim                                    # the stored tuples keep their number of rows
                st = apply_op13(obj.model, (kk, v))
                lops.append(dict(k="dim", d=int(v)) if kk == "dim" else dict(k=kk, v=fbits(np.atleast_1d(np.asarray(v, dtype=float)))))
                recs.append(("status", st))
                trace.append([kk, v, st])
            elif r < 0.45:
                if latlon and rng.rand() < 0.6:
                    # the same covariance in another unit
                    R2 = float(rng.choice([r_ for r_ in RADII if r_ != R] + [float(np.round(rng.uniform(0.1, 1e4), 3))]))
                    l2 = float(obj.model.len_scale) * R2 / R
                    a2 = [float(a_) for a_ in obj.model.anis]
                    if temporal:
                        a2[-1] = float(obj.model.len_scale) * a2[-1] / l2
                    g2, R = ag, R2
                else:
                    l2, a2, g2 = params(R)
                obj.model = make(l2, a2, g2, R)
                lops.append(dict(k="replace", R=f1(R), latlon=latlon, temporal=temporal, dim=dim, len_scale=fbits([l2]), anis=fbits(a2), angles=fbits(g2)))
                recs.append(("status", "ok"))
                trace.append(["krige.model = Model(...)", dict(geo_scale=R, len_scale=l2, anis=a2, angles=g2)])
            elif r < 0.7:
                given = rng.rand() < 0.3
                if given:
                    n = int(rng.randint(1, 6))
                    cpos, cval = pts(n), rng.randn(n)
                    obj.set_condition(cpos[:fd], cval)
                    lops.append(dict(k="cond", n=n, pos=fbits(cpos)))
                else:
                    obj.set_condition()
                    lops.append(dict(k="cond"))
                rec_cond()
                trace.append(["set_condition", cpos[:fd].tolist() if given else "no arguments"])
            else:
                given = rng.rand() < 0.5 or obj.pos is None
                if given:
                    tp = pts(int(rng.randint(1, 5)))
                    obj(tp[:fd])
                    lops.append(dict(k="call", n=int(tp.shape[1]), pos=fbits(tp)))
                else:
                    obj()
                    lops.append(dict(k="call"))
                recs.append(("call", cap["vecs"][:obj.cond_no, :].copy(), copy.deepcopy(obj.model)))
                trace.append(["call", tp[:fd].tolist() if given else "stored positions"])
    finally:
        KB.calc_field_krige_and_variance_c = orig_c
    one = lambda v: fbits(np.atleast_1d(np.asarray(v, dtype=float)))
    cfg = ("-latlon" if latlon else "-metric") + ("-temporal" if temporal else "")
    case = dict(model=Model.__name__, latlon=latlon, temporal=temporal, dim=dim, var=var, nugget=nug, len_scale=ls, anis=an, angles=ag, history=trace)
    add(dict(op="ll_krige_hist", latlon=latlon, temporal=temporal, dim=dim, R=f1(m.geo_scale), len_scale=one(ls), anis=one(an), angles=one(ag),
             n=n0, pos=fbits(cpos0), ops=lops),
        "krige-object" + cfg, recs, 1e-11, 1.0, case)
    return [o["k"] + ("" if o["k"] not in ("call", "cond") else (":given" if "pos" in o else ":stored")) for o in lops]


def cmp_krige_hist13(recs, r, tol):
    if isinstance(r, str) or len(r) != len(recs):
        return f"model answered {r if isinstance(r, str) else len(r)} for {len(recs)} operations"
    for i, (rec, mo) in enumerate(zip(recs, r)):
        if rec[0] == "status":
            if mo != rec[1]:
                return f"operation {i}: status {rec[1]} (gstools) vs {mo if isinstance(mo, str) else mo[0]} (model)"
            continue
        if isinstance(mo, str) or mo[0] != ("kpos" if rec[0] == "cond" else "iso"):
            return f"operation {i}: model output {mo if isinstance(mo, str) else mo[0]}"
        d = np.array([unbits(row) for row in mo[2]], dtype=float).reshape(len(mo[2]), -1)
        want = rec[2].covariance(d)
        if rec[0] == "cond":
            want = want + np.diag(np.full(d.shape[0], rec[3]))
        sc = float(rec[2].var)
        if not (want.shape == rec[1].shape and np.all(np.abs(want - rec[1]) <= tol * sc * (1.0 + np.abs(want) / sc))):
            what = "kriging matrix" if rec[0] == "cond" else "kriging right-hand sides"
            return f"operation {i}: {what} {rec[1].tolist()} (gstools) vs cov(model's distances) {want.tolist()}"
    return None


# ====================================================================== correspondence (tie B)
def correspondence(ctx):
    import gstools as gs
    from gstools.tools import geometric as G
    rng = np.random.RandomState(ctx.seed + 1301)
    n_rounds = ctx.scale(150, 2000)
    ops, checks = [], []       # checks[i] = (kind, real_value, tol, scale, case, nontrivial)
    dist = {}
    discarded = 0

    def add(op, kind, real, tol, scale, case, nontrivial=True):
        ops.append(op)
        checks.append((kind, real, tol, scale, case, nontrivial))
        dist[kind] = dist.get(kind, 0) + 1

    with warnings.catch_warnings():
        warnings.simplefilter("ignore")
        for t in range(n_rounds):
            n = int(rng.randint(1, 9))
            R = gen_radius(rng)
            lat, lon = gen_latlon(rng, n)
            case = dict(R=R, lat=lat.tolist(), lon=lon.tolist())
            # --- latlon2pos
            real = G.latlon2pos((lat, lon), radius=R)
            add(dict(op="ll_latlon2pos", R=f1(R), lat=fbits(lat), lon=fbits(lon)), "latlon2pos", real.T, 1e-13, R, case)
            # --- pos2latlon on sphere points, off-sphere points and exact poles / axis points
            pos = real.copy()
            kind = rng.randint(0, 4)
            if kind == 1:
                pos = pos * rng.uniform(0.5, 1.5, size=(1, n))       # off the sphere -> clipping
            elif kind == 2:
                pos[:, 0] = [0.0, 0.0, R * float(rng.choice([-1, 1]))]  # exact pole
                if n > 1:
                    pos[:, 1] = [-R, 0.0, 0.0]                         # date line, y = +0
                if n > 2:
                    pos[:, 2] = [-R, -0.0, 0.0]                        # date line, y = -0
            real2 = G.pos2latlon(pos, radius=R)
            add(dict(op="ll_pos2latlon", R=f1(R), x=fbits(pos[0]), y=fbits(pos[1]), z=fbits(pos[2])), "pos2latlon",
                real2.T, 1e-13, 180.0, dict(R=R, pos=pos.tolist()))
            # --- chordal <-> great circle (incl. out-of-range and boundary)
            d = np.concatenate([rng.uniform(-0.5, 2.5, 4) * R, [0.0, 2 * R, R, np.pi * R, -R]])
            add(dict(op="ll_c2g", R=f1(R), d=fbits(d)), "chordal_to_great_circle", G.chordal_to_great_circle(d, R), 1e-13, R,
                dict(R=R, d=d.tolist()))
            add(dict(op="ll_g2c", R=f1(R), d=fbits(d * np.pi)), "great_circle_to_chordal", G.great_circle_to_chordal(d * np.pi, R),
                1e-13, R, dict(R=R, d=(d * np.pi).tolist()))
            # --- haversine (generated kernel on Float) vs the pyx formula in numpy
            lat2, lon2 = gen_latlon(rng, n)
            if rng.rand() < 0.3:
                lat2[0], lon2[0] = lat[0], lon[0] + 360.0 * rng.randint(-1, 2)   # identical / wrapped
            hv, a = py_haversine(lat, lon, lat2, lon2)
            ok = (1.0 - a) > 1e-6         # antipodal pairs: sqrt(1-a) is ill-conditioned -> discarded, never compared loosely
            discarded += int(np.sum(~ok))
            if ok.any():
                add(dict(op="ll_haversine", lat1=fbits(lat[ok]), lon1=fbits(lon[ok]), lat2=fbits(lat2[ok]), lon2=fbits(lon2[ok])),
                    "haversine", hv[ok], 1e-12, 1e-3, dict(p1=[lat.tolist(), lon.tolist()], p2=[lat2.tolist(), lon2.tolist()]))
                add(dict(op="ll_havarg", lat1=fbits(lat[ok]), lon1=fbits(lon[ok]), lat2=fbits(lat2[ok]), lon2=fbits(lon2[ok])),
                    "haversine-argument", a[ok], 1e-13, 1e-3, dict(p1=[lat.tolist(), lon.tolist()], p2=[lat2.tolist(), lon2.tolist()]))
            # --- real lat-lon (+ temporal) CovModel: constructor rules, isometrize, anisometrize
            temporal = bool(rng.rand() < 0.5)
            d_model = 4 if temporal else 3
            anis_in = np.round(rng.uniform(0.2, 4.0, d_model - 1), 3)
            ang_in = np.round(rng.uniform(-3, 3, d_model * (d_model - 1) // 2), 3)
            Model = [gs.Gaussian, gs.Exponential, gs.Spherical, gs.Matern][rng.randint(0, 4)]
            dim_in = int(rng.randint(1, 4))
            m = Model(dim=dim_in, latlon=True, temporal=temporal, geo_scale=R, anis=anis_in, angles=ang_in,
                      len_scale=float(np.round(rng.uniform(0.1, 2.0), 3)) * R)
            mcase = dict(model=Model.__name__, latlon=True, temporal=temporal, geo_scale=R, anis=anis_in.tolist(), angles=ang_in.tolist())
            add(dict(op="ll_model", latlon=True, temporal=temporal, dim=dim_in, anis=fbits(anis_in), angles=fbits(ang_in)),
                "latlon-model-state", [m.dim, m.field_dim, m.anis.tolist(), m.angles.tolist()], 0.0, 1.0, mcase)
            tt = np.round(rng.uniform(-50, 50, n), 3)
            posll = (lat, lon, tt) if temporal else (lat, lon)
            iso = m.isometrize(posll)
            add(dict(op="ll_isometrize", R=f1(m.geo_scale), temporal=temporal, anis=fbits(m.anis), lat=fbits(lat), lon=fbits(lon), t=fbits(tt)),
                "isometrize-latlon" + ("-temporal" if temporal else ""), iso.T, 1e-13, R + 50.0, dict(mcase, pos=[list(map(float, p)) for p in posll]))
            back = m.anisometrize(iso)
            w = iso[3] if temporal else np.zeros(n)
            add(dict(op="ll_anisometrize", R=f1(m.geo_scale), temporal=temporal, anis=fbits(m.anis), x=fbits(iso[0]), y=fbits(iso[1]),
                     z=fbits(iso[2]), w=fbits(w)),
                "anisometrize-latlon" + ("-temporal" if temporal else ""), back.T, 1e-13, 180.0, dict(mcase, pos=iso.tolist()))
            # --- metric spatio-temporal model: angles touching the time axis are zeroed, time only scaled
            sd = int(rng.randint(1, 4))
            tmp = bool(rng.rand() < 0.75)
            dm = sd + 1
            anis_m = np.round(rng.uniform(0.2, 4.0, dm - 1), 3)
            ang_m = np.round(rng.uniform(-3, 3, dm * (dm - 1) // 2), 3)
            if tmp:
                mm = gs.Exponential(temporal=True, spatial_dim=sd, anis=anis_m, angles=ang_m)
            else:
                mm = gs.Exponential(dim=dm, anis=anis_m, angles=ang_m)
            x = np.round(rng.uniform(-5, 5, (dm, n)), 3)
            mmcase = dict(temporal=tmp, dim=dm, anis=anis_m.tolist(), angles=ang_m.tolist(), x=x.tolist())
            add(dict(op="ll_model", latlon=False, temporal=tmp, dim=dm, anis=fbits(anis_m), angles=fbits(ang_m)),
                "metric-model-state", [mm.dim, mm.field_dim, mm.anis.tolist(), mm.angles.tolist()], 0.0, 1.0, mmcase)
            add(dict(op="ll_iso_metric", temporal=tmp, dim=dm, anis=fbits(anis_m), angles=fbits(ang_m), x=fbits(x.T)),
                "isometrize-metric" + ("-temporal" if tmp else ""), mm.isometrize(x).T, 1e-12, 10.0, mmcase)
            add(dict(op="ll_iso_matrix", temporal=tmp, dim=dm, anis=fbits(anis_m), angles=fbits(ang_m)),
                "isometrize-matrix" + ("-temporal" if tmp else ""), G.matrix_isometrize(mm.dim, mm.angles, mm.anis), 1e-12, 1.0, mmcase)
            # --- standard_bins, lat-lon branch
            npnt = int(rng.randint(2, 40))
            blat, blon = gen_latlon(rng, npnt)
            if rng.rand() < 0.5:     # regional data set
                blat = np.clip(blat * 0.1 + rng.uniform(-60, 60), -90, 90)
                blon = blon * 0.02 + rng.uniform(-200, 200)
            P = G.latlon2pos((blat, blon), radius=R)
            diam = np.linalg.norm(P.max(axis=1) - P.min(axis=1)) / (2 * R)
            if 1 - 1e-6 < diam < 1:
                discarded += 1     # arcsin next to 1 is ill-conditioned
            else:
                be = gs.standard_bins((blat, blon), latlon=True, geo_scale=R)
                add(dict(op="ll_std_bins", R=f1(R), lat=fbits(blat), lon=fbits(blon)), "standard_bins-latlon",
                    [len(be) - 1, be.tolist()], 1e-12, R, dict(R=R, lat=blat.tolist(), lon=blon.tolist()))
            # --- standard_bins with every argument combination: {pos given / None} x {bin_no given / None} x
            #     {max_dist given / None} x {lat-lon / metric dim 1-3} x geo_scale radian / degree / km / arbitrary
            for rep in range(4):
                sll = bool(rng.rand() < 0.65)
                sR = gen_geo(rng)
                sdim = 2 if sll else int(rng.randint(1, 4))
                sn = int(rng.randint(1, 30))
                if sll:
                    spos = np.array(gen_cloud(rng, sn))
                    reach = 0.5
                else:
                    spos = np.round(rng.uniform(-50, 50, (sdim, sn)) * float(rng.choice([0.01, 1.0, 100.0])), 6)
                    reach = 20.0 / sR      # max_dist is not a geographic length here: geo_scale must be ignored
                skw = gen_bin_args(rng, sR, reach, combo=(4 * t + rep) % 4)
                if rng.rand() < 0.04:
                    skw["bin_no"] = 0
                give_pos = bool(rng.rand() < 0.85)
                if sll and give_pos and "max_dist" not in skw and 1 - 1e-6 < box_gc_oracle(spos[0], spos[1], sR)[1] < 1:
                    discarded += 1
                    continue
                try:
                    sreal = gs.standard_bins(tuple(spos) if give_pos else None, sdim, sll, geo_scale=sR, **skw).tolist()
                except ValueError:
                    sreal = "ValueError"
                sop = dict(op="ll_std_bins2", latlon=sll, R=f1(sR), dim=sdim, P=sn)
                if give_pos:
                    sop["pos"] = fbits(spos)
                if "bin_no" in skw:
                    sop["bin_no"] = skw["bin_no"]
                if "max_dist" in skw:
                    sop["max_dist"] = f1(skw["max_dist"])
                # a given max_dist involves no geometry (pure relative tolerance); the automatic lat-lon cut-off is a difference of
                # coordinates of size R (absolute tolerance on that scale, as for the fully automatic case above)
                add(sop, "standard_bins-args", sreal, 1e-13 if "max_dist" in skw else 1e-12, sR if (sll and "max_dist" not in skw) else 0.0,
                    dict(latlon=sll, geo_scale=sR, dim=sdim, pos=spos.tolist() if give_pos else None, **skw))
                sk = "standard_bins-args:" + ("latlon" if sll else "metric") + ":" + "+".join(sorted(skw) or ["auto"]) + ":" + scale_name(sR)
                dist[sk] = dist.get(sk, 0) + 1
                if not give_pos:
                    dist["standard_bins-args:no-pos"] = dist.get("standard_bins-args:no-pos", 0) + 1
            # --- vario_estimate: bin centres returned and edges handed to the kernel, {bin_edges given / None} x
            #     {bin_no} x {max_dist} x geo_scale x {lat-lon / metric}
            for rep in range(2):
                vll = bool(rng.rand() < 0.8)
                vR = gen_geo(rng)
                vdim = 2 if vll else int(rng.randint(1, 4))
                vn = int(rng.randint(3, 25))
                if vll:
                    vpos = np.array(gen_cloud(rng, vn))
                    reach = 0.5
                else:
                    vpos = np.round(rng.uniform(-50, 50, (vdim, vn)), 6)
                    reach = 20.0 / vR
                vfield = np.round(rng.randn(vn), 3)
                explicit = bool(rng.rand() < 0.2)
                vkw = {} if explicit else gen_bin_args(rng, vR, reach, combo=(2 * t + rep) % 4)
                vedges = None
                if explicit:
                    vedges = np.sort(np.concatenate([[0.0], rng.uniform(0, (np.pi if vll else 2 * reach) * vR, int(rng.randint(1, 8)))]))
                if vll and not explicit and "max_dist" not in vkw and 1 - 1e-6 < box_gc_oracle(vpos[0], vpos[1], vR)[1] < 1:
                    discarded += 1
                    continue
                with KernelSpy() as spy_v:
                    try:
                        vout = gs.vario_estimate(tuple(vpos), vfield, vedges, latlon=vll, geo_scale=vR, **vkw)
                    except Exception as ex:
                        vout = type(ex).__name__
                vop = dict(op="vario_bins_full", F=1, P=vn, dim=vdim, fmask=[0] * vn, pos=fbits(vpos), latlon=vll, geo_scale=f1(vR))
                if explicit:
                    vop["bins"] = fbits(vedges)
                if "bin_no" in vkw:
                    vop["bin_no"] = vkw["bin_no"]
                if "max_dist" in vkw:
                    vop["max_dist"] = f1(vkw["max_dist"])
                vreal = vout if isinstance(vout, str) or spy_v.got is None else [np.asarray(vout[0]).tolist(), spy_v.got[0].tolist()]
                vgeom = vll and not explicit and "max_dist" not in vkw
                add(vop, "vario-bins" + ("-explicit" if explicit else "-auto"), vreal,
                    0.0 if explicit else (1e-12 if "max_dist" not in vkw else 1e-13), (vR, 1.0) if vgeom else (0.0, 0.0),
                    dict(latlon=vll, geo_scale=vR, pos=vpos.tolist(), bin_edges=None if vedges is None else vedges.tolist(), **vkw))
                vk = "vario-bins:" + ("latlon" if vll else "metric") + ":" + ("explicit" if explicit else "+".join(sorted(vkw) or ["auto"])) + \
                    ":" + scale_name(vR)
                dist[vk] = dist.get(vk, 0) + 1
            # --- kriging assembly: covariance block of the matrix and right-hand side handed to the kernel
            import gstools.krige.base as KB
            ktemp = bool(rng.rand() < 0.5)
            kvar, klen = float(np.round(rng.uniform(0.5, 3), 3)), float(np.round(rng.uniform(0.1, 2.0), 3)) * R
            km = gs.Exponential(latlon=True, temporal=ktemp, geo_scale=R, var=kvar, len_scale=klen,
                                anis=np.round(rng.uniform(0.2, 4.0, 3 if ktemp else 2), 3))
            nk = int(rng.randint(1, 6))
            klat, klon = gen_latlon(rng, nk)
            kt = np.round(rng.uniform(-30, 30, nk), 3)
            qlat, qlon = gen_latlon(rng, 3)
            qt = np.round(rng.uniform(-30, 30, 3), 3)
            if rng.rand() < 0.3:
                qlat[0], qlon[0], qt[0] = klat[0], klon[0] + 360.0, kt[0]      # a target on a datum, one turn away
            capk = {}
            orig_c = KB.calc_field_krige_and_variance_c

            def spy_k(mat, vecs, cond, num_threads=None):
                capk["vecs"] = np.array(vecs, copy=True)
                return orig_c(mat, vecs, cond, num_threads)

            def pinv_k(mat):
                capk["mat"] = np.array(mat, copy=True)
                return np.linalg.pinv(mat)
            KB.calc_field_krige_and_variance_c = spy_k
            try:
                cpos = (klat, klon, kt) if ktemp else (klat, klon)
                qpos = (qlat, qlon, qt) if ktemp else (qlat, qlon)
                kk = gs.krige.Simple(km, cpos, np.arange(nk, dtype=float), pseudo_inv_type=pinv_k)
                kk(qpos)
            finally:
                KB.calc_field_krige_and_variance_c = orig_c
            if "vecs" in capk and "mat" in capk:
                add(dict(op="ll_krige", R=f1(km.geo_scale), temporal=ktemp, anis=fbits(km.anis), var=f1(km.var), len=f1(km.len_scale),
                         lat=fbits(klat), lon=fbits(klon), t=fbits(kt), tlat=fbits(qlat), tlon=fbits(qlon), tt=fbits(qt)),
                    "krige-assembly" + ("-temporal" if ktemp else ""), [capk["mat"][:nk, :nk], capk["vecs"][:nk, :]], 1e-12, kvar,
                    dict(geo_scale=R, temporal=ktemp, anis=km.anis.tolist(), var=kvar, len_scale=klen,
                         cond=[list(map(float, c)) for c in cpos], target=[list(map(float, c)) for c in qpos]))
            # --- fit_variogram: lags handed to curve_fit
            from gstools.covmodel import fit as FIT
            xs = np.sort(np.round(rng.uniform(0, np.pi * R, 6), 6))
            got = {}
            orig = FIT.curve_fit

            def spy(f, xdata, ydata, **kw):
                got["x"] = np.array(xdata, dtype=float)
                return orig(f, xdata, ydata, **kw)
            FIT.curve_fit = spy
            try:
                ll = bool(rng.rand() < 0.8)
                fm = gs.Exponential(latlon=ll, geo_scale=R, len_scale=R) if ll else gs.Exponential(dim=3, len_scale=R)
                fm.fit_variogram(xs, 1 - np.exp(-xs / R), nugget=False)
            except RuntimeError:
                pass
            finally:
                FIT.curve_fit = orig
            if "x" in got:
                add(dict(op="ll_fitlag", R=f1(R), latlon=ll, x=fbits(xs)), "fit-lags" + ("-latlon" if ll else "-metric"), got["x"], 1e-13, R,
                    dict(R=R, latlon=ll, x=xs.tolist()))
        # --- in-place histories: read / change / read on live lat-lon, temporal and plain model objects
        for t in range(ctx.scale(260, 2600)):
            for k, _v in hist_case13(rng, gs, add):
                dist["history op: " + k] = dist.get("history op: " + k, 0) + 1
        # --- Krige objects between calls: in-place changes / replacement of the model, set_condition() refresh, stored targets
        for t in range(ctx.scale(120, 1500)):
            for k in krige_hist_case13(rng, gs, add):
                dist["krige-object op: " + k] = dist.get("krige-object op: " + k, 0) + 1
    res = run_driver(ops)
    disagreements, samples = [], []
    nontrivial = set()
    for op, (kind, real, tol, scale, case, nt), r in zip(ops, checks, res):
        if isinstance(r, dict) and "error" in r:
            disagreements.append({"what": f"{kind}: model error {r['error']}", "case": case})
            continue
        if kind.startswith("krige-object"):
            why = cmp_krige_hist13(real, r, tol)
            if why is not None:
                disagreements.append({"what": f"{kind}: gstools differs from the Lean model (GSV.Model.LatLon.ksRun) along an object history: {why}", "case": case})
            nontrivial.add((kind, json_key(case)))
            continue
        if kind.startswith("history"):
            why = cmp_hist13(real, r, tol, scale)
            if why is not None:
                disagreements.append({"what": f"{kind}: gstools differs from the Lean model after a setter history: {why}", "case": case})
            nontrivial.add((kind, json_key(case)))
            continue
        if kind.endswith("model-state"):
            lean = [r[0], r[1], dec(r[2]).tolist(), dec(r[3]).tolist()]
            ok = lean[0] == real[0] and lean[1] == real[1] and lean[2] == real[2] and \
                np.array_equal(np.asarray(lean[3]) + 0.0, np.asarray(real[3]) + 0.0)
        elif kind.startswith("krige-assembly"):
            lean = [dec(r[0]), dec(r[1])]
            ok = close(lean[0], real[0], tol, scale) and close(lean[1], real[1], tol, scale)
            lean = [lean[0].tolist(), lean[1].tolist()]
            real = [real[0].tolist(), real[1].tolist()]
        elif kind == "standard_bins-latlon":
            lean = [r[0], dec(r[1]).tolist()]
            ok = lean[0] == real[0] and close(lean[1], real[1], tol, scale)
        elif kind == "standard_bins-args":
            lean = r if isinstance(r, str) else dec(r).tolist()
            if isinstance(real, str) or isinstance(lean, str):
                ok = real == lean
            else:
                ok = len(lean) == len(real) and close(lean, real, tol, scale)
        elif kind.startswith("vario-bins"):
            lean = r["raised"] if "raised" in r else [dec(r["centres"]).tolist(), dec(r["kernel"]).tolist()]
            if isinstance(real, str) or isinstance(lean, str):
                ok = real == lean
            elif tol == 0.0:
                ok = np.array_equal(lean[0], real[0]) and np.array_equal(lean[1], real[1])
            else:
                ok = close(lean[0], real[0], tol, scale[0]) and close(lean[1], real[1], tol, scale[1])
        else:
            lean = dec(r)
            ok = close(np.ravel(lean), np.ravel(np.asarray(real, dtype=float)), tol, scale)
            lean = lean.tolist()
        if not ok:
            disagreements.append({"what": f"{kind}: gstools differs from the Lean model", "case": case,
                                  "gstools": np.asarray(real, dtype=object).tolist() if not isinstance(real, list) else real, "model": lean})
        if nt:
            nontrivial.add((kind, json_key(case)))
        if len(samples) < 5 and kind not in [s["kind"] for s in samples]:
            samples.append({"kind": kind, "case": case})
    dist["discarded_ill_conditioned"] = discarded
    return {"evaluations": len(ops), "distinct_nontrivial": len(nontrivial),
            "rule": "per round: random + boundary lat/lon (poles, date line, |lon| up to 725), radius in {1, 180/pi, 6371, random}; "
                    "real gstools function / CovModel method vs the Lean model on Float at 1e-12..1e-13 (exact for constructor state); "
                    "distinct = different (kind, input); antipodal haversine pairs and bounding boxes with arcsin argument in (1-1e-6, 1) are discarded; "
                    "histories: live lat-lon / lat-lon+temporal / temporal (1-3 spatial dims) / plain model objects, constructor + 1-8 setters (anis, angles, "
                    "len_scale scalar / list, dim up and down, single-entry re-assignments, rejected values), state (exact) and isometrize / anisometrize "
                    "(1e-12) read after every step against GSV.Model.LatLon.msRun; Krige objects (Simple / Ordinary) on live lat-lon / lat-lon+temporal / "
                    "metric temporal models: 2-8 operations out of in-place setters / model replacement (same covariance in another geo_scale, or other "
                    "parameters) / set_condition with or WITHOUT positions / call with or WITHOUT targets; every assembled kriging matrix and every "
                    "right-hand side against cov(distances of GSV.Model.LatLon.ksRun) (1e-11)",
            "samples": samples, "disagreements": disagreements[:10], "distribution": dist}


def scale_name(R):
    return {1.0: "radian", 57.29577951308232: "degree", 6371.0: "km"}.get(R, "arbitrary")


def json_key(case):
    import json
    return json.dumps(case, sort_keys=True, default=str)


# ====================================================================== independent bookkeeping for histories (search)
def axis_pairs(d):
    """rotation planes in the documented order: (0,1), (0,2), (1,2), (0,3), ... (brute force over axis pairs)"""
    return [(i, j) for j in range(1, d) for i in range(j)]


def ref_rot_spatial(sd, ang):
    """documented conventions of the purely spatial rotation (1-D none, 2-D counter-clockwise, 3-D Rx(roll) Ry(pitch) Rz(yaw))"""
    if sd <= 1:
        return np.eye(max(sd, 0))
    if sd == 2:
        c, s_ = np.cos(ang[0]), np.sin(ang[0])
        return np.array([[c, -s_], [s_, c]])
    y, p_, r = ang[:3]
    rz = np.array([[np.cos(y), -np.sin(y), 0], [np.sin(y), np.cos(y), 0], [0, 0, 1]])
    ry = np.array([[np.cos(p_), 0, np.sin(p_)], [0, 1, 0], [-np.sin(p_), 0, np.cos(p_)]])
    rx = np.array([[1, 0, 0], [0, np.cos(r), -np.sin(r)], [0, np.sin(r), np.cos(r)]])
    return rx @ ry @ rz


class RefModel13:
    """what (dim, len_scale, anis, angles) of a lat-lon / temporal / plain model must be after a setter history, from the
    documentation: ratios padded in front with 1 / cut, angles padded behind with 0 / cut; a list of length scales (edge padded)
    redefines the ratios l[i]/l[0]; lat-lon: dim forced to 3 (+1), the two spatial ratios 1, all angles 0; temporal: every
    angle of a plane that contains the time axis (the last one) is 0 - whatever the order of assignments and dim changes;
    a rejected assignment (ratio not > 0, dim < 1) changes nothing"""

    def __init__(self, latlon, temporal, dim, ls, anis, angles):
        self.latlon, self.temporal = latlon, temporal
        self.dim = 3 + int(temporal) if latlon else dim
        self.L, self.anis = None, None
        self._len(ls, anis)
        self.angles = self._angles(angles)

    def _pad_anis(self, anis):
        a = [float(v) for v in np.atleast_1d(anis)][:max(self.dim - 1, 0)]
        return [1.0] * (self.dim - 1 - len(a)) + a

    def _angles(self, angles):
        pairs = axis_pairs(self.dim)
        a = [float(v) for v in np.atleast_1d(angles)][:len(pairs)]
        a = a + [0.0] * (len(pairs) - len(a))
        if self.latlon:
            return [0.0] * len(pairs)
        if self.temporal:
            a = [0.0 if j == self.dim - 1 else v for v, (i, j) in zip(a, pairs)]
        return a

    def _len(self, ls, anis):
        ls = [float(v) for v in np.atleast_1d(ls)][:self.dim]
        if len(ls) == 1:
            new = self._pad_anis(anis)
        else:
            full = ls + [ls[-1]] * (self.dim - len(ls))
            with np.errstate(all="ignore"):
                new = [float(np.float64(v) / np.float64(full[0])) for v in full[1:]]
        if not all(v > 0 for v in new):
            raise ValueError("ratio")
        if self.latlon:
            new = [1.0, 1.0] + new[2:]
        self.L, self.anis = ls[0], new

    def apply(self, op):
        k, v = op
        if k == "anis":
            self._len([self.L], v)
        elif k == "angles":
            self.angles = self._angles(v)
        elif k == "len":
            self._len(v, self.anis)
        elif k == "dim":
            d = 3 + int(self.temporal) if self.latlon else int(v)
            if d < 1:
                raise ValueError("dim")
            self.dim = d
            self.anis = self._pad_anis(self.anis)
            self.angles = self._angles(self.angles)

    def isometrize(self, R, x):
        """expected isometrize of the points x (field_dim x n): lat-lon -> sphere of radius R (+ t / last ratio);
        temporal -> blockdiag(S^-1 R^T of the spatial part, 1 / last ratio); plain -> S^-1 R^T"""
        x = np.asarray(x, dtype=float)
        if self.latlon:
            sp = R * unit(x[0], x[1]).T
            return np.vstack([sp, x[2:3] / self.anis[-1]]) if self.temporal else sp
        sd = self.dim - int(self.temporal)
        if sd > 3:
            return None
        rot = ref_rot_spatial(sd, self.angles[:sd * (sd - 1) // 2])
        sp = np.diag(1.0 / np.array([1.0] + self.anis[:sd - 1])) @ rot.T @ x[:sd]
        return np.vstack([sp, x[sd:sd + 1] / self.anis[-1]]) if self.temporal else sp



# ====================================================================== one object, geometry changed, documented refresh (search)
def _sep_points(rng, latlon, temporal, dim, k, tries=20):
    """k well separated points of a lat-lon(+time) / metric(+time) model as a (field_dim x k) array"""
    for _ in range(tries):
        if latlon:
            la, lo = np.round(rng.uniform(-85, 85, k), 3), np.round(rng.uniform(-400, 400, k), 3)
            x = np.vstack([la, lo] + ([np.round(rng.uniform(-10, 10, k), 3)] if temporal else []))
            u = unit(la, lo)
            if (angle(u[:, None, :], u[None, :, :]) + np.eye(k) > 2e-2).all():
                return x
        else:
            return np.round(rng.uniform(-5, 5, (dim, k)), 3)
    return None


def _search_refresh13(ctx, rng, gs, report, n_trials):
    """ONE Krige / CondSRF / SRF object on a live lat-lon / lat-lon + temporal / metric temporal model: evaluate on targets, then change
    the geometry - time anisotropy in place (anis list / scalar, per-axis len_scale list), spatial anisotropy / rotation of a metric
    temporal model, scalar len_scale, replace the model by the SAME lat-lon model expressed in another geo_scale (radian <-> degree <-> km
    <-> arbitrary, length scale and time ratio converted), or by another model - then the documented refresh `set_condition()` WITHOUT
    positions, then evaluate with given targets or WITHOUT position argument.  Oracles: (a) the plain isotropic model at independently
    embedded points (sphere of radius geo_scale = chordal / Yadrenko geometry, time / last ratio, spatial S^-1 R^T), (b) a freshly built
    object with a freshly constructed model that is given conditions and targets, (c) a pure change of units must not change the result."""
    ev, cfgs, changes, evals = 0, {}, {}, {}
    for t in range(n_trials):
        k = rng.rand()
        latlon, temporal = (True, True) if k < 0.4 else (True, False) if k < 0.65 else (False, True)
        dim = 3 + int(temporal) if latlon else int(rng.randint(1, 4)) + 1
        base = ["krige", "krige", "krige", "condsrf", "srf"][t % 5]
        Model = [gs.Exponential, gs.Gaussian][int(rng.randint(2))] if (base != "krige" or rng.rand() < 0.6) else pick_model(rng, gs)[1]
        R = gen_radius(rng) if latlon else 1.0
        ls0 = float(np.round(rng.uniform(0.3, 1.5), 3)) * (R if latlon else 2.0)
        var = float(np.round(rng.uniform(0.5, 3.0), 2))
        anis0 = [float(np.round(np.exp(rng.uniform(-1.2, 1.2)), 3)) for _ in range(dim - 1)]
        if latlon and temporal:
            # the time ratio relates time units to lengths in geo_scale units
            anis0[-1] = float(np.round(np.exp(rng.uniform(-1.2, 1.2)) * 10.0 / R, 6))
        angles0 = [float(np.round(rng.uniform(-3, 3), 3)) for _ in range(noa(dim))]

        def make(ls_, anis_, angles_, R_):
            kw = dict(latlon=latlon, temporal=temporal, len_scale=ls_, anis=anis_, angles=angles_, var=var)
            if latlon:
                kw["geo_scale"] = R_
            else:
                kw["dim"] = dim
            return Model(**kw)
        try:
            m = make(ls0, anis0, angles0, R)
        except ValueError:
            continue
        ref = RefModel13(latlon, temporal, dim, [ls0], anis0, angles0)
        cfg = ("latlon" if latlon else "metric") + ("+temporal" if temporal else "")
        ncond = int(rng.randint(3, 7))
        cpos, tgt = _sep_points(rng, latlon, temporal, dim, ncond), _sep_points(rng, latlon, temporal, dim, int(rng.randint(3, 6)))
        if cpos is None or tgt is None:
            continue
        cval = np.round(rng.randn(ncond), 3)
        seed = int(rng.randint(1, 10 ** 6))
        Kcls = [gs.krige.Simple, gs.krige.Ordinary][int(rng.randint(2))]

        def build(m_, cp):
            if base == "srf":
                return gs.SRF(m_, seed=seed, mode_no=32)
            k_ = Kcls(m_, cp, cval)
            return k_ if base == "krige" else gs.CondSRF(k_, seed=seed, mode_no=32)

        def evaluate(o, P=None):
            f = o(P) if P is not None else o()
            return np.array([np.ravel(f[0]), np.ravel(f[1])]) if base == "krige" else np.asarray(f, dtype=float).reshape(1, -1)
        case = dict(object=base, krige=Kcls.__name__ if base != "srf" else None, model=Model.__name__, latlon=latlon, temporal=temporal, dim=dim,
                    geo_scale=R, len_scale=ls0, anis=anis0, angles=angles0, var=var, cond_pos=cpos.tolist(), cond_val=cval.tolist(), seed=seed, steps=[])
        try:
            obj = build(m, cpos)
            prev = evaluate(obj, tgt)
            case["steps"].append(["evaluate", tgt.tolist()])
            stop = False
            for rnd in range(int(rng.randint(1, 4)) if base == "krige" else 1):
                opts = ["len"]
                if temporal:
                    opts += ["time-anis", "time-anis", "time-anis-scalar", "len-list", "len-list"]
                if latlon:
                    opts += ["unit", "unit", "unit"]
                else:
                    opts += ["angles", "anis"]
                opts += ["replace"]
                ch = str(rng.choice(opts))
                pure_units = False
                cur = obj.model
                if ch == "unit":
                    # the same covariance in another unit: lengths (len_scale) scale with geo_scale, the time axis keeps its own length
                    R2 = float(rng.choice([r_ for r_ in RADII if r_ != R] + [float(np.round(rng.uniform(0.1, 1e4), 3))]))
                    l2 = float(cur.len_scale) * R2 / R
                    a2 = list(ref.anis)
                    if temporal:
                        a2[-1] = float(cur.len_scale) * ref.anis[-1] / l2
                    obj.model = make(l2, a2, angles0, R2)
                    ref = RefModel13(latlon, temporal, dim, [l2], a2, angles0)
                    R = R2
                    pure_units = True
                    case["steps"].append(["obj.model = same model in another unit", dict(geo_scale=R2, len_scale=l2, anis=a2)])
                elif ch == "replace":
                    l2 = float(np.round(rng.uniform(0.3, 1.5), 3)) * (R if latlon else 2.0)
                    a2 = [float(np.round(np.exp(rng.uniform(-1.2, 1.2)), 3)) for _ in range(dim - 1)]
                    if latlon and temporal:
                        a2[-1] = float(np.round(np.exp(rng.uniform(-1.2, 1.2)) * 10.0 / R, 6))
                    g2 = [float(np.round(rng.uniform(-3, 3), 3)) for _ in range(noa(dim))]
                    obj.model = make(l2, a2, g2, R)
                    ref = RefModel13(latlon, temporal, dim, [l2], a2, g2)
                    case["steps"].append(["obj.model = other model", dict(len_scale=l2, anis=a2, angles=g2)])
                else:
                    f = float(np.round(np.exp(rng.uniform(0.4, 1.3)) ** rng.choice([-1, 1]), 3))      # a clear change (factor 1.5 .. 3.7 either way)
                    if ch == "time-anis":
                        op = ("anis", list(ref.anis[:-1]) + [float(ref.anis[-1] * f)])
                    elif ch == "time-anis-scalar":
                        op = ("anis", float(ref.anis[-1] * f))
                    elif ch == "len-list":
                        L = float(cur.len_scale)
                        op = ("len", [L * a_ for a_ in [1.0] + list(ref.anis[:-1])] + [L * ref.anis[-1] * f])
                    elif ch == "len":
                        op = ("len", float(cur.len_scale) * f)
                    elif ch == "angles":
                        op = ("angles", [float(np.round(rng.uniform(-3, 3), 3)) for _ in range(noa(dim))])
                    else:
                        op = ("anis", [float(np.round(np.exp(rng.uniform(-1.2, 1.2)), 3)) for _ in range(dim - 2)] + [ref.anis[-1]])
                    ref.apply(op)
                    st = apply_op13(obj.model, op)
                    case["steps"].append([op[0], op[1], st])
                    if st != "ok":
                        stop = True          # setter status is the subject of the history block
                        break
                changes[cfg + ":" + ch] = changes.get(cfg + ":" + ch, 0) + 1
                if base != "srf":
                    (obj if base == "krige" else obj.krige).set_condition()
                    case["steps"].append(["set_condition()"])
                given = bool(rng.rand() < 0.5)
                if given:
                    tgt = _sep_points(rng, latlon, temporal, dim, int(rng.randint(3, 6)))
                    if tgt is None:
                        break
                got = evaluate(obj, tgt if given else None)
                case["steps"].append(["evaluate", tgt.tolist() if given else "stored positions"])
                evals[("given" if given else "stored")] = evals.get(("given" if given else "stored"), 0) + 1
                # ---- oracles
                cur = obj.model
                L = float(cur.len_scale)
                if not (cur.dim == ref.dim and np.allclose(np.asarray(cur.anis), ref.anis, rtol=1e-12, atol=0) and np.array_equal(np.asarray(cur.angles) + 0.0, np.array(ref.angles) + 0.0)):
                    stop = True              # state bookkeeping is the subject of the history block
                    break
                ic, it = ref.isometrize(cur.geo_scale, cpos), ref.isometrize(cur.geo_scale, tgt)
                if ic is None:
                    break
                iso_m = Model(dim=ref.dim, var=float(cur.var), len_scale=L, **{k_: getattr(cur, k_) for k_ in cur.opt_arg})
                fresh_m = Model(latlon=latlon, temporal=temporal, var=float(cur.var), len_scale=L, anis=ref.anis, angles=ref.angles,
                                **(dict(geo_scale=cur.geo_scale) if latlon else dict(dim=dim)), **{k_: getattr(cur, k_) for k_ in cur.opt_arg})
                iso_o, fresh_o = build(iso_m, ic), build(fresh_m, cpos)
                tol = 1e-9 * (1 + (R + 30.0) / L) if base != "krige" else 1e-8
                if base != "srf":
                    cond = np.linalg.cond((fresh_o if base == "krige" else fresh_o.krige)._krige_mat)
                    if not np.isfinite(cond) or cond > 1e6:
                        break
                    tol = max(tol, 1e-12 * cond * 100 + 1e-8)
                want_iso, want_fresh = evaluate(iso_o, it), evaluate(fresh_o, tgt)
                ev += 3
                key = f"refresh:{base}:{cfg}:" + ("given-positions" if given else "stored-positions")
                sc = np.sqrt(var) * max(1.0, np.abs(cval).max())
                if not (got.shape == want_iso.shape and np.allclose(got, want_iso, rtol=tol, atol=tol * sc)):
                    report(key, f"{base} object on a {cfg} model: after the geometry was changed ({ch}) and the setup refreshed by set_condition(), an evaluation "
                           + ("with given targets" if given else "WITHOUT position argument") + " differs from the plain isotropic model at the independently embedded "
                           "points (sphere of radius geo_scale / chordal distance, time divided by the last ratio, spatial S⁻¹Rᵀ): conditions and targets do not "
                           "share ONE current geometry", dict(case, final=dict(geo_scale=float(cur.geo_scale), len_scale=L, anis=ref.anis, angles=ref.angles)),
                           max_dev=float(np.max(np.abs(got - want_iso))) if got.shape == want_iso.shape else None)
                    stop = True
                    break
                if not (got.shape == want_fresh.shape and np.allclose(got, want_fresh, rtol=tol, atol=tol * sc)):
                    report(key + ":vs-fresh-object", f"{base} object on a {cfg} model: after the geometry was changed ({ch}) and the setup refreshed by set_condition(), "
                           "an evaluation differs from a freshly built object (freshly constructed model with the current public values) given conditions and targets",
                           dict(case, final=dict(geo_scale=float(cur.geo_scale), len_scale=L, anis=ref.anis, angles=ref.angles)))
                    stop = True
                    break
                if pure_units and not given and base != "srf":
                    ev += 1
                    # kriging estimates are invariant; variances too (same covariances).  (SRF: the generator resamples with the new length scale.)
                    if not np.allclose(got, prev, rtol=tol, atol=tol * sc):
                        report(f"refresh:{base}:{cfg}:unit-change", f"{base} object on a {cfg} model: replacing the model by the SAME covariance expressed in another "
                               "geo_scale (len_scale and time ratio converted) + set_condition() changes the result at the stored positions", case,
                               max_dev=float(np.max(np.abs(got - prev))))
                        stop = True
                        break
                prev = got
            if stop:
                continue
        except Exception as ex:
            report("refresh:exception", f"{type(ex).__name__}: {ex}", case)
            continue
        cfgs[cfg + ":" + base] = cfgs.get(cfg + ":" + base, 0) + 1
    return ev, cfgs, changes, evals


# ====================================================================== search (real API, independent oracles)
MODELS3D = ["Gaussian", "Exponential", "Matern", "Spherical", "Stable", "Rational", "Cubic", "Linear", "Circular_no"]


def pick_model(rng, gs):
    name = str(rng.choice(["Gaussian", "Exponential", "Matern", "Spherical", "Stable", "Rational", "Cubic", "Linear", "HyperSpherical", "SuperSpherical"]))
    return name, getattr(gs, name)


def capture_krige_matrix(gs, cls, model, cond_pos, cond_val, **kw):
    cap = {}

    def pinv(mat):
        cap["mat"] = np.array(mat, copy=True)
        return np.linalg.pinv(mat)
    k = cls(model, cond_pos, cond_val, pseudo_inv_type=pinv, **kw)
    return k, cap["mat"]


def search(ctx, deep=False):
    import gstools as gs
    from gstools.tools import geometric as G
    rng = np.random.RandomState(ctx.seed + 1302)
    n = ctx.scale(120, 1500) * (3 if deep else 1)
    viol, ev = [], 0
    summary = []

    def report(key, what, case, **extra):
        if sum(1 for v in viol if v["key"] == key) < 2:
            viol.append(dict(key=key, what=what, case=case, **extra))

    with warnings.catch_warnings():
        warnings.simplefilter("ignore")
        # ---------- S0 directed: D16 (universal kriging, functional drift, longitudes outside (-180, 180])
        lat0 = np.array([10.0, -30.0, 45.0, 60.0, -5.0, 20.0])
        lon0 = np.array([0.0, 190.0, -179.0, 33.0, 725.0, 359.5])
        val0 = np.array([1.0, 2.0, 3.0, 4.0, 5.0, 6.0])
        m0 = gs.Exponential(latlon=True, geo_scale=gs.KM_SCALE, len_scale=777.0, var=2.0)
        ku = gs.krige.Universal(m0, (lat0, lon0), val0, drift_functions=[lambda la, lo: lo])
        f0, _ = ku((lat0, lon0))
        ev += 1
        if not np.allclose(f0, val0, atol=1e-8):
            # the same data with longitudes wrapped into (-180, 180] and the drift values kept (external drift) is exact
            report("krige:latlon-drift-wrapped-longitude",
                   "Universal kriging (functional drift) of lat-lon data with longitudes outside (-180,180] does not honour the data: "
                   "the right-hand side evaluates the drift at anisometrize(isometrize(pos)) (wrapped longitude), the matrix at the raw cond_pos",
                   dict(lat=lat0.tolist(), lon=lon0.tolist(), val=val0.tolist(), drift="lambda lat, lon: lon", geo_scale=gs.KM_SCALE),
                   got=f0.tolist(), want=val0.tolist())
        lonw = (lon0 + 180.0) % 360.0 - 180.0
        kw_ = gs.krige.Universal(m0, (lat0, lonw), val0, drift_functions=[lambda la, lo: lo])
        fw, _ = kw_((lat0, lonw))
        ev += 1
        if not np.allclose(fw, val0, atol=1e-8):
            report("krige:latlon-drift", "Universal kriging of lat-lon data (longitudes inside (-180,180]) does not honour the data",
                   dict(lat=lat0.tolist(), lon=lonw.tolist(), val=val0.tolist()), got=fw.tolist())

        for t in range(n):
            R = gen_radius(rng)
            name, Model = pick_model(rng, gs)
            ls = float(np.round(rng.uniform(0.05, 1.5), 3)) * R
            var = float(np.round(rng.uniform(0.5, 3.0), 2))
            nug = float(rng.choice([0.0, 0.1]))
            try:
                m = Model(latlon=True, geo_scale=R, len_scale=ls, var=var, nugget=nug)
                m3 = Model(dim=3, len_scale=ls, var=var, nugget=nug)
            except Exception as ex:
                report("model:latlon-constructor", f"{name}(latlon=True) raised {type(ex).__name__}: {ex}", dict(model=name, R=R))
                continue
            npnt = int(rng.randint(2, 9))
            lat, lon = gen_latlon(rng, npnt)
            # avoid (near-)duplicate points for kriging
            u = unit(lat, lon)
            gc = angle(u[:, None, :], u[None, :, :])          # independent great-circle angles (radians)
            case = dict(model=name, geo_scale=R, len_scale=ls, var=var, nugget=nug, lat=lat.tolist(), lon=lon.tolist())

            # ---------- S1: positions lie on the sphere of radius geo_scale; conversion and back
            iso = m.isometrize((lat, lon))
            ev += 1
            if not np.allclose(np.linalg.norm(iso, axis=0), R, rtol=1e-13, atol=0):
                report("isometrize:not-on-sphere", "isometrize of a lat-lon model leaves the sphere of radius geo_scale", case)
            if not np.allclose(iso.T, R * u, rtol=0, atol=1e-12 * R):
                report("isometrize:wrong-point", "isometrize of a lat-lon model differs from R*(cos lat cos lon, cos lat sin lon, sin lat)", case)
            back = m.anisometrize(iso)
            ev += 1
            # arcsin(z/R) loses half of the digits next to the poles: condition-aware bound eps/cos(lat), capped at sqrt(eps)
            tol3 = R * np.minimum(1e-12 + 1e-15 / np.maximum(np.cos(np.radians(lat)), 1e-300), 1e-7)
            if not np.all(np.abs(G.latlon2pos(back, R) - iso) <= tol3[None, :]):
                report("roundtrip:3d", "latlon -> 3-D -> latlon -> 3-D does not return the same point", case)
            inside = (np.abs(lat) < 89.9)
            dlon = (back[1] - lon + 180.0) % 360.0 - 180.0    # longitude difference modulo 360
            if not (np.allclose(back[0], lat, atol=1e-6 if np.any(np.abs(lat) > 89.99) else 1e-9)
                    and np.all(np.abs(dlon[inside]) < 1e-9) and np.all(np.abs(back[1]) <= 180.0)):
                report("roundtrip:latlon", "latlon -> 3-D -> latlon is not the identity (longitude modulo 360, result in [-180, 180])", case,
                       got=back.tolist(), want=[lat.tolist(), lon.tolist()])

            # ---------- S2: kriging matrix = Yadrenko covariance of the great-circle distance
            sep = (gc + np.eye(npnt) > 1e-3).all()
            if sep:
                val = np.round(rng.randn(npnt), 3)
                cls = [gs.krige.Simple, gs.krige.Ordinary][rng.randint(0, 2)]
                try:
                    k, mat = capture_krige_matrix(gs, cls, m, (lat, lon), val)
                except Exception as ex:
                    report("krige:latlon-exception", f"{cls.__name__} on lat-lon data raised {type(ex).__name__}: {ex}", case)
                    continue
                want = m.cov_yadrenko(R * gc)
                want[np.diag_indices(npnt)] = m.sill          # cov(0) + cond_err (= nugget)
                ev += 1
                if not np.allclose(mat[:npnt, :npnt], want, rtol=0, atol=1e-10 * var):
                    report("krige:matrix-not-yadrenko", "kriging matrix of lat-lon data is not cov_yadrenko(great-circle distance)", case,
                           got=mat[:npnt, :npnt].tolist(), want=want.tolist())
                # same covariances as the metric 3-D model on the embedded points
                k3, mat3 = capture_krige_matrix(gs, cls, m3, R * u.T, val)
                ev += 1
                if not np.allclose(mat, mat3, rtol=0, atol=1e-10 * var):
                    report("krige:matrix-not-3d", "kriging matrix of lat-lon data differs from the 3-D model on the embedded points", case)
                # estimates: independent solve of the simple-kriging equations with the Yadrenko covariance
                tl, tn = gen_latlon(rng, 5)
                tu = unit(tl, tn)
                f, v = k((tl, tn))
                cond = np.linalg.cond(want)
                if cls is gs.krige.Simple and cond < 1e6:
                    c0 = m.cov_yadrenko(R * angle(u[:, None, :], tu[None, :, :]))
                    w = np.linalg.solve(want, c0)
                    ev += 1
                    if not (np.allclose(f, val @ w, atol=1e-8 * (1 + np.abs(val).max())) and
                            np.allclose(v, np.maximum(m.sill - np.sum(w * c0, axis=0), 0), atol=1e-8 * var * cond ** 0.5)):
                        report("krige:estimate-not-yadrenko", "simple kriging of lat-lon data differs from an independent solve with the Yadrenko covariance", case,
                               got=[f.tolist(), v.tolist()], want=[(val @ w).tolist(), (m.sill - np.sum(w * c0, axis=0)).tolist()])
                # ---------- S3: rotation invariance of lat-lon kriging
                if cond < 1e6:
                    Q = np.linalg.qr(rng.randn(3, 3))[0]
                    if np.linalg.det(Q) < 0:
                        Q[:, 0] = -Q[:, 0]
                    rl, rn = to_latlon(u @ Q.T)
                    rtl, rtn = to_latlon(tu @ Q.T)
                    rn = rn + 360.0 * rng.randint(-1, 2, size=npnt)     # also shift some longitudes by full turns
                    kr = cls(m, (rl, rn), val)
                    fr, vr = kr((rtl, rtn))
                    ev += 1
                    if not (np.allclose(fr, f, atol=1e-7 * (1 + np.abs(val).max())) and np.allclose(vr, v, atol=1e-7 * var)):
                        report("krige:not-rotation-invariant", "kriging of lat-lon data changes under a rotation of the sphere", dict(case, Q=Q.tolist()),
                               got=[fr.tolist(), vr.tolist()], want=[f.tolist(), v.tolist()])
                # ---------- S4: conditioned field honours the data (poles, date line, wrapped longitudes)
                if nug == 0.0 and cond < 1e6 and t % 3 == 0:
                    try:
                        cs = gs.CondSRF(cls(m, (lat, lon), val), seed=int(rng.randint(1, 1000)), mode_no=32)
                        cf = cs((lat, lon))
                        ev += 1
                        if not np.allclose(cf, val, atol=1e-6 * (1 + np.abs(val).max())):
                            report("condsrf:latlon-data-not-honoured", "CondSRF on lat-lon data does not reproduce the conditioning values", case,
                                   got=cf.tolist(), want=val.tolist())
                    except Exception as ex:
                        report("condsrf:latlon-exception", f"CondSRF on lat-lon data raised {type(ex).__name__}: {ex}", case)

            # ---------- S5: SRF on lat-lon = SRF of the 3-D model on the embedded points (same seed)
            if t % 2 == 0:
                seed = int(rng.randint(1, 10 ** 6))
                try:
                    s1 = gs.SRF(m, seed=seed, mode_no=64)((lat, lon))
                    s2 = gs.SRF(m3, seed=seed, mode_no=64)(R * u.T)
                    ev += 1
                    if not np.allclose(s1, s2, atol=1e-9 * np.sqrt(var) * (1 + R / ls)):
                        report("srf:latlon-not-3d", "SRF of a lat-lon model differs from the SRF of the 3-D model on the sphere of radius geo_scale", case)
                except Exception as ex:
                    report("srf:latlon-exception", f"SRF on lat-lon positions raised {type(ex).__name__}: {ex}", case)

            # ---------- S6: vario_estimate(latlon=True) against pair enumeration with chord geometry
            nv = int(rng.randint(3, 14))
            vlat, vlon = gen_latlon(rng, nv)
            vu = unit(vlat, vlon)
            chordm = np.linalg.norm(vu[:, None, :] - vu[None, :, :], axis=-1)
            gcm = R * 2.0 * np.arcsin(np.clip(chordm / 2.0, 0, 1))    # great-circle distance from the chord
            gcm2 = R * angle(vu[:, None, :], vu[None, :, :])
            fld = np.round(rng.randn(nv), 3)
            edges = np.sort(np.concatenate([[0.0], rng.uniform(0, np.pi * R, int(rng.randint(1, 6)))]))
            iu = np.triu_indices(nv, 1)
            dd = gcm2[iu]
            near = np.min(np.abs(dd[:, None] - edges[None, :])) < 1e-7 * R
            if not near and np.all(np.diff(edges) > 0):
                bc, gam, cnt = gs.vario_estimate((vlat, vlon), fld, edges, latlon=True, geo_scale=R, return_counts=True)
                df2 = (fld[iu[0]] - fld[iu[1]]) ** 2
                wg, wc = np.zeros(len(edges) - 1), np.zeros(len(edges) - 1, dtype=int)
                for b in range(len(edges) - 1):
                    sel = (dd >= edges[b]) & (dd < edges[b + 1])
                    wc[b] = sel.sum()
                    wg[b] = 0.5 * df2[sel].mean() if wc[b] else 0.0
                ev += 1
                vcase = dict(geo_scale=R, lat=vlat.tolist(), lon=vlon.tolist(), field=fld.tolist(), bin_edges=edges.tolist())
                if not (np.array_equal(cnt, wc) and np.allclose(gam, wg, atol=1e-10)):
                    report("vario:latlon-not-great-circle", "vario_estimate(latlon=True, geo_scale) differs from pair enumeration with great-circle distances of the 3-D geometry",
                           vcase, got=[gam.tolist(), cnt.tolist()], want=[wg.tolist(), wc.tolist()])
                if not np.allclose(gcm[iu], dd, atol=1e-6 * R):
                    report("oracle:inconsistent", "internal: the two independent great-circle oracles disagree", vcase)
            # ---------- S7: standard_bins(latlon) vs independent computation
            P = R * vu
            diam = np.linalg.norm(P.max(axis=0) - P.min(axis=0))
            x = diam / (2 * R)
            if not (1 - 1e-6 < x < 1):
                be = gs.standard_bins((vlat, vlon), latlon=True, geo_scale=R)
                wmax = 2 * R * np.arcsin(min(x, 1.0)) / 3.0
                wn = int(np.ceil(2 * np.log2(nv) + 1))
                ev += 1
                if not (len(be) == wn + 1 and np.allclose(be, np.linspace(0, wmax, wn + 1), rtol=1e-10, atol=1e-10 * R) and be[-1] <= np.pi * R / 3 * (1 + 1e-12)):
                    report("standard_bins:latlon", "standard_bins(latlon=True) differs from linspace(0, great-circle(box diameter)/3, sturges+1)",
                           dict(geo_scale=R, lat=vlat.tolist(), lon=vlon.tolist()), got=be.tolist())
            # ---------- S13: binning units of vario_estimate(latlon=True): {bin_edges given / None} x {bin_no given / None} x
            #            {max_dist given / None} x geo_scale radian / degree / km / arbitrary.  Every length crossing the API
            #            (bin_edges, max_dist, returned centres) is in geo_scale units, the kernel gets radians.
            for rep in range(2):
                bR = gen_geo(rng)
                bn_pts = int(rng.randint(3, 30))
                blat, blon = gen_cloud(rng, bn_pts)
                bu = unit(blat, blon)
                biu = np.triu_indices(bn_pts, 1)
                ang = angle(bu[biu[0]], bu[biu[1]])                # radians, independent of gstools
                bfld = np.round(rng.randn(bn_pts), 3)
                bdf2 = (bfld[biu[0]] - bfld[biu[1]]) ** 2
                combo = (2 * t + rep) % 5                          # 4 = explicit bin_edges
                reach = float(np.max(ang)) if np.max(ang) > 0 else 0.5
                bkw = gen_bin_args(rng, bR, reach, combo=combo) if combo < 4 else {}
                diam_gc, xarg = box_gc_oracle(blat, blon, bR)
                if "max_dist" not in bkw and combo < 4 and 1 - 1e-6 < xarg < 1:
                    continue
                if combo == 4:
                    want_edges = np.sort(np.concatenate([[0.0], rng.uniform(0, 1.2 * reach * bR, int(rng.randint(1, 8)))]))
                    if not np.all(np.diff(want_edges) > 0):
                        continue
                else:
                    want_edges = np.linspace(0.0, bkw.get("max_dist", diam_gc / 3.0), bkw.get("bin_no", sturges_oracle(bn_pts)) + 1)
                mode = "explicit" if combo == 4 else "+".join(sorted(bkw) or ["auto"])
                bcase = dict(geo_scale=bR, lat=blat.tolist(), lon=blon.tolist(), field=bfld.tolist(), mode=mode,
                             bin_edges=want_edges.tolist() if combo == 4 else None, **bkw)
                tag = mode + ":" + scale_name(bR)
                try:
                    with KernelSpy() as bspy:
                        bc, bg, bcnt = gs.vario_estimate((blat, blon), bfld, want_edges if combo == 4 else None, latlon=True, geo_scale=bR,
                                                         return_counts=True, **bkw)
                except Exception as ex:
                    report("vario:latlon-bins-exception:" + mode, f"vario_estimate(latlon=True, geo_scale, {mode}) raised {type(ex).__name__}: {ex}", bcase)
                    continue
                ev += 1
                # automatic cut-off: a difference of coordinates of size R -> absolute tolerance on that scale; given lengths: relative
                atol = 1e-10 * bR if (combo < 4 and "max_dist" not in bkw) else 0.0
                want_c = 0.5 * (want_edges[:-1] + want_edges[1:])
                if not (len(bc) == len(want_c) and np.allclose(bc, want_c, rtol=1e-10, atol=atol)):
                    report("vario:latlon-bin-centres:" + mode, "vario_estimate(latlon=True, geo_scale): returned bin centres are not the mid-points of the "
                           "bins in geo_scale units (bin_edges as given / linspace(0, max_dist or great-circle(box diameter)/3, bin_no or sturges + 1))",
                           bcase, got=np.asarray(bc).tolist(), want=want_c.tolist(), scale=scale_name(bR))
                    continue
                kedges = bspy.got[0]
                if not (len(kedges) == len(want_edges) and np.allclose(kedges, want_edges / bR, rtol=1e-10, atol=atol / bR)):
                    report("vario:latlon-kernel-edges:" + mode, "vario_estimate(latlon=True, geo_scale): the edges handed to the haversine kernel are not the "
                           "bins divided by geo_scale (radians)", bcase, got=kedges.tolist(), want=(want_edges / bR).tolist(), scale=scale_name(bR))
                    continue
                # estimates and counts against brute-force great-circle binning; pairs within rounding of an edge may legitimately move
                safe = len(want_edges) < 2 or np.min(np.abs(ang[:, None] * bR - want_edges[None, :])) > 1e-8 * bR + 10 * atol
                if safe:
                    wg, wc = brute_bins(ang * bR, bdf2, want_edges)
                    ev += 1
                    if not (np.array_equal(bcnt, wc) and np.allclose(bg, wg, rtol=1e-10, atol=1e-12)):
                        report("vario:latlon-bins-not-great-circle:" + mode, "vario_estimate(latlon=True, geo_scale) differs from brute-force binning of the "
                               "great-circle distances (geo_scale units)", bcase, got=[np.asarray(bg).tolist(), np.asarray(bcnt).tolist()],
                               want=[wg.tolist(), wc.tolist()], scale=scale_name(bR))
                # metamorphic: same data in another unit => same variogram, bin centres scaled
                R2 = gen_geo(rng)
                f = R2 / bR
                kw2 = dict(bkw)
                if "max_dist" in kw2:
                    kw2["max_dist"] = kw2["max_dist"] * f
                try:
                    c2, g2, n2 = gs.vario_estimate((blat, blon), bfld, want_edges * f if combo == 4 else None, latlon=True, geo_scale=R2,
                                                   return_counts=True, **kw2)
                except Exception as ex:
                    report("vario:latlon-bins-exception:" + mode, f"vario_estimate(latlon=True, geo_scale, {mode}) raised {type(ex).__name__}: {ex}",
                           dict(bcase, geo_scale=R2))
                    continue
                ev += 1
                if not (len(c2) == len(bc) and np.allclose(c2, np.asarray(bc) * f, rtol=1e-10, atol=atol * f)):
                    report("vario:latlon-unit-change-centres:" + mode, "same lat-lon data, other geo_scale: bin centres are not scaled by the ratio of the units",
                           dict(bcase, geo_scale_2=R2), got=np.asarray(c2).tolist(), want=(np.asarray(bc) * f).tolist())
                elif safe and not (np.array_equal(n2, bcnt) and np.allclose(g2, bg, rtol=1e-10, atol=1e-12)):
                    report("vario:latlon-unit-change:" + mode, "same lat-lon data, other geo_scale: the variogram (estimates / counts) changes",
                           dict(bcase, geo_scale_2=R2), got=[np.asarray(g2).tolist(), np.asarray(n2).tolist()],
                           want=[np.asarray(bg).tolist(), np.asarray(bcnt).tolist()])
            # ---------- S14: standard_bins, every argument combination, lat-lon and metric, unstructured and structured
            for rep in range(2):
                sll = bool(rng.rand() < 0.7)
                sR = gen_geo(rng)
                combo = (2 * t + rep) % 4
                structured = bool(rng.rand() < 0.25)
                if sll:
                    if structured:
                        a0, a1 = np.sort(rng.uniform(-90, 90, int(rng.randint(1, 5)))), np.sort(rng.uniform(-300, 300, int(rng.randint(1, 5))))
                        A, O = np.meshgrid(a0, a1, indexing="ij")
                        arg, plat, plon = (a0, a1), A.ravel(), O.ravel()
                    else:
                        plat, plon = gen_cloud(rng, int(rng.randint(1, 30)))
                        arg = (plat, plon)
                    diam, xarg = box_gc_oracle(plat, plon, sR)
                    if combo & 2 == 0 and 1 - 1e-6 < xarg < 1:
                        continue
                    cnt, sdim, reach = len(plat), 2, 0.5
                else:
                    sdim = int(rng.randint(1, 4))
                    if structured:
                        axes = [np.sort(rng.uniform(-50, 50, int(rng.randint(1, 5)))) for _ in range(sdim)]
                        pts = np.array(np.meshgrid(*axes, indexing="ij")).reshape(sdim, -1)
                        arg = tuple(axes)
                    else:
                        pts = rng.uniform(-50, 50, (sdim, int(rng.randint(1, 30))))
                        arg = tuple(pts)
                    diam = float(np.sqrt(np.sum((pts.max(axis=1) - pts.min(axis=1)) ** 2)))
                    cnt, reach = pts.shape[1], 20.0 / sR
                skw = gen_bin_args(rng, sR, reach, combo=combo)
                want = np.linspace(0.0, skw.get("max_dist", diam / 3.0), skw.get("bin_no", sturges_oracle(cnt)) + 1)
                mode = ("latlon" if sll else "metric") + ":" + "+".join(sorted(skw) or ["auto"])
                scase = dict(latlon=sll, geo_scale=sR, dim=sdim, mesh_type="structured" if structured else "unstructured",
                             pos=[np.asarray(a).tolist() for a in arg], **skw)
                try:
                    be = gs.standard_bins(arg, sdim, sll, mesh_type="structured" if structured else "unstructured", geo_scale=sR, **skw)
                except Exception as ex:
                    report("standard_bins:exception:" + mode, f"standard_bins raised {type(ex).__name__}: {ex}", scase)
                    continue
                ev += 1
                atol = 1e-10 * sR if (sll and "max_dist" not in skw) else 0.0
                if not (len(be) == len(want) and np.allclose(be, want, rtol=1e-10, atol=atol)):
                    report("standard_bins:args:" + mode, "standard_bins differs from linspace(0, max_dist or (great-circle) box diameter / 3, bin_no or sturges + 1); "
                           "max_dist and the result are in geo_scale units", scase, got=np.asarray(be).tolist(), want=want.tolist(), scale=scale_name(sR))
                    continue
                if sll:
                    # the same call in radians, lengths converted
                    kw1 = dict(skw)
                    if "max_dist" in kw1:
                        kw1["max_dist"] = kw1["max_dist"] / sR
                    b1 = gs.standard_bins(arg, sdim, True, mesh_type="structured" if structured else "unstructured", **kw1)
                    ev += 1
                    if not (len(b1) == len(be) and np.allclose(be, b1 * sR, rtol=1e-10, atol=atol)):
                        report("standard_bins:unit-change:" + mode, "standard_bins(latlon=True, geo_scale=s, max_dist=s*m) is not s * standard_bins(latlon=True, max_dist=m)",
                               scase, got=np.asarray(be).tolist(), want=(b1 * sR).tolist(), scale=scale_name(sR))
            # ---------- S11: Krige(fit_variogram=True) on lat-lon data = vario_estimate(latlon, geo_scale) + fit_variogram(sill=var(data))
            if t % 6 == 0 and nv >= 8:
                try:
                    fm1 = gs.Exponential(latlon=True, geo_scale=R, len_scale=0.5 * R)
                    gs.krige.Ordinary(fm1, (vlat, vlon), fld, fit_variogram=True)
                    fm2 = gs.Exponential(latlon=True, geo_scale=R, len_scale=0.5 * R)
                    bcm, gmm = gs.vario_estimate((vlat, vlon), fld - 0.0, latlon=True, geo_scale=R)
                    fm2.fit_variogram(bcm, gmm, sill=np.var(fld))
                    ev += 1
                    if not (np.isclose(fm1.len_scale, fm2.len_scale, rtol=1e-8) and np.isclose(fm1.var, fm2.var, rtol=1e-8)
                            and np.isclose(fm1.nugget, fm2.nugget, rtol=1e-8, atol=1e-12) and bcm[-1] <= np.pi * R / 3 * (1 + 1e-12)):
                        report("krige:fit_variogram-latlon", "Krige(fit_variogram=True) on lat-lon data differs from vario_estimate(latlon=True, geo_scale) + fit_variogram",
                               dict(geo_scale=R, lat=vlat.tolist(), lon=vlon.tolist(), field=fld.tolist()),
                               got=[fm1.len_scale, fm1.var, fm1.nugget], want=[fm2.len_scale, fm2.var, fm2.nugget])
                except (RuntimeError, ValueError):
                    pass
            # ---------- S12: structured lat-lon grid = the same points unstructured
            if t % 6 == 3:
                ga, go = np.sort(rng.uniform(-90, 90, 3)), np.sort(rng.uniform(-400, 400, 4))
                seed = int(rng.randint(1, 10 ** 6))
                try:
                    g1 = gs.SRF(m, seed=seed, mode_no=32)((ga, go), mesh_type="structured")
                    A, O = np.meshgrid(ga, go, indexing="ij")
                    g2 = gs.SRF(m, seed=seed, mode_no=32)((A.ravel(), O.ravel())).reshape(A.shape)
                    ev += 1
                    if not np.allclose(g1, g2, atol=1e-10 * np.sqrt(var) * (1 + R / ls)):
                        report("srf:latlon-structured", "structured lat-lon grid differs from the same points given unstructured", case)
                except Exception as ex:
                    report("srf:latlon-structured-exception", f"{type(ex).__name__}: {ex}", case)
            # ---------- S8: fit_variogram of a lat-lon model recovers a Yadrenko variogram
            if t % 5 == 0:
                xs = np.linspace(0, min(3 * ls, np.pi * R), 30)[1:]
                tm = gs.Exponential(latlon=True, geo_scale=R, len_scale=ls, var=var)
                fm = gs.Exponential(latlon=True, geo_scale=R)
                try:
                    para, _ = fm.fit_variogram(xs, tm.vario_yadrenko(xs), nugget=False)
                    ev += 1
                    if not (abs(fm.len_scale - ls) < 1e-4 * ls and abs(fm.var - var) < 1e-4 * var):
                        report("fit:latlon-not-yadrenko", "fit_variogram of a lat-lon model does not recover the parameters of an exact Yadrenko variogram",
                               dict(geo_scale=R, len_scale=ls, var=var), got=[fm.len_scale, fm.var])
                except RuntimeError:
                    pass

            # ---------- S9: spatio-temporal lat-lon: time appended, scaled by the last ratio only
            if t % 2 == 1:
                kap = float(np.round(rng.uniform(0.2, 5.0), 3))
                tt = np.round(rng.uniform(-20, 20, npnt), 3)
                mt = Model(latlon=True, temporal=True, geo_scale=R, len_scale=ls, var=var, anis=[float(rng.uniform(0.2, 3)), float(rng.uniform(0.2, 3)), kap],
                           angles=rng.uniform(-3, 3, 6))
                tcase = dict(case, time_anis=kap, t=tt.tolist())
                ev += 1
                if not (mt.dim == 4 and mt.field_dim == 3 and np.array_equal(mt.anis, [1.0, 1.0, kap]) and not np.any(mt.angles)):
                    report("model:latlon-temporal-state", "lat-lon + temporal model: dim/anis/angles are not (4, [1,1,time], 0)", tcase,
                           got=[mt.dim, mt.anis.tolist(), mt.angles.tolist()])
                it = mt.isometrize((lat, lon, tt))
                if not (np.allclose(it[:3].T, R * u, atol=1e-12 * R) and np.allclose(it[3], tt / kap, rtol=1e-15, atol=0)):
                    report("isometrize:time-axis", "lat-lon + temporal isometrize: space is not the sphere point or time is not t/anis[-1]", tcase)
                # setters keep the time ratio (D7 regression)
                mt.len_scale = ls * 1.5
                ev += 1
                if mt.anis[-1] != kap:
                    report("model:len_scale-setter-resets-time-anis", "len_scale setter of a lat-lon + temporal model changed the time anisotropy", tcase,
                           got=mt.anis.tolist())
                mt.len_scale = ls
                # same field as the 4-D metric model with anis [1, 1, kap] on (embedded point, t)
                m4 = Model(dim=4, len_scale=ls, var=var, anis=[1.0, 1.0, kap])
                seed = int(rng.randint(1, 10 ** 6))
                try:
                    s1 = gs.SRF(mt, seed=seed, mode_no=64)((lat, lon, tt))
                    s2 = gs.SRF(m4, seed=seed, mode_no=64)(np.vstack([R * u.T, tt]))
                    ev += 1
                    if not np.allclose(s1, s2, atol=1e-9 * np.sqrt(var) * (1 + (R + 20) / ls)):
                        report("srf:latlon-temporal-not-4d", "SRF of a lat-lon + temporal model differs from the 4-D metric model with anis [1,1,time]", tcase)
                    # time scaling metamorphic relation
                    mt1 = Model(latlon=True, temporal=True, geo_scale=R, len_scale=ls, var=var, anis=[1.0, 1.0, 1.0])
                    i1 = mt1.isometrize((lat, lon, tt / kap))
                    ev += 1
                    if not np.allclose(i1, it, atol=1e-12 * (R + 20)):
                        report("isometrize:time-scaling", "time anisotropy k at times t is not the same as anisotropy 1 at times t/k", tcase)
                except Exception as ex:
                    report("srf:latlon-temporal-exception", f"{type(ex).__name__}: {ex}", tcase)
                if sep:
                    sept = True
                    val = np.round(rng.randn(npnt), 3)
                    try:
                        kt, matt = capture_krige_matrix(gs, gs.krige.Simple, mt, (lat, lon, tt), val)
                        dt = (tt[:, None] - tt[None, :]) / kap
                        chord = 2 * R * np.sin(gc / 2)
                        wantt = mt.covariance(np.sqrt(chord ** 2 + dt ** 2))
                        wantt[np.diag_indices(npnt)] = mt.sill
                        ev += 1
                        if not np.allclose(matt[:npnt, :npnt], wantt, atol=1e-10 * var):
                            report("krige:latlon-temporal-matrix", "kriging matrix of lat-lon + time data is not cov(sqrt(chord^2 + (dt/anis_t)^2))", tcase)
                    except Exception as ex:
                        report("krige:latlon-temporal-exception", f"{type(ex).__name__}: {ex}", tcase)

            # ---------- S10: metric spatio-temporal model: no rotation into time
            if t % 4 == 0:
                sd = int(rng.randint(2, 4))
                dm = sd + 1
                an = np.round(rng.uniform(0.3, 3.0, dm - 1), 3)
                ag = np.round(rng.uniform(-3, 3, dm * (dm - 1) // 2), 3)
                mtm = gs.Gaussian(temporal=True, spatial_dim=sd, anis=an, angles=ag, len_scale=1.3)
                msp = gs.Gaussian(dim=sd, anis=an[:sd - 1], angles=ag[: sd * (sd - 1) // 2], len_scale=1.3)
                x = rng.uniform(-4, 4, (dm, 6))
                i_full = mtm.isometrize(x)
                i_sp = msp.isometrize(x[:sd])
                ev += 1
                if not (np.allclose(i_full[:sd], i_sp, atol=1e-12) and np.allclose(i_full[sd], x[sd] / an[-1], rtol=1e-14, atol=0)):
                    report("isometrize:rotation-into-time", "spatio-temporal model: isometrize is not blockdiag(spatial isometrize, 1/anis[-1])",
                           dict(spatial_dim=sd, anis=an.tolist(), angles=ag.tolist(), x=x.tolist()))
        # ---------- S15: geometry after in-place histories (read, change, read) of lat-lon / temporal model objects
        nh = ctx.scale(220, 2500) * (2 if deep else 1)
        h_ops, h_cfg, h_pipe = {}, {}, {}
        for t in range(nh):
            latlon, temporal, dim = gen_hist_config(rng)
            if not latlon and not temporal and dim > 3:
                dim = 3
            R = gen_radius(rng) if latlon else 1.0
            ls = gen_vals(rng, "len", dim, bad=False)
            anis = gen_vals(rng, "anis", dim, bad=False)
            angles = gen_vals(rng, "angles", dim, bad=False)
            # geometry does not depend on the class; classes without an analytic spectral sampler cost 30-80 ms per SRF object
            name, Model = pick_model(rng, gs)
            if rng.rand() < 0.7:
                name = ["Gaussian", "Exponential"][int(rng.randint(2))]
                Model = getattr(gs, name)
            var = float(np.round(rng.uniform(0.5, 3.0), 2))
            kw = dict(latlon=latlon, temporal=temporal, len_scale=ls, anis=anis, angles=angles, var=var)
            if latlon:
                kw["geo_scale"] = R
            elif temporal and t % 2:
                kw["spatial_dim"] = dim - 1
            else:
                kw["dim"] = dim
            try:
                m = Model(**kw)
            except ValueError:
                continue
            ref = RefModel13(latlon, temporal, dim, ls, anis, angles)
            ops = gen_history13(rng, latlon, temporal, dim)
            if not latlon:      # independent rotation formulas exist up to three spatial dimensions
                ops = [(k, min(v, 3 + int(temporal)) if k == "dim" else v) for k, v in ops]
            cfg = ("latlon" if latlon else "metric") + ("+temporal" if temporal else "")
            h_cfg[cfg] = h_cfg.get(cfg, 0) + 1
            hcase = dict(model=name, latlon=latlon, temporal=temporal, dim=dim, geo_scale=R, len_scale=ls, anis=anis, angles=angles, var=var,
                         history=[[k, v] for k, v in ops])
            seed = int(rng.randint(1, 10 ** 6))

            def points(k):
                if latlon:
                    la, lo = gen_latlon(rng, k)
                    return np.vstack([la, lo, np.round(rng.uniform(-30, 30, k), 3)])[:m.field_dim]
                return np.round(rng.uniform(-5, 5, (m.dim, k)), 3)
            bad = False
            for i, op in enumerate(ops + [None]):
                # use the object before changing it (anything remembered from here would be stale afterwards)
                use = ["isometrize", "anisometrize", "srf", "krige", "main_axes", "none"][int(rng.randint(6))] if op is not None else "none"
                p0 = points(4)
                try:
                    if use == "isometrize":
                        m.isometrize(p0)
                    elif use == "anisometrize":
                        m.anisometrize(m.isometrize(p0))
                    elif use == "srf":
                        gs.SRF(m, seed=seed, mode_no=8)(p0)
                    elif use == "krige":
                        gs.krige.Simple(m, p0, rng.randn(4))(p0[:, :2])
                    elif use == "main_axes":
                        m.main_axes()
                except Exception as ex:
                    report("history:use-exception", f"{use} on a model changed in place raised {type(ex).__name__}: {ex}", dict(hcase, step=i))
                    bad = True
                    break
                # state and geometry of the CURRENT state
                ev += 1
                if not (m.dim == ref.dim and np.array_equal(np.asarray(m.anis), ref.anis) and np.array_equal(np.asarray(m.angles) + 0.0, np.array(ref.angles) + 0.0)):
                    report("history:state" + ("-latlon" if latlon else "") + ("-temporal" if temporal else ""),
                           "dim / anis / angles after a setter history differ from the documented rules (lat-lon: dim 3(+1), spatial ratios 1, "
                           "angles 0; temporal: angles of planes containing the time axis 0; len_scale list -> ratios; padding)",
                           dict(hcase, step=i), got=[int(m.dim), np.asarray(m.anis).tolist(), np.asarray(m.angles).tolist()],
                           want=[ref.dim, ref.anis, ref.angles])
                    bad = True
                    if m.dim != ref.dim:
                        break
                x = points(5)
                want = ref.isometrize(m.geo_scale, x)
                got = m.isometrize(x)
                ev += 1
                sc = (R + 30.0) * max(1.0, 1.0 / min(ref.anis + [1.0]))
                if want is not None and not (got.shape == want.shape and np.allclose(got, want, rtol=0, atol=1e-12 * sc)):
                    report("history:isometrize" + ("-latlon" if latlon else "") + ("-temporal" if temporal else ""),
                           "isometrize of a model changed in place: lat-lon -> not the sphere point (+ t / last ratio); temporal -> not "
                           "blockdiag(spatial S⁻¹Rᵀ, 1 / last ratio): the time axis is rotated into space or scaled by the wrong ratio",
                           dict(hcase, step=i, used_before=use, x=x.tolist()), got=got.tolist(), want=want.tolist())
                    bad = True
                    break
                if bad:
                    break
                if temporal:
                    # direct form of the property: a pure time offset moves only the last isometrized coordinate, by dt / anis[-1]
                    dt = float(np.round(rng.uniform(0.5, 5), 3))
                    xs = x.copy()
                    xs[-1] += dt
                    dlt = m.isometrize(xs) - got
                    ev += 1
                    if not (np.allclose(dlt[:-1], 0, atol=1e-11 * sc) and np.allclose(dlt[-1], dt / m.anis[-1], rtol=1e-9, atol=1e-11 * sc)):
                        report("history:time-axis", "after a setter history a pure time offset dt does not move the isometrized point by "
                               "(0, ..., 0, dt / anis[-1])", dict(hcase, step=i, dt=dt), got=dlt.tolist())
                        bad = True
                        break
                back = m.anisometrize(got)
                ev += 1
                if latlon:
                    okb = np.allclose(G.latlon2pos(back[:2], m.geo_scale), got[:3], atol=1e-7 * R) and (not temporal or np.allclose(back[2], x[2], atol=1e-9 * 30))
                else:
                    okb = np.allclose(back, x, atol=1e-10 * sc)
                if not okb:
                    report("history:roundtrip", "anisometrize(isometrize(x)) != x for a model changed in place", dict(hcase, step=i))
                    bad = True
                    break
                if op is None:
                    break
                try:
                    ref.apply(op)
                    want_st = "ok"
                except ValueError:
                    want_st = "ValueError"
                okey = op[0] + ("-list" if isinstance(op[1], list) and len(op[1]) > 1 else "")
                h_ops[okey] = h_ops.get(okey, 0) + 1
                try:
                    st = apply_op13(m, op)
                except Exception as ex:
                    st = type(ex).__name__
                if st != want_st:
                    report("history:setter-status", f"setter {op[0]} = {op[1]}: expected {want_st}, got {st}", dict(hcase, step=i))
                    bad = True
                    break
            if bad:
                continue
            # pipelines on the live object after the history against a FRESH plain isotropic model at independently transformed positions
            d_iso = ref.dim
            npnt = int(rng.randint(3, 8))
            pos = points(npnt)
            ipos = ref.isometrize(m.geo_scale, pos)
            if ipos is None:
                continue
            if latlon:
                uu = unit(pos[0], pos[1])
                if not (angle(uu[:, None, :], uu[None, :, :]) + np.eye(npnt) > 1e-3).all():
                    continue
            try:
                # everything that is not geometry is taken over from the live object (optional arguments keep their values on dim changes)
                iso_m = Model(dim=d_iso, var=float(m.var), len_scale=float(m.len_scale), **{k_: getattr(m, k_) for k_ in m.opt_arg})
            except ValueError:
                continue        # e.g. an optional argument that is out of bounds in the new dimension (C14's subject)
            try:
                kind = ["srf", "krige", "condsrf"][t % 3]
                if kind == "srf":
                    a = gs.SRF(m, seed=seed, mode_no=48)(pos)
                    b = gs.SRF(iso_m, seed=seed, mode_no=48)(ipos)
                    ev += 1
                    okp = np.allclose(a, b, atol=1e-9 * np.sqrt(var) * (1 + (R + 30) / float(m.len_scale)))
                else:
                    val = np.round(rng.randn(npnt), 3)
                    tgt = points(4)
                    itgt = ref.isometrize(m.geo_scale, tgt)
                    ka, kb = gs.krige.Simple(m, pos, val), gs.krige.Simple(iso_m, ipos, val)
                    cond = np.linalg.cond(ka._krige_mat)
                    if not np.isfinite(cond) or cond > 1e6:
                        continue
                    tolk = 1e-12 * cond * 100 + 1e-8
                    if kind == "krige":
                        fa, va = ka(tgt, return_var=True)
                        fb, vb = kb(itgt, return_var=True)
                        okp = np.allclose(fa, fb, rtol=tolk, atol=tolk) and np.allclose(va, vb, rtol=tolk, atol=tolk * var)
                    else:
                        a = gs.CondSRF(ka, seed=seed, mode_no=32)(tgt)
                        b = gs.CondSRF(kb, seed=seed, mode_no=32)(itgt)
                        okp = np.allclose(a, b, rtol=tolk, atol=tolk * (1 + (R + 30) / float(m.len_scale)))
                    ev += 1
            except Exception as ex:
                report("history:pipeline-exception", f"{type(ex).__name__}: {ex}", hcase)
                continue
            h_pipe[kind] = h_pipe.get(kind, 0) + 1
            if not okp:
                report("history:pipeline:" + kind, f"{kind} with a lat-lon / temporal model changed in place differs from the fresh plain isotropic model "
                       "at the independently transformed positions (sphere point / blockdiag(spatial S⁻¹Rᵀ, 1/time ratio))",
                       dict(hcase, final=[ref.dim, ref.L, ref.anis, ref.angles]))
        # ---------- S16: one object, geometry changed (time anisotropy, unit of the sphere, ...), documented refresh, evaluate again
        nr = ctx.scale(120, 1500) * (2 if deep else 1)
        ev_r, r_cfg, r_chg, r_ev = _search_refresh13(ctx, rng, gs, report, nr)
        ev += ev_r
        hist_summary = f"; {nr} Krige / CondSRF / SRF objects on live lat-lon / temporal models {r_cfg}: evaluate, change the geometry {r_chg}, set_condition(), evaluate again {r_ev} " \
                       f"vs the plain isotropic model at independently embedded points, vs a freshly built object, and 'other unit => same result'"
        hist_summary += f"; {nh} live model objects {h_cfg} walked through setter histories {h_ops} with uses before every change: state vs independent " \
                       f"bookkeeping, isometrize vs sphere point / block-diagonal map, pure time offsets, round trips after every step; pipelines after the history {h_pipe}"
    # ---------- S17: space-time grids: generate_st_grid (both mesh types) against an independent product, time last; a field of a
    #             metric temporal model on the generated points equals the structured evaluation on (axes..., time)
    for t in range(ctx.scale(12, 100)):
        sd = int(rng.randint(1, 4))
        tm = np.sort(rng.uniform(0, 10, int(rng.randint(1, 5))))
        kind = "structured" if t % 2 else "unstructured"
        try:
            if kind == "structured":
                axes = [np.sort(rng.uniform(-5, 5, int(rng.randint(1, 4)))) for _ in range(sd)]
                got = np.asarray(gs.generate_st_grid(axes, tm, mesh_type="structured"), dtype=float)
                grid = np.array(np.meshgrid(*axes, tm, indexing="ij")).reshape(sd + 1, -1)
                arg = tuple(axes)
            else:
                pts = rng.uniform(-5, 5, size=(sd, int(rng.randint(1, 6))))
                got = np.asarray(gs.generate_st_grid(pts, tm), dtype=float)
                grid = np.array([[pts[d, i] for i in range(pts.shape[1]) for _ in tm] for d in range(sd)] +
                                [[x for _ in range(pts.shape[1]) for x in tm]])
                arg = pts
            ev += 1
            if got.shape != grid.shape or not np.array_equal(got, grid):
                report("st-grid:" + kind, "generate_st_grid is not the product of the spatial points / grid with the time axis (space major, time last)",
                       dict(spatial_dim=sd, mesh_type=kind, time=tm.tolist(), pos=[np.asarray(a).tolist() for a in arg]))
                continue
            mdl = gs.Exponential(spatial_dim=sd, temporal=True, len_scale=2.0, anis=[float(a) for a in rng.choice([0.5, 1.0, 2.0], size=sd)])
            srf = gs.SRF(mdl, seed=int(rng.randint(1, 10 ** 6)), mode_no=24)
            f1 = np.asarray(srf(got), dtype=float)
            if kind == "structured":
                f2 = np.asarray(srf.structured(tuple(axes) + (tm,)), dtype=float).reshape(-1)
                ev += 1
                if f1.shape != f2.shape or not np.allclose(f1, f2, rtol=0, atol=1e-12):
                    report("st-grid:field", "a temporal model's field on generate_st_grid(..., 'structured') differs from the structured evaluation on (axes..., time)",
                           dict(spatial_dim=sd, time=tm.tolist(), axes=[a.tolist() for a in axes]))
        except Exception as ex:
            report("st-grid:exception", f"{type(ex).__name__}: {ex}", dict(spatial_dim=sd, mesh_type=kind))
    summary = (f"{ev} checks on the real API: D16 directed case; per random configuration (3-D-valid models x geo_scale in radian/degree/km/random, "
               "lat-lon incl. poles, date line, |lon| up to 725): isometrize on the sphere and round trips; captured kriging matrix vs cov_yadrenko of an "
               "independent great-circle distance and vs the 3-D model; simple kriging vs independent solve; rotation invariance (random SO(3) + full turns); "
               "CondSRF honours data; SRF(lat-lon) = SRF(3-D) on embedded points; vario_estimate(latlon) vs chord-geometry pair enumeration; standard_bins; "
               "binning units: vario_estimate(latlon) with bin_edges given/None x bin_no given/None x max_dist given/None x four geo_scale kinds - returned "
               "centres, edges handed to the kernel, estimates and counts vs brute-force great-circle binning, and 'other unit => same variogram, centres scaled'; "
               "standard_bins over the same combinations (lat-lon and metric, structured and unstructured) vs an independent box diameter, and its unit change; "
               "fit_variogram recovers a Yadrenko variogram; lat-lon+time: state, t/anis[-1], setters, 4-D equivalence, kriging matrix; metric temporal: block-diagonal isometrize" + hist_summary)
    return {"evaluations": ev, "violations": viol[:8], "summary": summary}
