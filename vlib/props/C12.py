"""C12 — anisotropy and rotation act as a linear change of coordinates.

correspondence: every geometric helper of gstools/tools/geometric.py, set_len_anis and the CovModel methods
isometrize / anisometrize / main_axes / _get_iso_rad against the Lean model GSV.Model.Geo run on Float
(padding rules bit-exact, matrices within 1e-12 relative to the largest entry); whole ang2dir calls (several directions,
dim=, every input form) against ang2dirCall; live model objects walked through setter histories with reads before and after every
change against the setter state machine mRun; per geometry stratum (neither / anisotropy only with all angles exactly 0 / rotation only
with all ratios exactly 1 / both) x dim 1-4: captured kriging matrix / right-hand sides / generator arrays, the functional drift rows of
universal kriging (every chunk, estimate / variance / only_mean paths) against Pipe.driftPos = anisometrize(isometrize(targets)), and the
Fourier mode lattice of (period, anis) against GSV.Model.Fourier.modesGrid and against the isotropic twin with period P / [1, anis].
search: the real API against independent oracles (explicit 2-D/3-D/4-D rotation formulas, orthogonality and
inverse residuals, main-axis length scales, SRF / Krige / CondSRF / vector-field pipelines under the change of
coordinates with an isotropic model at the transformed positions; ang2dir against ISO 80000-2 formulas; geometry and
pipelines of model objects changed in place against independent bookkeeping and fresh models; every pipeline incl. universal kriging
with linear / quadratic / callable drift, Detrended, only_mean / get_mean, chunked and structured evaluation, CondSRF over universal kriging
and the Fourier generator (period handling, periodicity along rotated main axes, explicit mode sum, axis covariance) x the four geometry
strata x dim 1-4 x six ways of writing the geometry: _search_strata)."""
import warnings

import numpy as np

import proto

ASSUMPTIONS = [
    "theorems are about the hand-written model GSV.Model.Geo instantiated at the reals; it is tied to "
    "gstools/tools/geometric.py, covmodel/tools.py:set_len_anis and CovModel.isometrize/anisometrize/main_axes/"
    "_get_iso_rad by differential execution on Float (1e-12; padding rules and ratios bit-exact)",
    "numpy matmul/dot/cos/sin agree with the Lean Float operations within 1e-12 on O(1) entries (BLAS summation "
    "order, libm)",
    "that Krige and SRF use positions only through model.isometrize (pre_pos, _krige_pos) - and the functional drift terms of the right-hand sides through anisometrize(isometrize(targets)) - is modelled by GSV.Model.Pipe "
    "(composition of the Geo, Krige and Gen models) and tied by capturing the assembled kriging matrix, the right-hand "
    "sides and the generator arrays of real objects (1e-11 / 1e-10); CondSRF and vector fields by the search only",
    "lat-lon and temporal models are out of scope here (C13)",
    "Fourier generator: the mode lattice model GSV.Model.Fourier (deltaK, modesGrid, specFactor; owned by C17) is tied here as well (lattice of real "
    "generators for (period, anis) and for the isotropic twin with period P / [1, anis], 1e-12); the axis-covariance check of the search truncates the "
    "lattice sums (Gaussian model, |k| len_scale >= 8.4, transversal periods >= 7 len_scale anis) and compares at 1e-7 var",
    "that a live CovModel object carries no geometric state besides (dim, len_scale, anis, angles) - the setter state machine "
    "GSV.Model.Geo.mStep - is tied by read / change / read histories (state bit-exact, geometry 1e-12 after every setter), not proved",
    "ang2dir: the whole call (several rows, dim=, transposition, rejected input) is GSV.Model.Geo.ang2dirCall, tied by differential "
    "execution over all input forms; numpy's np.asarray / atleast_2d shape rules are summarised by (pre_dim, rows, ncols)",
]

TOL = 1e-12
SPECIAL = [0.0, np.pi / 2, -np.pi / 2, np.pi, -np.pi, 2 * np.pi, np.pi / 4, 1e-9, -1e-9, 3 * np.pi / 2]


# ------------------------------------------------------------------ generators
def gen_angles(rng, dim, allow_odd=True):
    from gstools.tools.geometric import no_of_angles
    n = no_of_angles(dim)
    kind = rng.rand()
    if not allow_odd or kind < 0.55:
        ln = n
    elif kind < 0.75:
        ln = int(rng.randint(0, n + 1))          # too short (padding behind with 0)
    elif kind < 0.9:
        ln = n + int(rng.randint(1, 3))          # too long (cut)
    else:
        ln = 0
    a = rng.uniform(-2 * np.pi, 2 * np.pi, size=ln)
    for k in range(ln):
        if rng.rand() < 0.2:
            a[k] = SPECIAL[rng.randint(len(SPECIAL))]
    return [float(v) for v in a]


def gen_anis(rng, dim, allow_odd=True):
    kind = rng.rand()
    if not allow_odd or kind < 0.55:
        ln = dim - 1
    elif kind < 0.75:
        ln = int(rng.randint(0, dim))            # too short (padding in front with 1)
    elif kind < 0.9:
        ln = dim - 1 + int(rng.randint(1, 3))    # too long (cut)
    else:
        ln = 0
    a = np.exp(rng.uniform(-2.0, 2.0, size=ln))
    for k in range(ln):
        if rng.rand() < 0.15:
            a[k] = [1.0, 0.5, 2.0, 0.125, 8.0][rng.randint(5)]
    return [float(v) for v in a]


def close_mat(a, b, tol=TOL):
    a = np.asarray(a, dtype=float)
    b = np.asarray(b, dtype=float)
    if a.shape != b.shape:
        return False
    if a.size == 0:
        return True
    if not (np.all(np.isfinite(a)) and np.all(np.isfinite(b))):
        return bool(np.array_equal(np.isnan(a), np.isnan(b)) and np.array_equal(a[np.isfinite(a)], b[np.isfinite(b)]))
    scale = max(1.0, float(np.max(np.abs(a))), float(np.max(np.abs(b))))
    return bool(np.max(np.abs(a - b)) <= tol * scale)


def bits_equal(a, b):
    a = np.atleast_1d(np.asarray(a, dtype=float))
    b = np.atleast_1d(np.asarray(b, dtype=float))
    return a.shape == b.shape and proto.fbits(a) == proto.fbits(b)


def mat(res):
    """decode a driver matrix (list of rows of bit patterns)"""
    if isinstance(res, dict):
        raise RuntimeError(f"driver error: {res}")
    return np.array([proto.unbits(r) for r in res], dtype=float).reshape(len(res), -1)


def vec(res):
    if isinstance(res, dict):
        raise RuntimeError(f"driver error: {res}")
    return np.asarray(proto.unbits(res), dtype=float)


def _pipe_cases(rng, gs, dim, angles, anis, add):
    """Krige / SRF objects with a rotated anisotropic model: captured kriging matrix + right-hand sides and generator
    outputs, to be compared with GSV.Model.Pipe (distCC/distCT, srfRandmeth/srfFourier and the transformed-mode form)."""
    import gstools.krige.base as KB
    var = float(np.round(rng.uniform(0.5, 3), 3))
    ls = float(np.round(np.exp(rng.uniform(-0.5, 1.0)), 3))
    nug = float(rng.choice([0.0, 0.0, 0.25]))
    Model = [gs.Exponential, gs.Gaussian, gs.Spherical][rng.randint(3)]
    with warnings.catch_warnings():
        warnings.simplefilter("ignore")
        model = Model(dim=dim, var=var, len_scale=ls, nugget=nug, anis=anis if anis else 1.0, angles=angles if angles else 0.0)
    fa, fs = proto.fbits(model.angles), proto.fbits(model.anis)
    n, m = int(rng.randint(1, 6)), int(rng.randint(1, 5))
    cpos = rng.randn(dim, n) * 2
    tpos = rng.randn(dim, m) * 2
    if rng.rand() < 0.4:
        tpos[:, 0] = cpos[:, 0]                      # a target on a datum
    exact = bool(nug > 0 and rng.rand() < 0.5)
    cap = {}
    orig_c = KB.calc_field_krige_and_variance_c

    def spy_k(mat_, vecs, cond, num_threads=None):
        cap["vecs"] = np.array(vecs, copy=True)
        return orig_c(mat_, vecs, cond, num_threads)

    def pinv_k(mat_):
        cap["mat"] = np.array(mat_, copy=True)
        return np.linalg.pinv(mat_)
    KB.calc_field_krige_and_variance_c = spy_k
    try:
        Kr = [gs.krige.Simple, gs.krige.Ordinary][rng.randint(2)]
        kk = Kr(model, [c for c in cpos], np.arange(n, dtype=float), pseudo_inv_type=pinv_k, exact=exact)
        kk([c for c in tpos], mesh_type="unstructured")
    finally:
        KB.calc_field_krige_and_variance_c = orig_c
    case = {"dim": dim, "angles": list(map(float, model.angles)), "anis": list(map(float, model.anis)),
            "model": model.name, "var": var, "len_scale": ls, "nugget": nug, "exact": exact, "krige": Kr.__name__,
            "cpos": cpos.tolist(), "tpos": tpos.tolist()}
    if "mat" in cap and "vecs" in cap:
        cf = model.cov_nugget if exact else model.covariance
        add({"op": "pipe_dists", "dim": dim, "n": n, "m": m, "angles": fa, "anis": fs, "cpos": proto.fbits(cpos),
             "tpos": proto.fbits(tpos)}, "Krige matrix/rhs = cov(dist(isometrize))",
            (model.covariance, cf, float(kk.cond_err) if np.ndim(kk.cond_err) == 0 else 0.0,
             cap["mat"][:n, :n], cap["vecs"][:n, :]), "pipe_dists", case)
    # SRF level
    gen = ["randmeth", "fourier"][int(rng.rand() < 0.35)] if dim <= 3 else "randmeth"
    x = int(rng.randint(1, 5))
    pos = rng.randn(dim, x) * 3
    seed = int(rng.randint(1, 10 ** 6))
    with warnings.catch_warnings():
        warnings.simplefilter("ignore")
        m0 = Model(dim=dim, var=var, len_scale=ls, anis=anis if anis else 1.0, angles=angles if angles else 0.0)
        if gen == "randmeth":
            N = int(rng.randint(1, 9))
            srf = gs.SRF(m0, seed=seed, mode_no=N)
            field = srf([c for c in pos], mesh_type="unstructured")
            g = srf.generator
            op = {"op": "pipe_srf", "gen": gen, "dim": dim, "N": N, "X": x, "angles": fa, "anis": fs, "var": proto.f2b(var),
                  "k": proto.fbits(g._cov_sample), "z1": proto.fbits(g._z_1), "z2": proto.fbits(g._z_2), "pos": proto.fbits(pos)}
        else:
            period = [float(v) for v in np.round(rng.uniform(8, 20, dim), 2)]
            srf = gs.SRF(m0, generator="Fourier", seed=seed, period=period, mode_no=[2 * int(rng.randint(1, 3))] * dim)
            field = srf([c for c in pos], mesh_type="unstructured")
            g = srf.generator
            N = int(g._modes.shape[1])
            op = {"op": "pipe_srf", "gen": gen, "dim": dim, "N": N, "X": x, "angles": fa, "anis": fs,
                  "sf": proto.fbits(g._spectrum_factor), "k": proto.fbits(g._modes), "z1": proto.fbits(g._z_1),
                  "z2": proto.fbits(g._z_2), "pos": proto.fbits(pos)}
            # the mode lattice Fourier.update builds from (period, model.anis): GSV.Model.Fourier.modesGrid / deltaK, and the lattice of the
            # ISOTROPIC twin with the period P / [1, anis] (theorem fourier_grid_iso_period: the same lattice) - against the real generator of
            # the anisotropic model AND against a real generator of the isotropic model that is given the divided period
            mno = [int(v) for v in g._mode_no]
            svec = np.concatenate(([1.0], np.asarray(m0.anis, dtype=float)))
            iso0 = Model(dim=dim, var=var, len_scale=ls)
            p_iso = [float(v) for v in np.asarray(period) / svec]
            g_iso = gs.SRF(iso0, generator="Fourier", seed=seed, period=p_iso, mode_no=mno).generator
            fcase = dict(case, gen=gen, period=period, mode_no=mno)
            add({"op": "fourier_grid", "dim": dim, "period": proto.fbits(period), "anis": proto.fbits(m0.anis), "mode_no": mno},
                "Fourier lattice: modes / delta_k of (period P, anis)", (np.asarray(g._modes), np.asarray(g._delta_k)), "fgrid", fcase)
            add({"op": "fourier_grid", "dim": dim, "period": proto.fbits(p_iso), "anis": proto.fbits([1.0] * (dim - 1)), "mode_no": mno},
                "Fourier lattice: isotropic twin with period P / [1, anis] = lattice of the anisotropic generator",
                (np.asarray(g._modes), np.asarray(g._delta_k), np.asarray(g_iso._modes), np.asarray(g_iso._spectrum_factor),
                 np.asarray(g._spectrum_factor)), "fgrid_iso", fcase)
    add(op, "SRF(" + gen + ") = generator(isometrize(pos)) = transformed modes at pos", np.asarray(field, dtype=float), "pipe_srf",
        dict(case, gen=gen, seed=seed, pos=pos.tolist()))


def _drift_fns(kind, dim):
    """(constructor argument, list of functions) of the RAW coordinates: the library's own linear / quadratic families, or two callables"""
    from gstools.krige.tools import get_drift_functions
    if kind == "callable":
        fns = [lambda *p: np.sin(0.7 * np.asarray(p[0]) + 0.3 * np.asarray(p[-1])),
               lambda *p: np.asarray(p[0]) * np.asarray(p[-1]) + 0.5 * np.asarray(p[0])]
        return fns, fns
    return kind, get_drift_functions(dim, kind)


def _drift_case(rng, gs, dim, angles, anis, stratum, add):
    """Universal kriging (functional drift) with a model in a given geometry stratum: the drift rows of every right-hand side the real
    object hands to the kernel (all chunks; estimate, estimate + variance and only_mean paths) against the drift functions evaluated at
    GSV.Model.Pipe.driftPos = anisometrize(isometrize(targets)) of the MODEL; the drift border of the captured kriging matrix against the
    drift functions at the raw conditioning positions."""
    import gstools.krige.base as KB
    var = float(np.round(rng.uniform(0.5, 3), 3))
    ls = float(np.round(np.exp(rng.uniform(-0.5, 1.0)), 3))
    Model = [gs.Exponential, gs.Gaussian, gs.Spherical][rng.randint(3)] if dim <= 3 else gs.Exponential
    kind = ["linear", "quadratic", "callable"][int(rng.randint(3))]
    arg, fns = _drift_fns(kind, dim)
    nf = len(fns)
    with warnings.catch_warnings():
        warnings.simplefilter("ignore")
        model = Model(dim=dim, var=var, len_scale=ls, anis=anis if anis else 1.0, angles=angles if angles else 0.0)
    n, m = nf + 2 + int(rng.randint(1, 5)), int(rng.randint(1, 8))
    cpos = rng.randn(dim, n) * 2
    tpos = rng.randn(dim, m) * 2
    chunk = [None, 1, 2, 3][int(rng.randint(4))]
    path = ["field+var", "field", "only_mean"][int(rng.randint(3))]
    chunks, cap = [], {}
    o1, o2 = KB.calc_field_krige_and_variance_c, KB.calc_field_krige_c

    def spy_v(mat_, vecs, cond, num_threads=None):
        chunks.append(np.array(vecs, copy=True))
        return o1(mat_, vecs, cond, num_threads)

    def spy_f(mat_, vecs, cond, num_threads=None):
        chunks.append(np.array(vecs, copy=True))
        return o2(mat_, vecs, cond, num_threads)

    def pinv_k(mat_):
        cap["mat"] = np.array(mat_, copy=True)
        return np.linalg.pinv(mat_)
    KB.calc_field_krige_and_variance_c, KB.calc_field_krige_c = spy_v, spy_f
    try:
        with warnings.catch_warnings():
            warnings.simplefilter("ignore")
            kk = gs.krige.Universal(model, [c for c in cpos], rng.randn(n), arg, pseudo_inv_type=pinv_k)
            kk([c for c in tpos], mesh_type="unstructured", chunk_size=chunk, return_var=(path == "field+var"), only_mean=(path == "only_mean"))
    finally:
        KB.calc_field_krige_and_variance_c, KB.calc_field_krige_c = o1, o2
    vecs = np.hstack(chunks) if chunks else np.zeros((n + 1 + nf, 0))
    case = {"dim": dim, "stratum": stratum, "angles": list(map(float, model.angles)), "anis": list(map(float, model.anis)), "model": model.name,
            "len_scale": ls, "drift": kind, "chunk_size": chunk, "path": path, "cpos": cpos.tolist(), "tpos": tpos.tolist()}
    add({"op": "pipe_drift", "dim": dim, "m": m, "angles": proto.fbits(model.angles), "anis": proto.fbits(model.anis), "tpos": proto.fbits(tpos)},
        "Universal kriging: drift rows of the right-hand sides = f(anisometrize(isometrize(targets))), drift border of the matrix = f(cond_pos)",
        (fns, n, vecs, cap.get("mat"), cpos, path), "pipe_drift", case)
    return kind, path, chunk


# ------------------------------------------------------------------ ang2dir: whole calls (several directions at once)
ANG_SPECIAL = [0.0, np.pi / 2, -np.pi / 2, np.pi, -np.pi, 2 * np.pi, 3 * np.pi, np.pi / 4, 1e-9, -7.5, 9.0, 5 * np.pi / 2]


def gen_ang2dir_call(rng):
    """one call of ang2dir: (argument as the caller writes it, dim keyword or None, rows after atleast_2d, ncols, pre_dim, form).
    1-4 directions (sometimes 0), 1-3 angles per direction (sometimes 0 / 4 / 5), angles in [-4pi, 4pi] + special values,
    given as scalar / flat list / flat tuple / flat ndarray / nested list / 2-D ndarray / list of 1-D arrays / ragged / 3-D array;
    dim = None / matching / 2 (the transposition rule for flat input) / wrong."""
    ncols = int(rng.choice([1, 2, 3, 1, 2, 3, 1, 2, 3, 0, 4, 5]))
    nrows = int(rng.choice([1, 2, 3, 4, 2, 3, 4, 1, 0]))
    form = str(rng.choice(["scalar", "flat-list", "flat-tuple", "flat-array", "nested-list", "array2d", "array2d", "nested-list",
                           "list-of-arrays", "ragged", "array3d"], p=[.07, .1, .05, .08, .2, .2, .1, .08, .06, .03, .03]))

    def ang(shape):
        a = rng.uniform(-4 * np.pi, 4 * np.pi, size=shape)
        m = rng.rand(*shape) < 0.2
        a[m] = rng.choice(ANG_SPECIAL, size=int(m.sum()))
        return a
    if form == "scalar":
        a = ang((1, 1))
        arg, pre, rows, ncols = float(a[0, 0]), 0, a.tolist(), 1
    elif form.startswith("flat"):
        a = ang((1, ncols))
        pre, rows = 1, a.tolist()
        arg = {"flat-list": a[0].tolist(), "flat-tuple": tuple(a[0].tolist()), "flat-array": a[0].copy()}[form]
    elif form == "ragged":
        nrows = max(nrows, 2)
        ncols = max(ncols, 1)
        a = ang((nrows, ncols))
        rows = a.tolist()
        rows[-1] = rows[-1] + [0.5]
        arg, pre = [list(r) for r in rows], 2
    elif form == "array3d":
        arg, pre, rows = np.zeros((1, max(nrows, 1), max(ncols, 1))), 3, []
    else:
        if nrows == 0 and form != "array2d":
            nrows = 1
        a = ang((nrows, ncols))
        pre, rows = 2, a.tolist()
        arg = {"nested-list": a.tolist(), "array2d": a.copy(), "list-of-arrays": [r.copy() for r in a]}[form]
    r = rng.rand()
    if r < 0.55:
        dim = None
    elif r < 0.75:
        dim = ncols + 1
    elif r < 0.9:
        dim = 2
    else:
        dim = int(rng.randint(0, 6))
    return arg, dim, rows, ncols, pre, form


def call_ang2dir(G, arg, dim):
    try:
        with warnings.catch_warnings():
            warnings.simplefilter("ignore")
            return ("ok", np.array(G.ang2dir(arg, dim=dim) if dim is not None else G.ang2dir(arg), dtype=float))
    except ValueError:
        return ("ValueError",)
    except Exception as e:  # anything else is a disagreement with the model (which only knows ValueError)
        return (type(e).__name__,)


# ------------------------------------------------------------------ in-place histories of a model object
HIST_MODELS = ["Exponential", "Gaussian", "Matern", "Stable", "Rational", "Spherical"]


def gen_len_list(rng, dim):
    """a list of per-axis length scales (2 .. dim+1 entries): random, all equal (-> isotropic), or with a rejected entry"""
    n = int(rng.randint(2, dim + 2))
    r = rng.rand()
    if r < 0.3:
        v = [float(np.round(np.exp(rng.uniform(-1, 1.5)), 3))] * n
    else:
        v = [float(x) for x in np.exp(rng.uniform(-1, 1.5, size=n))]
        if r > 0.92:
            v[int(rng.randint(1, n))] = [0.0, -1.5, float("nan")][int(rng.randint(3))]
    return v


def gen_history(rng, dim, nops=None, dims=(1, 2, 3, 4), bad=True):
    """random setter history: list of (kind, value) with kind in anis / angles / len / dim; values as the caller writes them
    (scalars or lists, short / long / empty lists, rejected ratios); `dim` is followed through the history"""
    ops, last = [], {}
    for _ in range(int(rng.randint(1, 9)) if nops is None else nops):
        k = str(rng.choice(["anis", "angles", "len", "lenlist", "dim"], p=[.2, .2, .12, .3, .18]))
        if k in last and rng.rand() < 0.5:
            # re-assign the previous value of this kind with ONE entry changed (everything else stays what it was)
            v = list(last[k])
            j = int(rng.randint(len(v)))
            v[j] = float(rng.uniform(-3, 3)) if k == "angles" else float(np.round(np.exp(rng.uniform(-1, 1.3)), 3))
            ops.append(("len" if k == "lenlist" else k, v))
            continue
        if k == "anis":
            v = gen_anis(rng, dim)
            if bad and v and rng.rand() < 0.1:
                v[int(rng.randint(len(v)))] = [0.0, -1.0, float("nan")][int(rng.randint(3))]
            if v and rng.rand() < 0.15:
                v = v[0]
            elif v and all(x > 0 for x in v):
                last[k] = v
            ops.append(("anis", v))
        elif k == "angles":
            v = gen_angles(rng, dim)
            if v and rng.rand() < 0.15:
                v = v[0]
            elif v:
                last[k] = v
            ops.append(("angles", v))
        elif k == "len":
            ops.append(("len", float(np.round(np.exp(rng.uniform(-1, 1.5)), 4))))
        elif k == "lenlist":
            v = gen_len_list(rng, dim)
            if not bad:
                v = [x if x > 0 else 1.0 for x in v]
            if all(x > 0 for x in v):
                last[k] = v
            ops.append(("len", v))
        else:
            d = int(rng.choice(dims))
            if bad and rng.rand() < 0.05:
                d = 0
            ops.append(("dim", d))
            if d >= 1:
                dim = d
    return ops


def apply_op(model, op):
    """apply one setter to the real object; returns 'ok' or the exception name (a raising setter must leave the model alone)"""
    k, v = op
    try:
        with warnings.catch_warnings(), np.errstate(all="ignore"):
            warnings.simplefilter("ignore")
            if k == "anis":
                model.anis = v
            elif k == "angles":
                model.angles = v
            elif k == "len":
                model.len_scale = v
            elif k == "intscale":
                model.integral_scale = v
            elif k == "dim":
                model.dim = v
            else:
                raise KeyError(k)
        return "ok"
    except ValueError:
        return "ValueError"


def _as_list(v):
    return [float(x) for x in np.atleast_1d(np.asarray(v, dtype=float))]


def _hist_case(rng, gs, add):
    """one model object walked through a setter history.  After the constructor and after every setter the geometry is READ
    (a random non-empty subset of isometrize / anisometrize / _get_iso_rad / main_axes, everything at the end) - so anything
    the object remembers from an earlier read would show - and compared with GSV.Model.Geo.mRun (state bit-exact, matrices 1e-12)."""
    dim = int(rng.randint(1, 5))
    angles, anis = gen_angles(rng, dim), gen_anis(rng, dim)
    ls = gen_len_list(rng, dim) if rng.rand() < 0.35 else [float(np.round(np.exp(rng.uniform(-1, 1)), 4))]
    ls = [x if x > 0 else 1.0 for x in ls]
    name = HIST_MODELS[int(rng.randint(len(HIST_MODELS)))]
    with warnings.catch_warnings():
        warnings.simplefilter("ignore")
        model = getattr(gs, name)(dim=dim, var=1.5, len_scale=ls if len(ls) > 1 else ls[0], anis=anis if anis else 1.0,
                                  angles=angles if angles else 0.0)
    ops = gen_history(rng, dim)
    n = int(rng.randint(1, 4))
    pos = np.round(rng.randn(4, n) * 3, 3)
    steps = []

    def read(final):
        d = model.dim
        want = {"iso", "ani", "rad", "axes"} if final else {k for k in ("iso", "ani", "rad", "axes") if rng.rand() < 0.6}
        out = {"dim": int(d), "len_scale": float(model.len_scale), "anis": np.array(model.anis, dtype=float),
               "angles": np.array(model.angles, dtype=float)}
        if "iso" in want:
            out["iso"] = np.array(model.isometrize(pos[:d]))
        if "ani" in want:
            out["ani"] = np.array(model.anisometrize(pos[:d]))
        if "rad" in want:
            out["rad"] = np.array(model._get_iso_rad(pos[:d]))
        if "axes" in want:
            out["axes"] = np.array(model.main_axes())
        return out
    steps.append(("ok", read(len(ops) == 0)))
    for i, op in enumerate(ops):
        st = apply_op(model, op)
        steps.append((st, read(i == len(ops) - 1)))
    lops = []
    for k, v in ops:
        if k == "dim":
            lops.append({"k": "dim", "d": int(v)})
        else:
            lops.append({"k": k, "v": proto.fbits(_as_list(v))})
    case = {"model": name, "dim": dim, "len_scale": ls, "anis": anis, "angles": angles, "ops": [[k, v] for k, v in ops],
            "pos": pos.tolist()}
    add({"op": "geo_hist", "dim": dim, "len_scale": proto.fbits(ls), "anis": proto.fbits(anis if anis else [1.0]),
         "angles": proto.fbits(angles if angles else [0.0]), "ops": lops, "n": n, "pos": proto.fbits(pos)},
        "history: state + isometrize/anisometrize/_get_iso_rad/main_axes after every setter", steps, "hist", case)
    return ops


def _cmp_hist(steps, r):
    """compare the real object's reads with the model's run; returns a description of the first difference or None"""
    if isinstance(r, str) or len(r) != len(steps):
        return f"model answered {r if isinstance(r, str) else len(r)} for {len(steps)} steps"
    for i, ((st, obs), m) in enumerate(zip(steps, r)):
        if m[0] != st:
            return f"step {i}: setter status {st} (gstools) vs {m[0]} (model)"
        if int(m[1]) != obs["dim"]:
            return f"step {i}: dim {obs['dim']} vs {m[1]}"
        if not bits_equal([proto.b2f(m[2])], [obs["len_scale"]]):
            return f"step {i}: len_scale {obs['len_scale']} vs {proto.b2f(m[2])}"
        if not bits_equal(vec(m[3]) + 0.0, obs["anis"] + 0.0):
            return f"step {i}: anis {obs['anis'].tolist()} vs {vec(m[3]).tolist()}"
        if not bits_equal(vec(m[4]) + 0.0, obs["angles"] + 0.0):
            return f"step {i}: angles {obs['angles'].tolist()} vs {vec(m[4]).tolist()}"
        d = obs["dim"]
        for key, idx, tr in (("iso", 5, True), ("ani", 6, True), ("axes", 8, False)):
            if key in obs:
                g = mat(m[idx]) if m[idx] else np.zeros((0, 0))
                g = g.T if tr else g
                if not close_mat(g, obs[key]):
                    return f"step {i}: {key} differs: {obs[key].tolist()} vs {g.tolist()}"
        if "rad" in obs and not close_mat(vec(m[7]), obs["rad"]):
            return f"step {i}: iso_rad differs: {obs['rad'].tolist()} vs {vec(m[7]).tolist()}"
    return None


# ------------------------------------------------------------------ Field objects with stored positions (GSV.Model.Pipe.fStep)
def _field_hist_case(rng, gs, add):
    """One SRF / vector-field SRF / Krige object on a LIVE model through a history of in-place model setters, model replacements,
    calls with / without positions and set_condition with / without positions.  Recorded per operation (public observables only):
    setter status; for a call the returned field and a snapshot of what the computation consists of at that moment (a copy of the
    generator / of the model's covariance function); for set_condition the assembled kriging matrix.  Compared afterwards with
    GSV.Model.Pipe.fRun: field = generator(copy)(model's isometrized tuple); right-hand sides = cf(model's distances between the stored
    _krige_pos and the isometrized targets); matrix block = cov(model's distances among _krige_pos)."""
    import copy
    import gstools.krige.base as KB
    kind = ["srf", "krige", "krige", "vector"][int(rng.randint(4))]
    if kind == "vector":
        dim = 2 if rng.rand() < 0.85 else 3
    elif kind == "srf":
        dim = int(rng.randint(1, 3)) if rng.rand() < 0.85 else int(rng.randint(3, 5))
    else:
        dim = int(rng.randint(1, 5))
    Model = [gs.Exponential, gs.Gaussian][int(rng.randint(2))]
    var = float(np.round(rng.uniform(0.5, 3), 3))
    nug = float(rng.choice([0.0, 0.0, 0.25])) if kind == "krige" else 0.0

    def ctor_args():
        ang, an = gen_angles(rng, dim), gen_anis(rng, dim)
        ls = gen_len_list(rng, dim) if rng.rand() < 0.4 else [float(np.round(np.exp(rng.uniform(-0.5, 1.0)), 3))]
        return ls, an, ang

    def make(ls, an, ang):
        with warnings.catch_warnings(), np.errstate(all="ignore"):
            warnings.simplefilter("ignore")
            return Model(dim=dim, var=var, nugget=nug, len_scale=ls if len(ls) > 1 else ls[0], anis=an if an else 1.0, angles=ang if ang else 0.0)
    ls, an, ang = ctor_args()
    ls = [x if x > 0 else 1.0 for x in ls]
    model = make(ls, an, ang)
    seed = int(rng.randint(1, 10 ** 6))
    lops, recs, trace = [], [], []
    cap = {}
    orig_c = KB.calc_field_krige_and_variance_c

    def spy_k(mat_, vecs, cond, num_threads=None):
        cap["vecs"] = np.array(vecs, copy=True)
        return orig_c(mat_, vecs, cond, num_threads)

    def pinv_k(mat_):
        cap["mat"] = np.array(mat_, copy=True)
        return np.linalg.pinv(mat_)

    def rnd_pos(n):
        return np.round(rng.randn(dim, n) * 3, 3)
    KB.calc_field_krige_and_variance_c = spy_k
    try:
        with warnings.catch_warnings():
            warnings.simplefilter("ignore")
            if kind == "krige":
                n = int(rng.randint(1, 6))
                cpos, cval = rnd_pos(n), rng.randn(n)
                obj = [gs.krige.Simple, gs.krige.Ordinary][int(rng.randint(2))](model, cpos, cval, pseudo_inv_type=pinv_k)
                lops.append({"k": "cond", "n": n, "pos": proto.fbits(cpos)})
                recs.append(("cond", cap["mat"][:n, :n].copy(), copy.deepcopy(obj.model), float(obj.cond_err) if np.ndim(obj.cond_err) == 0 else 0.0))
                trace.append(["Krige(model, cond_pos)", cpos.tolist()])
            else:
                obj = gs.SRF(model, seed=seed, mode_no=int(rng.randint(2, 9)), **({"generator": "VectorField"} if kind == "vector" else {}))
            for _ in range(int(rng.randint(2, 9))):
                r = rng.rand()
                if r < 0.34:
                    (k, v), = gen_history(rng, dim, nops=1, dims=(dim,))
                    st = apply_op(obj.model, (k, v))
                    lops.append({"k": "dim", "d": int(v)} if k == "dim" else {"k": k, "v": proto.fbits(_as_list(v))})
                    recs.append(("status", st))
                    trace.append([k, v, st])
                elif r < 0.44:
                    l2, a2, g2 = ctor_args()
                    try:
                        obj.model = make(l2, a2, g2)
                        st = "ok"
                    except ValueError:
                        st = "ValueError"
                    lops.append({"k": "replace", "dim": dim, "len_scale": proto.fbits(l2), "anis": proto.fbits(a2 if a2 else [1.0]),
                                 "angles": proto.fbits(g2 if g2 else [0.0])})
                    recs.append(("status", st))
                    trace.append(["obj.model = Model(...)", l2, a2, g2, st])
                elif r < 0.82 or kind != "krige":
                    given = rng.rand() < 0.45
                    pos = rnd_pos(int(rng.randint(1, 6))) if given else None
                    lops.append({"k": "call", "n": int(pos.shape[1]), "pos": proto.fbits(pos)} if given else {"k": "call"})
                    trace.append(["call", pos.tolist() if given else "stored positions"])
                    try:
                        f = obj(pos) if given else obj()
                    except ValueError:
                        recs.append(("status", "ValueError"))
                        continue
                    if kind == "krige":
                        cf = copy.deepcopy(obj.model)
                        recs.append(("kcall", cap["vecs"][:obj.cond_no, :].copy(), cf))
                    else:
                        recs.append(("fcall", np.array(f, dtype=float), copy.deepcopy(obj.generator)))
                else:
                    given = rng.rand() < 0.35
                    if given:
                        n = int(rng.randint(1, 6))
                        cpos, cval = rnd_pos(n), rng.randn(n)
                        obj.set_condition(cpos, cval)
                        lops.append({"k": "cond", "n": n, "pos": proto.fbits(cpos)})
                    else:
                        obj.set_condition()
                        lops.append({"k": "cond"})
                    n = obj.cond_no
                    recs.append(("cond", cap["mat"][:n, :n].copy(), copy.deepcopy(obj.model), float(obj.cond_err) if np.ndim(obj.cond_err) == 0 else 0.0))
                    trace.append(["set_condition", cpos.tolist() if given else "no arguments"])
    finally:
        KB.calc_field_krige_and_variance_c = orig_c
    case = {"object": kind, "model": Model.__name__, "dim": dim, "var": var, "nugget": nug, "len_scale": ls, "anis": an, "angles": ang,
            "seed": seed, "history": trace}
    add({"op": "pipe_hist", "dim": dim, "len_scale": proto.fbits(ls), "anis": proto.fbits(an if an else [1.0]),
         "angles": proto.fbits(ang if ang else [0.0]), "ops": lops},
        f"Field object history ({kind}): stored positions / _krige_pos follow GSV.Model.Pipe.fStep", recs, "field_hist", case)
    return kind, [o["k"] + ("" if o["k"] not in ("call", "cond") else (":given" if "pos" in o else ":stored")) for o in lops]


def _cmp_field_hist(recs, r):
    """first difference between the recorded real observations and the model's run (None = agree)"""
    if isinstance(r, (str, dict)) or len(r) != len(recs):
        return f"model answered {r if isinstance(r, (str, dict)) else len(r)} for {len(recs)} operations"
    for i, (rec, m) in enumerate(zip(recs, r)):
        if rec[0] == "status":
            if m != rec[1]:
                return f"operation {i}: status {rec[1]} (gstools) vs {m if isinstance(m, str) else m[0]} (model)"
            continue
        if isinstance(m, str):
            return f"operation {i}: gstools succeeded, model says {m}"
        if rec[0] == "fcall":
            if m[0] != "iso":
                return f"operation {i}: model output kind {m[0]}"
            iso = mat(m[1]) if m[1] and m[1][0] else np.zeros((len(m[1]), 0))
            with warnings.catch_warnings():
                warnings.simplefilter("ignore")
                want = np.asarray(rec[2](iso, add_nugget=False), dtype=float)
            if not (want.shape == rec[1].shape and close_mat(want, rec[1], 1e-10)):
                return (f"operation {i}: field {rec[1].tolist()} (gstools) vs generator at the model's isometrized tuple {want.tolist()}")
        elif rec[0] == "kcall":
            if m[0] != "iso" or m[2] is None:
                return f"operation {i}: model has no _krige_pos / output kind {m[0]}"
            want = rec[2].covariance(mat(m[2]))
            if not (want.shape == rec[1].shape and close_mat(want, rec[1], 1e-11)):
                return f"operation {i}: kriging right-hand sides {rec[1].tolist()} (gstools) vs cov(model's distances) {want.tolist()}"
        elif rec[0] == "cond":
            if m[0] != "kpos":
                return f"operation {i}: model output kind {m[0]}"
            dcc = mat(m[2])
            want = rec[2].covariance(dcc) + np.diag(np.full(dcc.shape[0], rec[3]))
            if not (want.shape == rec[1].shape and close_mat(want, rec[1], 1e-11)):
                return f"operation {i}: kriging matrix {rec[1].tolist()} (gstools) vs cov(model's distances among _krige_pos) {want.tolist()}"
    return None


# ------------------------------------------------------------------ correspondence
def correspondence(ctx):
    import gstools as gs
    from gstools.covmodel.tools import set_len_anis
    from gstools.tools import geometric as G

    rng = np.random.RandomState(ctx.seed + 1200)
    ncase = ctx.scale(600, 6000)
    ops, checks = [], []          # checks: (what, case, expected (python), comparator kind)
    dist = {}

    def add(op, what, expected, kind, case):
        ops.append(op)
        checks.append((what, case, expected, kind))
        dist[what] = dist.get(what, 0) + 1

    # exhaustive small part: planes and angle counts for dim 0..8
    for dim in range(0, 9):
        add({"op": "geo_planes", "dim": dim}, "rotation_planes", [list(p) for p in G.rotation_planes(dim)], "ints", {"dim": dim})
        add({"op": "geo_no_angles", "dim": dim}, "no_of_angles", [G.no_of_angles(dim)], "ints", {"dim": dim})

    for t in range(ncase):
        dim = int(rng.randint(1, 5))
        angles = gen_angles(rng, dim)
        anis = gen_anis(rng, dim)
        case = {"dim": dim, "angles": angles, "anis": anis}
        fa, fs = proto.fbits(angles), proto.fbits(anis)
        # padding rules: bit exact
        add({"op": "geo_set_angles", "dim": dim, "angles": fa}, "set_angles", G.set_angles(dim, angles), "bits", case)
        add({"op": "geo_set_anis", "dim": dim, "anis": fs}, "set_anis", G.set_anis(dim, anis), "bits", case)
        # scalar arguments are 1-element lists
        if t % 7 == 0 and angles:
            add({"op": "geo_set_angles", "dim": dim, "angles": fa[:1]}, "set_angles", G.set_angles(dim, angles[0]), "bits",
                {"dim": dim, "angles": angles[0]})
        if t % 7 == 1 and anis:
            add({"op": "geo_set_anis", "dim": dim, "anis": fs[:1]}, "set_anis", G.set_anis(dim, anis[0]), "bits",
                {"dim": dim, "anis": anis[0]})
        # one Givens rotation (also degenerate plane p == q and reversed planes: the model follows the writes)
        p, q = int(rng.randint(0, dim)), int(rng.randint(0, dim))
        ang = float(rng.uniform(-7, 7)) if rng.rand() < 0.8 else float(SPECIAL[rng.randint(len(SPECIAL))])
        add({"op": "geo_givens", "dim": dim, "p": p, "q": q, "angle": proto.f2b(ang)}, "givens_rotation",
            G.givens_rotation(dim, (p, q), ang), "mat", {"dim": dim, "plane": [p, q], "angle": ang})
        add({"op": "geo_rotate", "dim": dim, "angles": fa}, "matrix_rotate", G.matrix_rotate(dim, angles), "mat", case)
        add({"op": "geo_derotate", "dim": dim, "angles": fa}, "matrix_derotate", G.matrix_derotate(dim, angles), "mat", case)
        add({"op": "geo_main_axes", "dim": dim, "angles": fa}, "rotated_main_axes", G.rotated_main_axes(dim, angles), "mat", case)
        add({"op": "geo_isotropify", "dim": dim, "anis": fs}, "matrix_isotropify", G.matrix_isotropify(dim, anis), "mat", case)
        add({"op": "geo_anisotropify", "dim": dim, "anis": fs}, "matrix_anisotropify", G.matrix_anisotropify(dim, anis), "mat", case)
        add({"op": "geo_isometrize", "dim": dim, "angles": fa, "anis": fs}, "matrix_isometrize",
            G.matrix_isometrize(dim, angles, anis), "mat", case)
        add({"op": "geo_anisometrize", "dim": dim, "angles": fa, "anis": fs}, "matrix_anisometrize",
            G.matrix_anisometrize(dim, angles, anis), "mat", case)

        # set_len_anis: structured + malformed stream
        r = rng.rand()
        if r < 0.45:
            ls = [float(np.exp(rng.uniform(-1, 2)))]
        elif r < 0.9:
            ls = [float(v) for v in np.exp(rng.uniform(-1, 2, size=int(rng.randint(2, dim + 3))))]
        else:
            ls = []
        an2 = list(anis)
        if rng.rand() < 0.25 and an2:
            an2[rng.randint(len(an2))] = [0.0, -1.0, float("nan"), -0.0, float("inf")][rng.randint(5)]
        if rng.rand() < 0.15 and len(ls) > 1:
            ls[rng.randint(len(ls))] = [0.0, -2.0, float("nan")][rng.randint(3)]
        try:
            with warnings.catch_warnings(), np.errstate(all="ignore"):
                warnings.simplefilter("ignore")
                l0, oa = set_len_anis(dim, ls, an2)
            exp = ("ok", float(l0), np.asarray(oa, dtype=float))
        except ValueError:
            exp = ("ValueError",)
        except IndexError:
            exp = ("IndexError",)
        add({"op": "geo_set_len_anis", "dim": dim, "len_scale": proto.fbits(ls), "anis": proto.fbits(an2)}, "set_len_anis",
            exp, "lenanis", {"dim": dim, "len_scale": ls, "anis": an2})

        # CovModel methods on a position tuple
        if t % 2 == 0:
            n = int(rng.randint(1, 5))
            pos = rng.randn(dim, n) * 3
            if rng.rand() < 0.3:
                pos = np.round(pos)
            len_scale = float(np.exp(rng.uniform(-1, 1)))
            with warnings.catch_warnings():
                warnings.simplefilter("ignore")
                model = gs.Exponential(dim=dim, var=1.0, len_scale=len_scale, anis=anis if anis else 1.0,
                                       angles=angles if angles else 0.0)
            # what the constructor stored must be the padded vectors
            add({"op": "geo_set_angles", "dim": dim, "angles": fa if angles else proto.fbits([0.0])}, "CovModel.angles",
                model.angles, "bits", case)
            add({"op": "geo_set_anis", "dim": dim, "anis": fs if anis else proto.fbits([1.0])}, "CovModel.anis",
                model.anis, "bits", case)
            iso = model.isometrize(pos)
            ani = model.anisometrize(pos)
            rad = model._get_iso_rad(pos)
            c2 = dict(case, pos=pos.tolist())
            add({"op": "geo_model_pos", "dim": dim, "n": n, "angles": proto.fbits(model.angles), "anis": proto.fbits(model.anis),
                 "pos": proto.fbits(pos)}, "CovModel.isometrize/anisometrize/_get_iso_rad", (iso, ani, rad), "modelpos", c2)
            add({"op": "geo_main_axes", "dim": dim, "angles": proto.fbits(model.angles)}, "CovModel.main_axes",
                model.main_axes(), "mat", case)

        # pipelines (GSV.Model.Pipe): what a real Krige / SRF object built with the rotated anisotropic model hands to
        # its covariance function / generator kernel, against the composed model (isometrize -> distances / kernel)
        if t % 6 == 0:
            _pipe_cases(rng, gs, dim, angles, anis, add)

        # ang2dir (one direction)
        if t % 3 == 0:
            na = int(rng.randint(0, 5))
            aa = [float(v) for v in rng.uniform(-4, 4, size=na)]
            try:
                if na == 1:
                    ev = ("ok", np.asarray(G.ang2dir(aa[0]))[0])
                else:
                    ev = ("ok", np.asarray(G.ang2dir([aa]))[0])
            except ValueError:
                ev = ("ValueError",)
            add({"op": "geo_ang2dir", "angles": proto.fbits(aa)}, "ang2dir", ev, "ang2dir", {"angles": aa})

        # ang2dir, whole calls: several directions at once, dim= argument, transposition rule, every input form
        if t % 2 == 1:
            arg, adim, rows, ncols, pre, form = gen_ang2dir_call(rng)
            ev = call_ang2dir(G, arg, adim)
            op = {"op": "geo_ang2dir_call", "pre_dim": pre, "ncols": ncols, "rows": [proto.fbits(r_) for r_ in rows]}
            if adim is not None:
                op["dim"] = adim
            add(op, "ang2dir call", ev, "ang2dir_call", {"form": form, "rows": rows, "ncols": ncols, "dim": adim})
            dk = f"ang2dir call: {form}, rows={len(rows)}, cols={ncols}, dim={'None' if adim is None else ('match' if adim == ncols + 1 else adim)}"
            dist[dk] = dist.get(dk, 0) + 1

    # pipelines per geometry stratum (neither / anisotropy only, all angles exactly 0 / rotation only, all ratios exactly 1 / both) x dim 1-4:
    # captured kriging matrix / right-hand sides, generator arrays, Fourier lattice, and the functional drift terms of universal kriging
    for rep in range(ctx.scale(2, 20)):
        for dim in (1, 2, 3, 4):
            for stratum in (STRATA if dim > 1 else STRATA[:1]):
                s_ang, s_anis, _ = gen_stratum(rng, dim, stratum)
                _pipe_cases(rng, gs, dim, s_ang, s_anis, add)
                dk_, dp_, dc_ = _drift_case(rng, gs, dim, s_ang, s_anis, stratum, add)
                for k_ in (f"drift terms: stratum {stratum}", f"drift terms: {dk_}", f"drift terms: path {dp_}", f"drift terms: chunk_size {dc_}"):
                    dist[k_] = dist.get(k_, 0) + 1

    # in-place histories (read / change / read) of live model objects
    for t in range(ctx.scale(250, 2500)):
        for k, _v in _hist_case(rng, gs, add):
            dist["history op: " + k] = dist.get("history op: " + k, 0) + 1

    # Field objects (SRF / vector-field SRF / Krige) on a live model: stored positions, stored _krige_pos, in-place changes, replacements
    for t in range(ctx.scale(100, 1200)):
        fk, fops = _field_hist_case(rng, gs, add)
        for k in fops:
            dist[f"field history ({fk}) op: " + k] = dist.get(f"field history ({fk}) op: " + k, 0) + 1

    res = proto.run_driver(ops)
    dis, samples = [], []
    seen = set()
    for (what, case, exp, kind), r in zip(checks, res):
        ok = True
        got = None
        try:
            if kind == "ints":
                got = r
                ok = (r == exp)
            elif kind == "bits":
                got = vec(r)
                ok = bits_equal(got, exp)
            elif kind == "mat":
                got = mat(r) if r else np.zeros((0, 0))
                ok = close_mat(got, np.asarray(exp).reshape(got.shape) if np.size(exp) == got.size else exp)
            elif kind == "lenanis":
                if exp[0] != "ok":
                    got = r
                    ok = (r == exp[0])
                else:
                    ok = isinstance(r, list) and bits_equal([proto.b2f(r[0])], [exp[1]]) and bits_equal(vec(r[1]), exp[2])
                    got = r
            elif kind == "modelpos":
                iso, ani, rad = exp
                g_iso = mat(r[0]).T if r[0] else np.zeros_like(iso)
                g_ani = mat(r[1]).T if r[1] else np.zeros_like(ani)
                g_rad = vec(r[2])
                got = [g_iso, g_ani, g_rad]
                ok = close_mat(g_iso, iso) and close_mat(g_ani, ani) and close_mat(g_rad, rad)
            elif kind == "pipe_dists":
                # real matrix block / rhs rows = cf(model's distances): apply the REAL covariance functions to the model's tables
                cov, cf, err, kmat, kvecs = exp
                dcc, dct = mat(r[0]), mat(r[1])
                got = [cov(dcc) + np.diag(np.full(dcc.shape[0], err)), cf(dct)]
                ok = close_mat(got[0], kmat, 1e-11) and close_mat(got[1], kvecs, 1e-11)
            elif kind == "pipe_srf":
                got = [vec(r[0]), vec(r[1])]
                ok = close_mat(got[0], exp, 1e-10) and close_mat(got[1], exp, 1e-10)
            elif kind == "fgrid":
                modes, dk = exp
                got = [np.asarray(proto.unbits(r["delta_k"]), dtype=float), mat(r["modes"]) if r["modes"] and r["modes"][0] else np.zeros((len(r["modes"]), 0))]
                ok = close_mat(got[0], dk) and got[1].shape == modes.shape and close_mat(got[1], modes)
            elif kind == "fgrid_iso":
                modes, dk, modes_iso, sf_iso, sf = exp
                got = [np.asarray(proto.unbits(r["delta_k"]), dtype=float), mat(r["modes"]) if r["modes"] and r["modes"][0] else np.zeros((len(r["modes"]), 0))]
                ok = (close_mat(got[0], dk) and got[1].shape == modes.shape and close_mat(got[1], modes)
                      and modes_iso.shape == modes.shape and close_mat(modes_iso, got[1]) and close_mat(sf_iso, sf, 1e-10))
            elif kind == "pipe_drift":
                fns, n, vecs, kmat, cpos, path = exp
                dp, ip = mat(r[0]), mat(r[1])
                want = np.array([np.broadcast_to(np.asarray(f(*dp), dtype=float), (dp.shape[1],)) for f in fns]).reshape(len(fns), -1)
                border = np.array([np.asarray(f(*cpos), dtype=float) for f in fns]).reshape(len(fns), -1)
                got = [want, border]
                rows = vecs[n + 1:n + 1 + len(fns), :]
                ok = (rows.shape == want.shape and close_mat(want, rows, 1e-11) and bool(np.all(vecs[n, :] == 1.0))
                      and kmat is not None and close_mat(kmat[n + 1:n + 1 + len(fns), :n], border, 1e-11)
                      and close_mat(kmat[:n, n + 1:n + 1 + len(fns)], border.T, 1e-11)
                      and (path != "only_mean" or bool(np.all(vecs[:n, :] == 0.0))))
                exp = [rows, None if kmat is None else kmat[n + 1:n + 1 + len(fns), :n]]
            elif kind == "ang2dir":
                if exp[0] != "ok":
                    got = r
                    ok = (r == exp[0])
                else:
                    got = vec(r) if not isinstance(r, str) else r
                    ok = (not isinstance(r, str)) and close_mat(got, exp[1])
            elif kind == "ang2dir_call":
                if exp[0] != "ok" or isinstance(r, str):
                    got = r
                    ok = (r == exp[0])
                else:
                    got = np.array([proto.unbits(x) for x in r], dtype=float).reshape(len(r), -1) if r else np.zeros((0, exp[1].shape[1]))
                    ok = got.shape == exp[1].shape and close_mat(got, exp[1])
            elif kind == "hist":
                got = _cmp_hist(exp, r)
                ok = got is None
                exp = [(st, {k_: _tolist(v_) for k_, v_ in o.items()}) for st, o in exp] if not ok else None
            elif kind == "field_hist":
                got = _cmp_field_hist(exp, r)
                ok = got is None
                exp = None
        except Exception as e:  # malformed driver answer
            ok = False
            got = f"{type(e).__name__}: {e}"
        key = (what, case.get("dim"), len(case.get("angles", [])) if isinstance(case.get("angles"), list) else -1,
               len(case.get("anis", [])) if isinstance(case.get("anis"), list) else -1)
        seen.add(key)
        if len(samples) < 6 and what in ("matrix_rotate", "set_anis", "matrix_isometrize"):
            samples.append({"what": what, "case": case})
        if not ok:
            dis.append({"what": what, "case": case, "impl": _tolist(exp), "model": _tolist(got)})
    return {"evaluations": len(ops), "distinct_nontrivial": len(seen),
            "rule": "random dim 1-4, angle/anis vectors of correct, short, long and empty length incl. special angles; "
                    "distinct = (helper, dim, len(angles), len(anis)) classes hit; non-trivial = at least one non-zero angle "
                    "or non-unit ratio in the class; whole ang2dir calls: 0-4 rows x 0-5 angles in [-4pi,4pi] x 10 input forms x dim None / "
                    "match / 2 / wrong; histories: live model objects of 6 classes, constructor (scalar / per-axis len_scale) + 1-8 setters "
                    "(anis, angles, len_scale scalar / list, dim 1-4, single-entry re-assignments, rejected values), state and a random "
                    "subset of the geometry read after every step; Field objects (SRF, vector-field SRF, Simple / Ordinary kriging) on a live model: "
                    "2-8 operations out of in-place setters / model replacement / call with or WITHOUT positions / set_condition with or without "
                    "positions, every returned field, right-hand side and kriging matrix against GSV.Model.Pipe.fRun; per geometry stratum (neither / "
                    "anis-only with angles exactly 0 / rot-only with ratios exactly 1 / both; all or a single non-trivial entry) x dim 1-4: Krige / SRF / "
                    "Fourier captures as above plus Universal kriging (linear / quadratic / callable drift, chunk sizes None/1/2/3, field / field+var / "
                    "only_mean): drift rows of all right-hand sides vs drift functions at GSV.Model.Pipe.driftPos, drift border of the matrix vs drift "
                    "functions at the raw conditioning points; Fourier lattice (modes, delta_k) vs GSV.Model.Fourier.modesGrid for (P, anis) and for the "
                    "isotropic twin (P/[1,anis], 1) and vs a real isotropic generator with the divided period",
            "samples": samples, "disagreements": dis[:20], "distribution": dist}


def _tolist(x):
    if isinstance(x, np.ndarray):
        return x.tolist()
    if isinstance(x, (list, tuple)):
        return [_tolist(v) for v in x]
    if isinstance(x, (np.floating, np.integer)):
        return x.item()
    if callable(x):
        return repr(x)
    return x


# ------------------------------------------------------------------ independent oracles for the search
def ref_plane_rot(dim, i, j, a):
    """right-handed rotation by a in the oriented plane (e_i -> e_j)"""
    m = np.eye(dim)
    c, s = np.cos(a), np.sin(a)
    m[i, i] = c
    m[j, j] = c
    m[i, j] = -s
    m[j, i] = s
    return m


def ref_rotate(dim, ang):
    """explicit documented conventions, written independently of rotation_planes / the sign loop"""
    ang = list(ang)
    if dim == 1:
        return np.eye(1)
    if dim == 2:
        c, s = np.cos(ang[0]), np.sin(ang[0])
        return np.array([[c, -s], [s, c]])
    if dim == 3:
        y, p, r = ang
        rz = np.array([[np.cos(y), -np.sin(y), 0], [np.sin(y), np.cos(y), 0], [0, 0, 1]])
        ry = np.array([[np.cos(p), 0, np.sin(p)], [0, 1, 0], [-np.sin(p), 0, np.cos(p)]])
        rx = np.array([[1, 0, 0], [0, np.cos(r), -np.sin(r)], [0, np.sin(r), np.cos(r)]])
        return rx @ ry @ rz
    if dim == 4:
        a0, a1, a2, a3, a4, a5 = ang
        return (ref_plane_rot(4, 2, 3, -a5) @ ref_plane_rot(4, 1, 3, a4) @ ref_plane_rot(4, 0, 3, -a3)
                @ ref_plane_rot(4, 1, 2, a2) @ ref_plane_rot(4, 0, 2, -a1) @ ref_plane_rot(4, 0, 1, a0))
    raise ValueError(dim)


def ref_pad_angles(dim, ang):
    """documented: too few angles are filled up with 0 (behind), surplus angles are ignored"""
    n = dim * (dim - 1) // 2
    a = [float(v) for v in np.atleast_1d(ang)][:n]
    return a + [0.0] * (n - len(a))


def ref_pad_anis(dim, anis):
    """documented: too few ratios -> the first dimensions are filled up with 1 (anis=[e] in 3-D is [1, e])"""
    a = [float(v) for v in np.atleast_1d(anis)][:max(dim - 1, 0)]
    return [1.0] * (dim - 1 - len(a)) + a


def ref_iso_matrix(dim, ang, anis):
    s = np.concatenate(([1.0], np.asarray(ref_pad_anis(dim, anis), dtype=float)))
    return np.diag(1.0 / s) @ ref_rotate(dim, ref_pad_angles(dim, ang)).T


def ref_dir(a):
    """direction of one row of spherical angles, written independently of the product loop of ang2dir:
    2-D (cos az, sin az); 3-D ISO 80000-2 (sin inc cos az, sin inc sin az, cos inc) with (az, inc) = row;
    n-D by the recursion x = (sin(a_last) * x', cos(a_last)) down to (sin a0, cos a0)"""
    a = [float(v) for v in a]
    if len(a) == 1:
        return np.array([np.cos(a[0]), np.sin(a[0])])
    if len(a) == 2:
        az, inc = a
        return np.array([np.sin(inc) * np.cos(az), np.sin(inc) * np.sin(az), np.cos(inc)])

    def rec(b):
        if len(b) == 1:
            return np.array([np.sin(b[0]), np.cos(b[0])])
        return np.concatenate([np.sin(b[-1]) * rec(b[:-1]), [np.cos(b[-1])]])
    return rec(a)


class RefModel:
    """independent bookkeeping of what a plain CovModel's (dim, len_scale, anis, angles) must be after a setter history,
    from the documentation: anis padded in front with 1 / cut, angles padded behind with 0 / cut, a list of length scales
    (edge padded to dim) redefines the ratios as l[i]/l[0] and the main length scale as l[0], a single one keeps the ratios;
    a rejected assignment (ratio not > 0, dim < 1) changes nothing."""

    def __init__(self, dim, ls, anis, angles):
        self.dim, self.L, self.anis, self.angles = dim, None, None, ref_pad_angles(dim, angles)
        self._len(ls, anis)

    def _len(self, ls, anis):
        ls = [float(v) for v in np.atleast_1d(ls)][:self.dim]
        if len(ls) == 1:
            new = ref_pad_anis(self.dim, anis)
        else:
            full = ls + [ls[-1]] * (self.dim - len(ls))
            with np.errstate(all="ignore"):
                new = [float(np.float64(v) / np.float64(full[0])) for v in full[1:]]
        if not all(v > 0 for v in new):
            raise ValueError("ratio")
        self.L, self.anis = ls[0], new

    def apply(self, op):
        k, v = op
        if k == "anis":
            self._len([self.L], v)
        elif k == "angles":
            self.angles = ref_pad_angles(self.dim, v)
        elif k in ("len", "intscale"):
            self._len(v, self.anis)
        elif k == "dim":
            if v < 1:
                raise ValueError("dim")
            self.dim = int(v)
            self.anis = ref_pad_anis(self.dim, self.anis)
            self.angles = ref_pad_angles(self.dim, self.angles)

    def matrix(self):
        return ref_iso_matrix(self.dim, self.angles, self.anis)


def _viol(viol, key, what, case, **kw):
    if len(viol) < 12:
        viol.append(dict({"key": key, "what": what, "case": case}, **kw))


# ------------------------------------------------------------------ pipelines evaluated on STORED positions
STORED_KINDS = ["srf", "krige", "srf_struct", "condsrf", "vector", "krige_struct", "srf", "condsrf_struct"]


def _clamp_ops(rng, ops, intscale=0.15):
    """moderate ratios keep kriging systems well conditioned; per-axis integral scales are a second way to write a list"""
    out = []
    for k, v in ops:
        if k == "anis" and isinstance(v, list):
            v = [float(min(max(a, 0.25), 4.0)) if a > 0 else a for a in v]
        if k == "len" and isinstance(v, list):
            v = [float(min(max(a, 0.4), 4.0)) if a > 0 else a for a in v]
            if rng.rand() < intscale and all(a > 0 for a in v):
                k = "intscale"
        out.append((k, v))
    return out


def _flat_pos(P, mesh, d):
    """the (d x n) point table of a stored position tuple (structured: the 'ij' grid, flattened in C order)"""
    if mesh == "structured":
        return np.array(np.meshgrid(*P, indexing="ij")).reshape(d, -1)
    return np.asarray(P, dtype=float).reshape(d, -1)


def _search_stored(ctx, rng, gs, viol, n_trials):
    """One Field object (SRF / structured SRF / vector-field SRF / Krige / CondSRF) is built on a LIVE model object and given positions
    (by a call or by set_pos).  Then, one or several times: the model held by the object is changed IN PLACE (angles / anis / per-axis
    len_scale or integral_scale list / scalar len_scale / dim re-assignment / rejected values) or REPLACED by another model object;
    kriging objects are refreshed the documented way (set_condition() without positions) - or the library itself changes the held model
    in place (set_condition(fit_variogram=True), directional fit of an anisotropic start model); the object is evaluated WITHOUT position
    argument (obj(), obj(seed=...), obj.structured(), obj.unstructured()).  Oracles: (a) the same pipeline class with a FRESH isotropic
    unrotated model at the independently transformed stored positions S^-1 R^T x (conditioning points transformed alike), (b) a brand-new
    object with a freshly constructed anisotropic model that is GIVEN the positions.  Now and then new positions are passed (and become
    the stored ones).  Anything an object (or its model) remembers of transformed coordinates from an earlier evaluation shows here."""
    ev = 0
    kinds, opcount, hows = {}, {}, {}
    cheap = [gs.Exponential, gs.Gaussian]
    other = [gs.Matern, gs.Stable, gs.Rational, gs.Spherical, gs.Cubic, gs.HyperSpherical]
    for t in range(n_trials):
        kind = STORED_KINDS[t % len(STORED_KINDS)]
        struct = kind.endswith("_struct")
        base = kind.split("_")[0]
        gen_based = base != "krige"          # a generator without analytic sampler (any class in dim >= 3, most classes) costs 20-70 ms per object
        if base == "vector":
            dim = 2 if rng.rand() < 0.88 else 3
        elif gen_based:
            dim = int(rng.randint(1, 3)) if rng.rand() < 0.88 else int(rng.randint(3, 4 if struct else 5))
        elif struct:
            dim = int(rng.randint(1, 4))
        else:
            dim = int(rng.randint(1, 5)) if t % 3 else int(rng.randint(2, 4))
        Mcls = cheap[int(rng.randint(2))] if (rng.rand() < (0.95 if gen_based else 0.6) or base == "vector") else other[int(rng.randint(len(other)))]
        if Mcls in (gs.Cubic, gs.Spherical) and dim > 3:
            dim = 3
        costly = gen_based and (dim >= 3 or Mcls not in cheap)
        var = float(np.round(np.exp(rng.uniform(-1, 1)), 3))

        def new_model():
            ang0, anis0 = gen_angles(rng, dim), [float(min(max(a, 0.25), 4.0)) for a in gen_anis(rng, dim)]
            ls0 = [float(min(max(x, 0.4), 4.0)) if x > 0 else 1.0 for x in gen_len_list(rng, dim)] if rng.rand() < 0.4 \
                else [float(np.round(np.exp(rng.uniform(-0.5, 1)), 4))]
            with warnings.catch_warnings():
                warnings.simplefilter("ignore")
                m_ = Mcls(dim=dim, var=var, len_scale=ls0 if len(ls0) > 1 else ls0[0], anis=anis0 if anis0 else 1.0,
                          angles=ang0 if ang0 else 0.0)
            return m_, RefModel(dim, ls0, anis0 if anis0 else [1.0], ang0 if ang0 else [0.0]), [ls0, anis0, ang0]
        try:
            model, ref, ctor = new_model()
        except ValueError:
            continue
        seed = int(rng.randint(1, 2**31 - 1))
        # some kriging objects get their model changed IN PLACE by the library itself: set_condition(fit_variogram=True) fits the held
        # model (directional fit for an anisotropic start model: the ratios change) before the setup is rebuilt
        # (kriging only: a fitted nugget > 0 adds fresh random noise to every conditioned field)
        fit_trial = base == "krige" and dim >= 2 and rng.rand() < 0.3
        ncond = int(rng.randint(14, 25)) if fit_trial else int(rng.randint(3, 8))
        cpos, cval = rng.randn(dim, ncond) * 3, rng.randn(ncond)
        Kcls = [gs.krige.Ordinary, gs.krige.Simple][int(rng.randint(2))]
        mode_no = 32

        def build(m_, cp):
            if base == "srf":
                return gs.SRF(m_, seed=seed, mode_no=mode_no)
            if base == "vector":
                return gs.SRF(m_, generator="VectorField", seed=seed, mode_no=mode_no)
            k_ = Kcls(m_, cp, cval)
            return k_ if base == "krige" else gs.CondSRF(k_, seed=seed, mode_no=mode_no)

        def new_pos():
            if struct:
                return [np.sort(rng.randn(int(rng.randint(2, 4))) * 3) for _ in range(dim)], "structured"
            return rng.randn(dim, int(rng.randint(3, 9))) * 3, "unstructured"

        def evaluate(o, P=None, mesh=None, how="plain"):
            """raw result of one evaluation, flattened to (..., n) in C order"""
            kw = {}
            if P is not None:
                kw = dict(pos=P, mesh_type=mesh)
            if how == "seed" and base != "krige":
                kw["seed"] = seed
            if how == "method":
                f = (o.structured if (mesh or o.mesh_type) == "structured" else o.unstructured)(**{k_: v_ for k_, v_ in kw.items() if k_ != "mesh_type"})
            else:
                f = o(**kw)
            if base == "krige":
                return np.array([np.ravel(f[0]), np.ravel(f[1])])
            f = np.asarray(f, dtype=float)
            return f.reshape(dim, -1) if base == "vector" else f.reshape(1, -1)

        case = {"pipeline": kind, "model": Mcls.__name__, "dim": dim, "var": var, "ctor": ctor, "krige": Kcls.__name__ if base in ("krige", "condsrf") else None,
                "seed": seed, "steps": []}
        try:
            with warnings.catch_warnings():
                warnings.simplefilter("ignore")
                obj = build(model, cpos)
                P, mesh = new_pos()
                how0 = ["call", "set_pos"][int(rng.rand() < 0.35)]
                if how0 == "call":
                    evaluate(obj, P, mesh)
                else:
                    obj.set_pos(P, mesh)
                case["steps"].append(["store:" + how0, mesh, [np.asarray(a).tolist() for a in P]])
                hows["store:" + how0] = hows.get("store:" + how0, 0) + 1
                bad, had_int = False, False
                for rnd in range(1 if costly else int(rng.randint(1, 4))):
                    last_state = (ref.L, list(ref.anis), list(ref.angles))
                    # ---- the change: in-place setters on the model the object holds, or a replacement of the model object
                    fitted = False
                    if fit_trial and rnd == 0:
                        kobj = obj if base == "krige" else obj.krige
                        try:
                            kobj.set_condition(fit_variogram=True)
                        except (RuntimeError, ValueError):
                            bad = True
                            break
                        mm = obj.model
                        ref = RefModel(dim, [float(mm.len_scale)], [float(a) for a in mm.anis] or [1.0], [float(a) for a in mm.angles] or [0.0])
                        had_int, fitted = True, True
                        case["steps"].append(["set_condition(fit_variogram=True)", dict(len_scale=float(mm.len_scale), var=float(mm.var), nugget=float(mm.nugget),
                                                                                     anis=[float(a) for a in mm.anis], angles=[float(a) for a in mm.angles])])
                        opcount["fit_variogram"] = opcount.get("fit_variogram", 0) + 1
                    elif rng.rand() < 0.15:
                        model, ref, ctor2 = new_model()
                        obj.model = model
                        case["steps"].append(["replace-model", ctor2])
                        opcount["replace-model"] = opcount.get("replace-model", 0) + 1
                        had_int = False
                    else:
                        ops = _clamp_ops(rng, gen_history(rng, dim, nops=int(rng.randint(1, 3)), dims=(dim,)))
                        for op in ops:
                            try:
                                ref.apply(op)
                                want_st = "ok"
                            except ValueError:
                                want_st = "ValueError"
                            st = apply_op(obj.model, op)
                            key = op[0] + ("-list" if isinstance(op[1], list) and len(op[1]) > 1 else "")
                            opcount[key] = opcount.get(key, 0) + 1
                            case["steps"].append([op[0], op[1], st])
                            had_int |= op[0] == "intscale" and st == "ok"
                            if st != want_st:        # setter status is the subject of the history block above
                                bad = True
                                break
                        if bad:
                            break
                    now_state = (ref.L, list(ref.anis), list(ref.angles))
                    flat_l = [last_state[0]] + last_state[1] + last_state[2]
                    flat_n = [now_state[0]] + now_state[1] + now_state[2]
                    if not had_int and flat_l != flat_n and len(flat_l) == len(flat_n) and np.all(np.isclose(flat_l, flat_n)):
                        bad = True              # inside the np.isclose band of the generators' model comparison: C11 / C17 (known finding)
                        break
                    # ---- documented refresh of a kriging setup after model properties were changed
                    if base in ("krige", "condsrf") and not fitted:
                        kobj = obj if base == "krige" else obj.krige
                        if rng.rand() < 0.25:
                            kobj.set_condition(cond_val=cval)
                            case["steps"].append(["set_condition(cond_val=same values)"])
                        else:
                            kobj.set_condition()
                            case["steps"].append(["set_condition()"])
                    # ---- evaluation WITHOUT positions, or (sometimes) with new given positions
                    given = rng.rand() < 0.25
                    if given:
                        P, mesh = new_pos()
                    how = ["plain", "seed", "method"][int(rng.randint(3))]
                    got = evaluate(obj, P if given else None, mesh if given else None, how)
                    case["steps"].append(["evaluate", "given positions" if given else "stored positions", how] + ([[np.asarray(a).tolist() for a in P]] if given else []))
                    hows[("given:" if given else "stored:") + how] = hows.get(("given:" if given else "stored:") + how, 0) + 1
                    # ---- oracles
                    d, M = ref.dim, ref.matrix()
                    L = float(obj.model.len_scale)
                    if not had_int and not np.isclose(L, ref.L, rtol=1e-15, atol=0):
                        bad = True              # reported by the history block (history:len_scale)
                        break
                    pub = dict(dim=d, var=float(obj.model.var), len_scale=L, nugget=float(obj.model.nugget), **{k_: getattr(obj.model, k_) for k_ in obj.model.opt_arg})
                    iso_m = Mcls(**pub)
                    fresh_m = Mcls(anis=ref.anis if ref.anis else 1.0, angles=ref.angles if ref.angles else 0.0, **pub)
                    X = _flat_pos(P, mesh, d)
                    iso_o = build(iso_m, M @ cpos)
                    fresh_o = build(fresh_m, cpos)
                    tol = 1e-9
                    if base in ("krige", "condsrf"):
                        cond = np.linalg.cond((fresh_o if base == "krige" else fresh_o.krige)._krige_mat)
                        if not np.isfinite(cond) or cond > 1e6:
                            break
                        tol = 1e-12 * cond * 100 + 1e-9
                    want_iso = evaluate(iso_o, M @ X, "unstructured")
                    want_fresh = evaluate(fresh_o, P, mesh)
                    ev += 3
                    sfx = ":given-positions" if given else ":stored-positions"
                    if not (got.shape == want_iso.shape and np.allclose(got, want_iso, rtol=tol, atol=tol)):
                        _viol(viol, f"pipeline:{base}{sfx}:after-model-change", f"{kind}: after the model of the object was changed in place / replaced"
                              + (" and the kriging setup refreshed by set_condition() [or the model fitted in place by set_condition(fit_variogram=True)]" if base in ("krige", "condsrf") else "") + ", an evaluation "
                              + ("with given positions" if given else "WITHOUT position argument (stored positions)") + " differs from the same pipeline with the fresh "
                              "isotropic model at S⁻¹Rᵀx of the CURRENT (angles, anis)", dict(case, final=[d, L, ref.anis, ref.angles]),
                              max_dev=float(np.max(np.abs(got - want_iso))) if got.shape == want_iso.shape else None)
                        bad = True
                        break
                    if not (got.shape == want_fresh.shape and np.allclose(got, want_fresh, rtol=tol, atol=tol)):
                        _viol(viol, f"pipeline:{base}{sfx}:vs-fresh-object", f"{kind}: after the model of the object was changed in place / replaced, an evaluation "
                              + ("with given positions" if given else "WITHOUT position argument (stored positions)") + " differs from a brand-new object with a freshly "
                              "constructed model (current public values) that is given the positions", dict(case, final=[d, L, ref.anis, ref.angles]))
                        bad = True
                        break
                if bad:
                    continue
        except Exception as e:
            ctx.log(f"search: stored-positions {kind} {Mcls.__name__} dim={dim} raised {type(e).__name__}: {e}")
            continue
        kinds[kind] = kinds.get(kind, 0) + 1
    return ev, kinds, opcount, hows


# ------------------------------------------------------------------ geometry strata x every pipeline
STRATA = ["neither", "anis-only", "rot-only", "both"]
STRATA_PIPES = ["srf", "srf_struct", "srf_fourier", "vector", "krige_simple", "krige_ordinary", "krige_universal_linear",
                "krige_universal_quadratic", "krige_universal_callable", "krige_extdrift", "krige_detrended", "krige_mean",
                "condsrf_ordinary", "condsrf_universal"]
CTOR_FORMS = ["kw", "omit", "lenlist", "inplace", "scalar"]     # + "live" (kriging / CondSRF: the model is moved into the stratum after the object exists)


def gen_stratum(rng, dim, stratum):
    """(angles, anis, detail) of full length lying EXACTLY in one geometry stratum:
    neither = every angle == 0.0 and every ratio == 1.0;  anis-only = every angle == 0.0, at least one ratio != 1;
    rot-only = every ratio == 1.0, at least one angle != 0;  both.  The non-trivial entries are either all entries or a single
    one at a random index (a single non-zero angle that is not the first one, a single non-unit ratio that is not the first one),
    ratios in [0.25, 4] away from 1, angles in (-pi, pi] away from 0 (now and then a quarter / half turn)."""
    na, ns = dim * (dim - 1) // 2, dim - 1
    angles, anis, detail = [0.0] * na, [1.0] * ns, []
    if stratum in ("anis-only", "both") and ns:
        idx = list(range(ns)) if (ns == 1 or rng.rand() < 0.5) else [int(rng.randint(ns))]
        for i in idx:
            a = float(np.exp(rng.uniform(np.log(1.25), np.log(4.0))))
            a = float(np.round(a, 3)) if rng.rand() < 0.5 else a
            anis[i] = a if rng.rand() < 0.5 else 1.0 / a
        detail.append("anis:all" if len(idx) == ns else f"anis:single[{idx[0]}]")
    if stratum in ("rot-only", "both") and na:
        idx = list(range(na)) if (na == 1 or rng.rand() < 0.5) else [int(rng.randint(na))]
        for i in idx:
            v = float(rng.uniform(0.2, np.pi - 0.2)) * (1 if rng.rand() < 0.5 else -1)
            if rng.rand() < 0.15:
                v = float([np.pi / 2, -np.pi / 2, np.pi, np.pi / 4][int(rng.randint(4))])
            angles[i] = v
        detail.append("angles:all" if len(idx) == na else f"angles:single[{idx[0]}]")
    return angles, anis, ",".join(detail) or "trivial"


def build_stratum_model(rng, Mcls, dim, kw, angles, anis, form):
    """the same (angles, anis) written the ways a caller can write them; returns (model, ratios the documentation promises).
    kw: anis= / angles= lists;  omit: trivial arguments are left out (defaults);  lenlist: per-axis len_scale list instead of anis;
    inplace: isotropic unrotated model, then model.anis = ... / model.angles = ... ;  scalar: a single ratio / angle as a plain float."""
    L = kw["len_scale"]
    rest = {k_: v_ for k_, v_ in kw.items() if k_ != "len_scale"}
    want = list(anis)
    triv_s, triv_a = all(a == 1.0 for a in anis), all(a == 0.0 for a in angles)
    if form == "lenlist" and dim >= 2:
        ll = [L] + [L * a for a in anis]
        want = [float(np.float64(v) / np.float64(ll[0])) for v in ll[1:]]
        m = Mcls(len_scale=ll, **rest) if triv_a else Mcls(len_scale=ll, angles=angles, **rest)
    elif form == "omit":
        args = {}
        if not triv_s:
            args["anis"] = anis
        if not triv_a:
            args["angles"] = angles
        m = Mcls(len_scale=L, **args, **rest)
    elif form == "inplace":
        m = Mcls(len_scale=L, **rest)
        if dim >= 2:
            if rng.rand() < 0.5:
                m.anis = anis
                m.angles = angles
            else:
                m.angles = angles
                m.anis = anis
    elif form == "scalar" and dim == 2:
        m = Mcls(len_scale=L, anis=anis[0], angles=angles[0], **rest)
    else:
        m = Mcls(len_scale=L, anis=anis if anis else 1.0, angles=angles if angles else 0.0, **rest)
    return m, want


def _periodized_cov(cov, t, period, terms=4):
    """sum_m cov(|t + m*period|): covariance of a field that is `period`-periodic along the line (transversal images negligible)"""
    return float(sum(cov(abs(t + m * period)) for m in range(-terms, terms + 1)))


def _search_strata(ctx, rng, gs, viol, reps, deep=False):
    """EVERY pipeline (SRF, structured SRF, Fourier SRF, vector field, Simple / Ordinary / Universal(linear, quadratic, callable drift) /
    ExtDrift / Detrended kriging, kriging mean (only_mean=True, get_mean), CondSRF over Ordinary and over Universal kriging) in EVERY geometry
    stratum (neither / anisotropy only with all angles exactly 0 / rotation only with all ratios exactly 1 / both; all entries non-trivial or a
    single one) in every dimension the class allows (1-4), the geometry written in five ways (keywords, trivial arguments omitted, per-axis
    len_scale list, in-place setters, plain floats), kriging with chunk sizes None / 1 / 2 / 3 / 5, unstructured and structured targets.
    Oracle: the same pipeline class with the isotropic unrotated model at S^-1 R^T x (matrix written independently; conditioning points alike;
    callable drifts / trends composed with the inverse map; Fourier period divided by [1, anis]).  Universal kriging additionally against the
    data: values that are exactly a polynomial of the drift's degree in the RAW coordinates are reproduced at every target.  Fourier fields
    additionally: exact periodicity along each rotated main axis with the period given for that axis, the explicit mode sum with wave
    vectors R (2 pi n / P) at the raw positions, and (Gaussian model, wide transversal periods) the covariance along main axis i =
    periodized covariance of the isotropic model with len_scale * anis[i-1]."""
    ev = 0
    cover, skipped = {}, {}
    krige_models = [gs.Gaussian, gs.Exponential, gs.Matern, gs.Stable, gs.Rational, gs.Spherical, gs.Cubic, gs.HyperSpherical]
    gen_models = [gs.Gaussian, gs.Exponential]
    fourier_models = [gs.Gaussian, gs.Gaussian, gs.Exponential, gs.Matern]

    def lin_t(*p):
        return 0.4 + sum((0.3 + 0.2 * i) * np.asarray(p[i]) for i in range(len(p)))

    def g1(*p):
        return np.sin(0.7 * np.asarray(p[0]) + 0.3 * np.asarray(p[-1]))

    def g2(*p):
        return np.asarray(p[0]) * np.asarray(p[-1]) + 0.5 * np.asarray(p[0]) - 0.25 * np.asarray(p[len(p) // 2])

    def composed(f, Minv):
        """f in the raw coordinates, as a function of the isotropic coordinates"""
        def h(*q):
            q = np.asarray(q, dtype=float)
            return f(*(Minv @ q.reshape(len(q), -1)).reshape(q.shape))
        return h

    for rep in range(reps):
        for kind in STRATA_PIPES:
            gen_based = kind in ("srf", "srf_struct", "srf_fourier", "vector") or kind.startswith("condsrf")
            if kind == "vector":
                dims = [2, 3]
            elif kind == "srf_fourier":
                dims = [1, 2, 3]
            elif gen_based:
                dims = [1, 2, 3] + ([4] if (rep + STRATA_PIPES.index(kind)) % 3 == 0 else [])
            else:
                dims = [1, 2, 3, 4]
            for dim in dims:
                for stratum in (STRATA if dim > 1 else STRATA[:1]):
                    angles, anis, detail = gen_stratum(rng, dim, stratum)
                    form = CTOR_FORMS[int(rng.randint(len(CTOR_FORMS)))]
                    if dim >= 2 and (kind.startswith("krige") or kind.startswith("condsrf")) and rng.rand() < 0.25:
                        form = "live"       # the Krige object is built on a generically rotated anisotropic model; then the model is moved INTO the stratum in place
                    if kind == "srf_fourier":
                        Mcls = fourier_models[int(rng.randint(len(fourier_models)))]
                    elif gen_based:
                        Mcls = gen_models[int(rng.randint(2))]
                    else:
                        Mcls = krige_models[int(rng.randint(len(krige_models)))]
                        if Mcls in (gs.Cubic, gs.Spherical) and dim > 3:
                            Mcls = gs.Exponential
                    L = float(np.round(np.exp(rng.uniform(-0.3, 0.8)), 3))
                    kw = dict(dim=dim, var=float(np.round(np.exp(rng.uniform(-1, 1)), 3)), len_scale=L)
                    seed = int(rng.randint(1, 2**31 - 1))
                    case = {"pipeline": kind, "stratum": stratum, "detail": detail, "ctor": form, "model": Mcls.__name__, "dim": dim,
                            "angles": angles, "anis": anis, "len_scale": L, "var": kw["var"], "seed": seed}
                    key = f"pipeline-strata:{kind}:{stratum}"
                    try:
                        with warnings.catch_warnings():
                            warnings.simplefilter("ignore")
                            if form == "live":
                                g_ang, g_anis, _ = gen_stratum(rng, dim, "both")
                                model, ratios = Mcls(anis=g_anis, angles=g_ang, **kw), list(anis)

                                def settle(k_):
                                    """move the model the kriging object holds into the stratum, refresh the kriging setup the documented way"""
                                    if rng.rand() < 0.5:
                                        k_.model.anis = anis
                                        k_.model.angles = angles
                                    else:
                                        k_.model.angles = angles
                                        k_.model.anis = anis
                                    k_.set_condition()
                                    return k_
                            else:
                                model, ratios = build_stratum_model(rng, Mcls, dim, kw, angles, anis, form)

                                def settle(k_):
                                    return k_
                            iso = Mcls(**kw)
                            M = ref_iso_matrix(dim, angles, ratios)
                            Minv = ref_rotate(dim, ref_pad_angles(dim, angles)) @ np.diag(np.concatenate(([1.0], ratios)))
                            svec = np.concatenate(([1.0], ratios))
                            bad = []        # (sub-key, what, numbers)

                            def cmp(sub, what, a, b, tol):
                                a, b = np.asarray(a, dtype=float), np.asarray(b, dtype=float)
                                if not (a.shape == b.shape and np.allclose(a, b, rtol=tol, atol=tol)):
                                    bad.append((sub, what, float(np.max(np.abs(a - b))) if a.shape == b.shape else None))
                            n = int(rng.randint(4, 10))
                            pos = rng.randn(dim, n) * 3
                            if kind == "srf":
                                a = gs.SRF(model, seed=seed, mode_no=48)(pos)
                                b = gs.SRF(iso, seed=seed, mode_no=48)(M @ pos)
                                ev += 2
                                cmp("", "SRF(model)(x) != SRF(isotropic model)(S^-1 R^T x)", a, b, 1e-9)
                            elif kind == "srf_struct":
                                axes = [np.sort(rng.randn(int(rng.randint(2, 4))) * 3) for _ in range(dim)]
                                a = gs.SRF(model, seed=seed, mode_no=32).structured(axes)
                                grid = np.array(np.meshgrid(*axes, indexing="ij")).reshape(dim, -1)
                                b = gs.SRF(iso, seed=seed, mode_no=32)(M @ grid)
                                ev += 2
                                cmp("", "structured SRF(model) != SRF(isotropic model) at the transformed grid points", np.ravel(a), b, 1e-9)
                            elif kind == "vector":
                                a = gs.SRF(model, generator="VectorField", seed=seed, mode_no=32)(pos)
                                b = gs.SRF(iso, generator="VectorField", seed=seed, mode_no=32)(M @ pos)
                                ev += 2
                                cmp("", "vector field(model)(x) != vector field(isotropic model)(S^-1 R^T x)", a, b, 1e-9)
                            elif kind == "srf_fourier":
                                ev += _fourier_case(gs, rng, Mcls, model, iso, kw, M, svec, angles, dim, seed, pos, cmp, case)
                            elif kind.startswith("condsrf"):
                                val = rng.randn(n)
                                tgt = rng.randn(dim, 6) * 3
                                if kind == "condsrf_ordinary":
                                    ka, kb = gs.krige.Ordinary(model, pos, val), gs.krige.Ordinary(iso, M @ pos, val)
                                else:
                                    ka, kb = gs.krige.Universal(model, pos, val, "linear"), gs.krige.Universal(iso, M @ pos, val, "linear")
                                ka = settle(ka)
                                cond = np.linalg.cond(ka._krige_mat)
                                if not np.isfinite(cond) or cond > 1e6:
                                    skipped[kind] = skipped.get(kind, 0) + 1
                                    continue
                                tol = 1e-12 * cond * 100 + 1e-9
                                a = gs.CondSRF(ka, seed=seed, mode_no=32)(tgt)
                                b = gs.CondSRF(kb, seed=seed, mode_no=32)(M @ tgt)
                                ev += 2
                                cmp("", "CondSRF(model)(x) != CondSRF(isotropic model, transformed conditioning points)(S^-1 R^T x)", a, b, tol)
                            else:
                                ev += _krige_case(gs, rng, kind, model, iso, M, Minv, dim, pos, n, cmp, case, skipped,
                                                  dict(lin_t=lin_t, g1=g1, g2=g2, composed=composed, settle=settle))
                    except Exception as e:
                        ctx.log(f"search: strata {kind} {stratum} {Mcls.__name__} dim={dim} ({form}) raised {type(e).__name__}: {e}")
                        skipped[kind + ":raised"] = skipped.get(kind + ":raised", 0) + 1
                        continue
                    cover[(kind, stratum)] = cover.get((kind, stratum), 0) + 1
                    for sub, what, dev in bad[:2]:
                        _viol(viol, key + sub, f"{kind}, stratum '{stratum}' ({detail}), dim {dim}: {what}", case, max_dev=dev)
    return ev, cover, skipped


def _krige_case(gs, rng, kind, model, iso, M, Minv, dim, pos, n, cmp, case, skipped, fn):
    """one kriging variant with (model at x) and (isotropic model at Mx): estimate, variance, mean paths, chunked / structured targets"""
    ev = 0
    nfun = {"krige_universal_linear": dim, "krige_universal_quadratic": dim + dim * (dim + 1) // 2, "krige_universal_callable": 2}.get(kind, 0)
    if kind == "krige_mean":
        sub = ["simple", "ordinary", "universal"][int(rng.randint(3))]
        nfun = dim if sub == "universal" else 0
        case["mean_of"] = sub
    if n < nfun + 5:
        n = nfun + 5 + int(rng.randint(0, 4))
        pos = rng.randn(dim, n) * (1.5 if kind == "krige_universal_quadratic" else 3)
    elif kind == "krige_universal_quadratic":
        pos = pos / 2
    val = rng.randn(n)
    ipos = M @ pos
    structured = dim <= 3 and rng.rand() < 0.3
    spread = 1.5 if kind == "krige_universal_quadratic" else 3
    if structured:
        axes = [np.sort(rng.randn(int(rng.randint(2, 4))) * spread) for _ in range(dim)]
        tgt = np.array(np.meshgrid(*axes, indexing="ij")).reshape(dim, -1)
        targ, mesh = axes, "structured"
    else:
        tgt = rng.randn(dim, int(rng.randint(3, 9))) * spread
        if rng.rand() < 0.3:
            tgt[:, 0] = pos[:, 0]
        targ, mesh = tgt, "unstructured"
    m = tgt.shape[1]
    chunk = [None, 1, 2, 3, 5][int(rng.randint(5))]
    case.update(chunk_size=chunk, mesh=mesh, cond_pos=pos.tolist(), targets=tgt.tolist())
    ca, cb = {}, {}
    if kind == "krige_simple" or (kind == "krige_mean" and case["mean_of"] == "simple"):
        ka, kb = gs.krige.Simple(model, pos, val, mean=0.3), gs.krige.Simple(iso, ipos, val, mean=0.3)
    elif kind == "krige_ordinary" or (kind == "krige_mean" and case["mean_of"] == "ordinary"):
        ka, kb = gs.krige.Ordinary(model, pos, val), gs.krige.Ordinary(iso, ipos, val)
    elif kind == "krige_universal_linear" or kind == "krige_mean":
        ka, kb = gs.krige.Universal(model, pos, val, "linear"), gs.krige.Universal(iso, ipos, val, "linear")
    elif kind == "krige_universal_quadratic":
        ka, kb = gs.krige.Universal(model, pos, val, "quadratic"), gs.krige.Universal(iso, ipos, val, "quadratic")
    elif kind == "krige_universal_callable":
        ka = gs.krige.Universal(model, pos, val, [fn["g1"], fn["g2"]])
        kb = gs.krige.Universal(iso, ipos, val, [fn["composed"](fn["g1"], Minv), fn["composed"](fn["g2"], Minv)])
    elif kind == "krige_extdrift":
        ce, te = rng.randn(n), rng.randn(m)
        ka, kb = gs.krige.ExtDrift(model, pos, val, ce), gs.krige.ExtDrift(iso, ipos, val, ce)
        ca = cb = {"ext_drift": te}
    elif kind == "krige_detrended":
        ka = gs.krige.Detrended(model, pos, val, fn["g1"])
        kb = gs.krige.Detrended(iso, ipos, val, fn["composed"](fn["g1"], Minv))
    else:
        raise KeyError(kind)
    ka = fn["settle"](ka)
    cond = np.linalg.cond(ka._krige_mat)
    if not np.isfinite(cond) or cond > 1e6:
        skipped[kind] = skipped.get(kind, 0) + 1
        return ev
    tol = 1e-12 * cond * 100 + 1e-10
    if kind == "krige_mean":
        fa = ka(targ, mesh_type=mesh, only_mean=True, chunk_size=chunk, **ca)
        fb = kb(M @ tgt, only_mean=True, **cb)
        ev += 2
        cmp(":only_mean", "kriging mean field (only_mean=True) differs from the isotropic model's at S^-1 R^T x", np.ravel(fa), fb, tol)
        ga, gb = ka.get_mean(), kb.get_mean()
        ev += 2
        if (ga is None) != (gb is None):
            cmp(":get_mean", "get_mean() is None for one of the two objects only", [0.0 if ga is None else 1.0], [0.0 if gb is None else 1.0], 0)
        elif ga is not None:
            cmp(":get_mean", "get_mean() differs from the isotropic model's", [ga], [gb], tol)
        if case["mean_of"] == "universal":
            # the drift part alone, against the data: exactly linear values have themselves as mean field
            kl = gs.krige.Universal(model, pos, fn["lin_t"](*pos), "linear")
            fl = kl(targ, mesh_type=mesh, only_mean=True, chunk_size=chunk)
            ev += 1
            cmp(":only_mean:data", "mean field of universal kriging (linear drift) of exactly linear data is not that linear function of the RAW coordinates",
                np.ravel(fl), fn["lin_t"](*tgt), tol * 10)
        return ev
    fa, va = ka(targ, mesh_type=mesh, return_var=True, chunk_size=chunk, **ca)
    fb, vb = kb(M @ tgt, return_var=True, **cb)
    ev += 2
    cmp("", "kriging estimate differs from the isotropic model's (transformed conditioning points) at S^-1 R^T x", np.ravel(fa), fb, tol)
    cmp(":variance", "kriging variance differs from the isotropic model's (transformed conditioning points) at S^-1 R^T x", np.ravel(va), vb, tol)
    if chunk is not None:
        f1 = ka(targ, mesh_type=mesh, return_var=False, **ca)
        ev += 1
        cmp(":chunks", f"kriging estimate with chunk_size={chunk} differs from the unchunked one", np.ravel(fa), np.ravel(f1), tol)
    if kind in ("krige_universal_linear", "krige_universal_quadratic"):
        # against the data: values that lie exactly in the span of the drift functions (of the RAW coordinates) are reproduced everywhere
        def poly(*p):
            r = fn["lin_t"](*p)
            if kind == "krige_universal_quadratic":
                r = r + 0.15 * np.asarray(p[0]) * np.asarray(p[-1]) - 0.1 * np.asarray(p[len(p) // 2]) ** 2
            return r
        kl = gs.krige.Universal(model, pos, poly(*pos), "linear" if kind == "krige_universal_linear" else "quadratic")
        fl = kl(targ, mesh_type=mesh, return_var=False, chunk_size=chunk)
        ev += 1
        cmp(":data", "universal kriging of data that are exactly a polynomial (degree of the drift) of the RAW coordinates does not reproduce it at the targets",
            np.ravel(fl), poly(*tgt), tol * 10)
    if kind == "krige_universal_callable":
        kl = gs.krige.Universal(model, pos, 1.5 * fn["g1"](*pos) - 0.5 * fn["g2"](*pos) + 2.0, [fn["g1"], fn["g2"]])
        fl = kl(targ, mesh_type=mesh, return_var=False, chunk_size=chunk)
        ev += 1
        cmp(":data", "universal kriging of data in the span of its callable drift functions (of the RAW coordinates) does not reproduce them at the targets",
            np.ravel(fl), 1.5 * fn["g1"](*tgt) - 0.5 * fn["g2"](*tgt) + 2.0, tol * 10)
    return ev


def _fourier_case(gs, rng, Mcls, model, iso, kw, M, svec, angles, dim, seed, pos, cmp, case):
    """SRF(model, generator='Fourier', period=P, mode_no=N).  What the code does (Fourier.update / SRF.__call__): the generator works in
    the isotropic coordinates y = S^-1 R^T x on the mode lattice k_n = 2 pi n * [1, anis] / P (n integer vectors, N_d per axis), so
    k_n . y = sum_d 2 pi n_d / P_d * (R^T x)_d: P_d is the period along the d-th ROTATED main axis in the raw coordinates, and the same lattice is
    the one of the isotropic model with the period P / [1, anis] in ITS coordinates.  Checked:
    (1) field(model, P)(x) == field(isotropic model, P / [1, anis])(S^-1 R^T x)  (same seed, same mode_no);
    (2) field(x + P_d * axis_d) == field(x) for every main axis d (axis_d = column d of R);
    (3) field(x) == sum_n sqrt(S(|k_n|) prod(dk)) (z1_n cos(q_n . x) + z2_n sin(q_n . x)) with q_n = R (2 pi n / P) built here (C-order 'ij' grid);
    (4) Gaussian model, transversal periods >= 7 len_scale * anis: sum_n S(|k_n|) prod(dk) cos(k_n . S^-1 R^T (t axis_i)) ==
        sum_m C_i(|t + m P_i|), C_i = covariance of the isotropic model with len_scale * anis[i-1]  (1e-7 * var: lattice truncation)."""
    ev = 0
    L, var = kw["len_scale"], kw["var"]
    gauss = Mcls is gs.Gaussian
    if gauss:
        c = rng.uniform(7.0, 10.0, size=dim)
        period = np.round(c * L * svec, 3)
        mode_no = [2 * int(np.ceil(4.2 * period[d] / (np.pi * svec[d] * L))) for d in range(dim)]
    else:
        period = np.round(rng.uniform(6.0, 20.0, size=dim), 3)
        mode_no = [2 * int(rng.randint(2, 7 if dim < 3 else 5)) for _ in range(dim)]
    # one period / one count for all axes, written as a scalar (for the covariance check the periods must stay >= 7 len_scale * anis per axis)
    if rng.rand() < 0.25 and (not gauss or bool(np.all(svec == 1.0))):
        period = np.full(dim, period[0])
        mode_no = [max(mode_no)] * dim
        p_arg, n_arg = float(period[0]), int(mode_no[0])
    else:
        p_arg, n_arg = [float(v) for v in period], list(mode_no)
    case.update(period=p_arg, mode_no=n_arg)
    R = ref_rotate(dim, ref_pad_angles(dim, angles))
    sa = gs.SRF(model, generator="Fourier", seed=seed, period=p_arg, mode_no=n_arg)
    sb = gs.SRF(iso, generator="Fourier", seed=seed, period=[float(v) for v in period / svec], mode_no=list(mode_no))
    pos = pos * (period / 6.0)[:, None]
    a = np.asarray(sa(pos), dtype=float)
    b = np.asarray(sb(M @ pos), dtype=float)
    ev += 2
    amp = 1e-9 * (1.0 + float(np.sqrt(var)))
    cmp("", "Fourier SRF(model, period P)(x) != Fourier SRF(isotropic model, period P / [1, anis])(S^-1 R^T x)", a, b, amp)
    for d in range(dim):
        shift = pos + float(rng.randint(1, 3)) * (1 if rng.rand() < 0.5 else -1) * period[d] * R[:, d:d + 1]
        ev += 1
        cmp(":periodic", f"Fourier SRF is not periodic along main axis {d} with the period given for that axis", np.asarray(sa(shift), dtype=float), a, amp * 10)
    # explicit mode sum in the raw coordinates, lattice and amplitudes written here
    g = sa.generator
    nn = np.array(np.meshgrid(*[np.arange(-(N // 2), N // 2) for N in mode_no], indexing="ij"), dtype=float).reshape(dim, -1)
    dk = 2 * np.pi * svec / period
    kiso = nn * dk[:, None]
    amp_n = np.sqrt(np.maximum(iso.spectrum(np.linalg.norm(kiso, axis=0)), 0.0) * np.prod(dk))
    q = R @ (2 * np.pi * nn / period[:, None])
    z1, z2 = np.asarray(g._z_1), np.asarray(g._z_2)
    ev += 1
    if z1.shape == amp_n.shape:
        ph = q.T @ pos
        want = (amp_n * z1) @ np.cos(ph) + (amp_n * z2) @ np.sin(ph)
        cmp(":mode-sum", "Fourier SRF(x) != sum_n sqrt(S(|2 pi n [1,anis] / P|) prod(dk)) (z1 cos(q_n.x) + z2 sin(q_n.x)), q_n = R (2 pi n / P)", a, want,
            amp * 10)
    else:
        cmp(":mode-sum", "number of Fourier modes differs from prod(mode_no)", [z1.size], [amp_n.size], 0)
    if gauss:
        sf2 = np.asarray(g._spectrum_factor, dtype=float) ** 2
        modes = np.asarray(g.modes, dtype=float)
        for i in range(dim):
            iso_i = Mcls(dim=dim, var=var, len_scale=L * svec[i])
            for t in (0.0, float(rng.uniform(0.2, 1.5)) * L * svec[i], float(rng.uniform(0.3, 0.7)) * period[i]):
                lag = M @ (t * R[:, i])
                got = float(np.sum(sf2 * np.cos(modes.T @ lag)))
                want = _periodized_cov(iso_i.covariance, t, period[i])
                ev += 1
                cmp(":axis-covariance", f"covariance of the Fourier field along main axis {i} is not the (periodized) covariance of the isotropic model "
                    f"with len_scale*anis[{i}-1]", [got], [want], 1e-7 * var)
    return ev


def _search_fit_directions(ctx, rng, gs, viol):
    """the library's own use of the geometry when it fits a model to data (Krige(..., fit_variogram=True) / set_condition(fit_variogram=True)):
    for an anisotropic model the empirical variogram must be estimated along the model's MAIN AXES (the columns of the documented rotation
    matrix: the directions along which the length scales len_scale * [1, anis] apply), because the fitted scales are assigned to them;
    for an isotropic model no directions are used.  What the call hands to vario_estimate is captured."""
    import gstools.krige.base as kb
    ev = 0
    for t in range(ctx.scale(10, 60)):
        dim = int(rng.randint(2, 4))
        ang = [float(a) for a in rng.uniform(-1.4, 1.4, dim * (dim - 1) // 2)]
        if t % 4 == 0:
            ang = [0.0] * len(ang)
        anis = [float(a) for a in rng.choice([0.4, 0.6, 1.7, 2.5], size=dim - 1)] if t % 5 else [1.0] * (dim - 1)
        model = gs.Exponential(dim=dim, len_scale=3.0, anis=anis, angles=ang)
        cpos = rng.uniform(0, 30, size=(dim, 40))
        cval = rng.randn(40)
        captured = []
        orig = kb.vario_estimate

        def spy(*a, **kw):
            captured.append(kw.get("direction"))
            return orig(*a, **kw)
        kb.vario_estimate = spy
        try:
            with warnings.catch_warnings():
                warnings.simplefilter("ignore")
                try:
                    if t % 2:
                        gs.krige.Ordinary(model, cpos, cval, fit_variogram=True)
                    else:
                        kr = gs.krige.Ordinary(model, cpos, cval)
                        captured.clear()
                        kr.set_condition(fit_variogram=True)
                except (RuntimeError, ValueError):
                    pass                      # the optimiser may fail on pure noise: the directions were handed over before
        finally:
            kb.vario_estimate = orig
        ev += 1
        case = dict(dim=dim, angles=ang, anis=anis)
        if not captured:
            _viol(viol, "fit-directions:not-estimated", "fit_variogram=True did not estimate a variogram", case)
            continue
        d = captured[-1]
        if all(a == 1.0 for a in anis):
            if d is not None:
                _viol(viol, "fit-directions:isotropic-model", "directional estimation for an isotropic model", case)
            continue
        if d is None:
            _viol(viol, "fit-directions:anisotropic-model-isotropic-estimate", "an anisotropic model is fitted to an isotropic (non-directional) variogram", case)
            continue
        d = np.atleast_2d(np.asarray(d, dtype=float))
        want = ref_rotate(dim, ang).T            # row i = main axis i = column i of the documented rotation matrix
        ok = d.shape == want.shape and all(min(np.max(np.abs(d[i] / np.linalg.norm(d[i]) - want[i])), np.max(np.abs(d[i] / np.linalg.norm(d[i]) + want[i]))) < 1e-12
                                           for i in range(dim))
        if not ok:
            _viol(viol, "fit-directions:not-main-axes", "the variogram for fitting an anisotropic model is not estimated along the model's main axes "
                  "(columns of the documented rotation matrix), although the fitted length scales are assigned to those axes", case,
                  got=np.asarray(d).tolist(), want=want.tolist())
    return ev


def search(ctx, deep=False):
    import gstools as gs
    from gstools.tools import geometric as G

    rng = np.random.RandomState(ctx.seed + 1201)
    viol, ev = [], 0
    nmat = ctx.scale(1200, 12000) * (3 if deep else 1)
    maxres = 0.0
    for t in range(nmat):
        dim = int(rng.randint(1, 5))
        ang = gen_angles(rng, dim, allow_odd=(t % 4 == 0))
        anis = gen_anis(rng, dim, allow_odd=(t % 4 == 0))
        case = {"dim": dim, "angles": ang, "anis": anis}
        # padding rules against their documentation
        if not (np.array_equal(G.set_angles(dim, ang), ref_pad_angles(dim, ang))
                and np.array_equal(G.set_anis(dim, anis), ref_pad_anis(dim, anis))):
            _viol(viol, "geometric:padding", "set_angles / set_anis do not pad as documented (angles behind with 0, anis in front with 1)", case)
        ang_in, anis_in = ang, anis
        ang, anis = ref_pad_angles(dim, ang), ref_pad_anis(dim, anis)
        R = G.matrix_rotate(dim, ang)
        D = G.matrix_derotate(dim, ang)
        I = np.eye(dim)
        ev += 1
        res = max(np.abs(R @ R.T - I).max(), np.abs(R.T @ R - I).max(), abs(np.linalg.det(R) - 1.0),
                  np.abs(D @ R - I).max(), np.abs(R @ D - I).max(), np.abs(D - R.T).max())
        maxres = max(maxres, res)
        if not res <= 1e-13 * 50:
            _viol(viol, "geometric:rotate-not-special-orthogonal", "matrix_rotate/derotate not mutually inverse proper rotations", case, residual=float(res))
        R = G.matrix_rotate(dim, ang_in)
        Rr = ref_rotate(dim, ang)
        if not np.abs(R - Rr).max() <= 1e-13 * 50:
            _viol(viol, "geometric:rotate-convention", "matrix_rotate differs from the documented convention "
                  "(2-D ccw, 3-D Rx(roll)Ry(pitch)Rz(yaw), n-D plane order with alternating signs)", case,
                  got=R.tolist(), want=Rr.tolist())
        Mi = G.matrix_isometrize(dim, ang_in, anis_in)
        Ma = G.matrix_anisometrize(dim, ang_in, anis_in)
        sc = max(1.0, max(anis + [1.0]) / min(anis + [1.0]))
        r2 = max(np.abs(Mi @ Ma - I).max(), np.abs(Ma @ Mi - I).max())
        if not r2 <= 1e-13 * 50 * sc:
            _viol(viol, "geometric:iso-aniso-inverse", "matrix_isometrize and matrix_anisometrize are not mutually inverse", case, residual=float(r2))
        if not np.abs(Mi - ref_iso_matrix(dim, ang, anis)).max() <= 1e-13 * 50 * sc:
            _viol(viol, "geometric:isometrize-definition", "matrix_isometrize differs from diag(1,1/anis)·Rᵀ", case)
        # model level: round trip on positions, main axes scaling, len_scale_vec
        if t % 3 == 0:
            L = float(np.exp(rng.uniform(-1, 1)))
            with warnings.catch_warnings():
                warnings.simplefilter("ignore")
                model = gs.Exponential(dim=dim, var=2.0, len_scale=L, anis=anis_in if anis_in else 1.0,
                                       angles=ang_in if ang_in else 0.0)
                # a list of length scales is turned into ratios: len_scale_vec gives the list back (edge padded)
                nl = int(rng.randint(2, dim + 2))
                lsl = [float(v) for v in np.exp(rng.uniform(-1, 1, size=nl))]
                ml = gs.Exponential(dim=dim, len_scale=lsl)
            want_ls = (lsl + [lsl[-1]] * dim)[:dim] if nl < dim else lsl[:dim]
            ev += 1
            if not (np.allclose(ml.len_scale_vec, want_ls, rtol=1e-14, atol=0) and ml.len_scale == lsl[0]
                    and np.allclose(ml.anis, np.array(want_ls[1:]) / lsl[0], rtol=1e-15, atol=0)):
                _viol(viol, "covmodel:len_scale_list", "len_scale list is not turned into ratios len_scale[i]/len_scale[0]",
                      {"dim": dim, "len_scale": lsl}, got=np.asarray(ml.len_scale_vec).tolist())
            # non-positive ratios must be rejected
            bad = [0.0, -0.5, float("nan")][t % 3]
            if dim > 1:
                ev += 1
                try:
                    gs.Exponential(dim=dim, anis=[bad] * (dim - 1))
                    _viol(viol, "covmodel:anis-not-positive-accepted", "an anisotropy ratio <= 0 (or nan) was accepted", {"dim": dim, "anis": bad})
                except ValueError:
                    pass
            pos = rng.randn(dim, 6) * 4
            back = model.anisometrize(model.isometrize(pos))
            forth = model.isometrize(model.anisometrize(pos))
            ev += 2
            if not (np.abs(back - pos).max() <= 1e-12 * sc * 10 and np.abs(forth - pos).max() <= 1e-12 * sc * 10):
                _viol(viol, "covmodel:isometrize-roundtrip", "anisometrize(isometrize(x)) != x", dict(case, pos=pos.tolist()))
            axes = model.main_axes()
            svec = np.concatenate(([1.0], anis))
            if not np.allclose(model.len_scale_vec, L * svec, rtol=1e-14, atol=0):
                _viol(viol, "covmodel:len_scale_vec", "len_scale_vec != len_scale * [1, anis]", case)
            for i in range(dim):
                tt = float(np.exp(rng.uniform(-1, 1)))
                x = (tt * axes[i]).reshape(dim, 1)
                rad = float(np.linalg.norm(model.isometrize(x)))
                ev += 1
                if not abs(rad - tt / svec[i]) <= 1e-12 * (1 + tt / svec[i]) * 10:
                    _viol(viol, "covmodel:main-axis-scale", "‖isometrize(t·axis_i)‖ != t / anis[i-1]", dict(case, axis=i, t=tt),
                          got=rad, want=tt / svec[i])
                # along the i-th main axis the model is the isotropic model with len_scale * anis[i-1]
                iso_i = gs.Exponential(dim=dim, var=2.0, len_scale=L * svec[i])
                a = float(model.cov_spatial(x)[0])
                b = float(iso_i.covariance(tt))
                if not abs(a - b) <= 1e-11 * (1 + abs(b)):
                    _viol(viol, "covmodel:axis-length-scale", "cov_spatial along main axis i is not the model with len_scale*anis[i-1]",
                          dict(case, axis=i, t=tt), got=a, want=b)
            # cov_spatial / vario_spatial use exactly the isometrized radius (independent matrix)
            h = rng.randn(dim, 5) * 2
            rr = np.linalg.norm(ref_iso_matrix(dim, ang, anis) @ h, axis=0)
            ev += 2
            if not (np.allclose(model.cov_spatial(h), model.covariance(rr), rtol=1e-10, atol=1e-13)
                    and np.allclose(model.vario_spatial(h), model.variogram(rr), rtol=1e-10, atol=1e-13)):
                _viol(viol, "covmodel:cov_spatial", "cov_spatial(h) != covariance(‖S⁻¹Rᵀh‖)", dict(case, h=h.tolist()))

    # ---------------- ang2dir: whole calls against the ISO 80000-2 convention (independent formulas), row by row
    nang = ctx.scale(600, 6000) * (3 if deep else 1)
    ang_forms = {}
    for t in range(nang):
        arg, adim, rows, ncols, pre, form = gen_ang2dir_call(rng)
        got = call_ang2dir(G, arg, adim)
        ev += 1
        case = {"form": form, "angles": _tolist(arg) if form != "array3d" else "zeros(1,r,c)", "dim": adim}
        # what the documentation promises: n angles per direction <-> dim n+1 (dim >= 2); flat input of k angles with dim=2 is k
        # 2-D directions; anything else is a ValueError
        if form in ("ragged", "array3d"):
            want = None
        else:
            d = ncols + 1 if adim is None else adim
            rr = rows
            if d == 2 and pre < 2 and len(rows) == 1:
                rr = [[v] for v in rows[0]]
                nc = 1
            else:
                nc = ncols
            want = None if (d != nc + 1 or d < 2) else np.array([ref_dir(r_) for r_ in rr], dtype=float).reshape(len(rr), d)
        ang_forms[form] = ang_forms.get(form, 0) + 1
        if want is None:
            if got[0] == "ok":
                _viol(viol, "ang2dir:accepts-inconsistent-input", "ang2dir returned directions for angles / dim that do not fit together", case,
                      got=got[1].tolist())
            elif got[0] != "ValueError":
                _viol(viol, "ang2dir:exception", f"ang2dir raised {got[0]} instead of ValueError", case)
            continue
        if got[0] != "ok":
            _viol(viol, "ang2dir:rejects-valid-input", f"ang2dir raised {got[0]} for consistent angles / dim", case)
            continue
        if got[1].shape != want.shape or not np.abs(got[1] - want).max(initial=0.0) <= 1e-13 * 20:
            _viol(viol, "ang2dir:convention" + (":several-directions" if len(want) > 1 else ""),
                  "ang2dir differs from the documented convention (2-D (cos az, sin az); 3-D ISO 80000-2 (sin inc cos az, sin inc sin az, "
                  "cos inc); n-D hyperspherical recursion), each direction from its own angles only", case,
                  got=got[1].tolist(), want=want.tolist())
            continue
        if len(want) > 1 and t % 3 == 0:
            # metamorphic: each direction alone, any permutation of the directions, full turns added to an azimuth
            perm = rng.permutation(len(want))
            a2 = np.array(rr, dtype=float)
            shifted = a2.copy()
            shifted[:, 0] += 2 * np.pi * rng.randint(-2, 3, size=len(a2))
            one = np.vstack([G.ang2dir(a2[i:i + 1], dim=a2.shape[1] + 1) for i in range(len(a2))])
            pg = G.ang2dir(a2[perm])
            sg = G.ang2dir(shifted)
            ev += 3
            if not (np.array_equal(one, G.ang2dir(a2)) and np.array_equal(pg, G.ang2dir(a2)[perm])
                    and np.abs(sg - want).max() <= 1e-13 * 200):
                _viol(viol, "ang2dir:directions-not-independent", "ang2dir of several directions differs from the directions converted one by "
                      "one / permuted / with full turns added", case)

    # ---------------- geometry after in-place histories (read, change, read) against independent bookkeeping + fresh objects
    nhist = ctx.scale(260, 2600) * (2 if deep else 1)
    hist_ops, hist_uses, hist_pipes = {}, {}, {}
    # geometry does not depend on the class; classes without an analytic spectral sampler cost 30-250 ms per SRF object (MCMC)
    hcheap = [gs.Exponential, gs.Gaussian]
    hother = [gs.Matern, gs.Stable, gs.Rational, gs.Spherical, gs.Cubic, gs.HyperSpherical, gs.TPLGaussian]
    for t in range(nhist):
        dim = int(rng.randint(1, 5)) if t % 3 else int(rng.randint(2, 4))
        ang0, anis0 = gen_angles(rng, dim), [float(min(max(a, 0.25), 4.0)) for a in gen_anis(rng, dim)]
        ls0 = [float(min(max(x, 0.4), 4.0)) if x > 0 else 1.0 for x in gen_len_list(rng, dim)] if rng.rand() < 0.4 \
            else [float(np.round(np.exp(rng.uniform(-0.5, 1)), 4))]
        Mcls = hcheap[int(rng.randint(2))] if rng.rand() < 0.75 else hother[int(rng.randint(len(hother)))]
        var = float(np.round(np.exp(rng.uniform(-1, 1)), 3))
        try:
            with warnings.catch_warnings():
                warnings.simplefilter("ignore")
                model = Mcls(dim=dim, var=var, len_scale=ls0 if len(ls0) > 1 else ls0[0], anis=anis0 if anis0 else 1.0,
                             angles=ang0 if ang0 else 0.0)
        except ValueError:
            continue
        ref = RefModel(dim, ls0, anis0 if anis0 else [1.0], ang0 if ang0 else [0.0])
        ops = gen_history(rng, dim, dims=(1, 2, 3) if Mcls in (gs.Cubic, gs.Spherical) else (1, 2, 3, 4))
        # moderate ratios keep the kriging systems well conditioned; per-axis integral scales are a second way to write a list
        ops2 = []
        for k, v in ops:
            if k == "anis" and isinstance(v, list):
                v = [float(min(max(a, 0.25), 4.0)) if a > 0 else a for a in v]
            if k == "len" and isinstance(v, list):
                v = [float(min(max(a, 0.4), 4.0)) if a > 0 else a for a in v]
                if rng.rand() < 0.2 and all(a > 0 for a in v):
                    k = "intscale"
            ops2.append((k, v))
        ops = ops2
        case = {"model": Mcls.__name__, "dim": dim, "len_scale": ls0, "anis": anis0, "angles": ang0, "var": var,
                "history": [[k, v] for k, v in ops]}
        seed = int(rng.randint(1, 2**31 - 1))
        bad = False
        for i, op in enumerate(ops + [None]):
            # ---- use the object the way a program would before changing it (this is what could leave something behind)
            d = model.dim
            p0 = rng.randn(d, 5) * 3
            use = ["isometrize", "anisometrize", "main_axes", "cov_spatial", "iso_rad", "srf", "krige", "len_scale_vec", "none"][int(rng.randint(9))]
            if op is None:
                use = "none"
            hist_uses[use] = hist_uses.get(use, 0) + 1
            with warnings.catch_warnings():
                warnings.simplefilter("ignore")
                if use == "isometrize":
                    model.isometrize(p0)
                elif use == "anisometrize":
                    model.anisometrize(p0)
                elif use == "main_axes":
                    model.main_axes()
                elif use == "cov_spatial":
                    model.cov_spatial(p0)
                elif use == "iso_rad":
                    model._get_iso_rad(p0)
                elif use == "srf":
                    gs.SRF(model, seed=seed, mode_no=8)(p0)
                elif use == "krige":
                    gs.krige.Simple(model, p0, rng.randn(5))(p0[:, :2])
                elif use == "len_scale_vec":
                    model.len_scale_vec
            # ---- every read of the CURRENT state against the independent bookkeeping
            M = ref.matrix()
            sc = max(1.0, max(ref.anis + [1.0]) / min(ref.anis + [1.0]))
            x = rng.randn(d, 6) * 3
            ev += 1
            state_ok = (model.dim == ref.dim and len(model.anis) == d - 1 and len(model.angles) == d * (d - 1) // 2
                        and np.array_equal(np.asarray(model.anis), ref.anis) and np.array_equal(np.asarray(model.angles) + 0.0, np.array(ref.angles) + 0.0))
            if not state_ok:
                _viol(viol, "history:state", "dim / anis / angles after a setter history differ from the documented rules (anis padded in front "
                      "with 1, angles behind with 0, a len_scale list redefines the ratios, rejected assignments change nothing)",
                      dict(case, step=i), got=[int(model.dim), _tolist(model.anis), _tolist(model.angles)], want=[ref.dim, ref.anis, ref.angles])
                bad = True
                break
            geo_ok = (np.abs(model.isometrize(x) - M @ x).max() <= 1e-12 * sc * 10
                      and np.abs(model.anisometrize(M @ x) - x).max() <= 1e-11 * sc * sc
                      and np.abs(model.main_axes() - ref_rotate(d, ref.angles).T).max() <= 1e-12
                      and np.abs(model._get_iso_rad(x) - np.linalg.norm(M @ x, axis=0)).max() <= 1e-12 * sc * 10)
            ev += 4
            if not geo_ok:
                _viol(viol, "history:geometry-stale", "isometrize / anisometrize / main_axes / _get_iso_rad of a model changed in place differ from "
                      "S⁻¹Rᵀ of its current (dim, angles, anis)", dict(case, step=i, used_before=use),
                      got=model.isometrize(x).tolist(), want=(M @ x).tolist())
                bad = True
                break
            if op is None:
                break
            # ---- the change
            try:
                ref.apply(op)
                want_st = "ok"
            except ValueError:
                want_st = "ValueError"
            key = op[0] + ("-list" if isinstance(op[1], list) and len(op[1]) > 1 else "")
            hist_ops[key] = hist_ops.get(key, 0) + 1
            try:
                st = apply_op(model, op)
            except Exception as e:
                st = type(e).__name__
            if st != want_st:
                # classes whose integral scale cannot be set exactly raise by design; that is not a C12 matter
                if op[0] == "intscale" and st == "ValueError":
                    bad = True
                    break
                _viol(viol, "history:setter-status", f"setter {op[0]} = {op[1]}: expected {want_st}, got {st}", dict(case, step=i))
                bad = True
                break
        if bad:
            continue
        # ---- after the history: the live object against a FRESH isotropic model at independently transformed positions
        d, M = ref.dim, ref.matrix()
        n = int(rng.randint(3, 10))
        pos = rng.randn(d, n) * 3
        ipos = M @ pos
        try:
            with warnings.catch_warnings():
                warnings.simplefilter("ignore")
                L = float(model.len_scale)
                if not any(k == "intscale" for k, _ in ops) and not np.isclose(L, ref.L, rtol=1e-15, atol=0):
                    _viol(viol, "history:len_scale", "main length scale after the history differs from the last assigned one", case, got=L, want=ref.L)
                    continue
                # everything that is not geometry (variance - which follows the length scale for truncated power-law models -,
                # optional arguments) is taken over from the live object: C12 is about the coordinates only
                pub = dict(dim=d, var=float(model.var), len_scale=L, **{k_: getattr(model, k_) for k_ in model.opt_arg})
                iso = Mcls(**pub)
                fresh = Mcls(anis=ref.anis if ref.anis else 1.0, angles=ref.angles if ref.angles else 0.0, **pub)
                kind = ["cov_spatial", "srf", "krige", "condsrf", "srf_struct", "vector"][t % 6]
                ok = True
                h = rng.randn(d, 7) * 2
                rr = np.linalg.norm(M @ h, axis=0)
                ev += 2
                ok = np.allclose(model.cov_spatial(h), iso.covariance(rr), rtol=1e-10, atol=1e-13) \
                    and np.allclose(model.vario_spatial(h), fresh.vario_spatial(h), rtol=1e-10, atol=1e-13) \
                    and np.allclose(model.len_scale_vec, L * np.array([1.0] + ref.anis), rtol=1e-14, atol=0)
                if ok and kind == "srf":
                    a = gs.SRF(model, seed=seed, mode_no=48)(pos)
                    b = gs.SRF(iso, seed=seed, mode_no=48)(ipos)
                    ev += 2
                    ok = np.allclose(a, b, rtol=1e-9, atol=1e-9)
                elif ok and kind == "srf_struct" and d <= 3:
                    axes = [np.sort(rng.randn(int(rng.randint(2, 4))) * 3) for _ in range(d)]
                    a = gs.SRF(model, seed=seed, mode_no=32).structured(axes)
                    grid = np.array(np.meshgrid(*axes, indexing="ij")).reshape(d, -1)
                    b = gs.SRF(iso, seed=seed, mode_no=32)(M @ grid)
                    ev += 2
                    ok = np.allclose(np.ravel(a), b, rtol=1e-9, atol=1e-9)
                elif ok and kind in ("krige", "condsrf"):
                    val = rng.randn(n)
                    tgt = rng.randn(d, 5) * 3
                    ka = gs.krige.Ordinary(model, pos, val)
                    kb = gs.krige.Ordinary(iso, ipos, val)
                    cond = np.linalg.cond(ka._krige_mat)
                    if np.isfinite(cond) and cond < 1e6:
                        tol = 1e-12 * cond * 100 + 1e-9
                        if kind == "krige":
                            fa, va = ka(tgt, return_var=True)
                            fb, vb = kb(M @ tgt, return_var=True)
                            ok = np.allclose(fa, fb, rtol=tol, atol=tol) and np.allclose(va, vb, rtol=tol, atol=tol)
                        else:
                            a = gs.CondSRF(ka, seed=seed, mode_no=32)(tgt)
                            b = gs.CondSRF(kb, seed=seed, mode_no=32)(M @ tgt)
                            ok = np.allclose(a, b, rtol=tol, atol=tol)
                        ev += 2
                elif ok and kind == "vector" and d in (2, 3):
                    a = gs.SRF(model, generator="VectorField", seed=seed, mode_no=32)(pos)
                    b = gs.SRF(iso, generator="VectorField", seed=seed, mode_no=32)(ipos)
                    ev += 2
                    ok = np.allclose(a, b, rtol=1e-9, atol=1e-9)
        except Exception as e:
            ctx.log(f"search: history {kind} {Mcls.__name__} dim={d} raised {type(e).__name__}: {e}")
            continue
        hist_pipes[kind] = hist_pipes.get(kind, 0) + 1
        if not ok:
            _viol(viol, f"history:pipeline:{kind}", f"{kind} with a model object changed in place differs from the fresh isotropic model at S⁻¹Rᵀx "
                  "of the current (dim, angles, anis)", dict(case, final=[ref.dim, ref.L, ref.anis, ref.angles]))

    # ---------------- pipelines evaluated on stored positions after the model was changed in place / replaced
    nstore = ctx.scale(160, 2000) * (2 if deep else 1)
    ev_st, st_kinds, st_ops, st_hows = _search_stored(ctx, rng, gs, viol, nstore)
    ev += ev_st

    # ---------------- every pipeline x every geometry stratum x dim (own random stream: the sections around keep theirs)
    st_reps = ctx.scale(2, 12) * (2 if deep else 1)
    ev_sg, sg_cover, sg_skipped = _search_strata(ctx, np.random.RandomState(ctx.seed + 1202), gs, viol, st_reps, deep)
    ev_sg += _search_fit_directions(ctx, np.random.RandomState(ctx.seed + 1203), gs, viol)
    ev += ev_sg
    sg_by_pipe = {}
    for (k_, s_), c_ in sorted(sg_cover.items()):
        sg_by_pipe.setdefault(k_, {})[s_] = c_

    # ---------------- pipelines
    npipe = ctx.scale(180, 1500) * (2 if deep else 1)
    models = [gs.Gaussian, gs.Exponential, gs.Matern, gs.Stable, gs.Spherical, gs.Linear, gs.Cubic, gs.Rational,
              gs.Circular, gs.HyperSpherical, gs.SuperSpherical, gs.JBessel, gs.TPLGaussian, gs.TPLExponential,
              gs.TPLStable, gs.TPLSimple, gs.Integral]
    pipes = {}
    for t in range(npipe):
        dim = int(rng.randint(1, 5)) if t % 4 else int(rng.randint(2, 4))
        ang = gen_angles(rng, dim, allow_odd=(t % 5 == 0))
        anis = gen_anis(rng, dim, allow_odd=(t % 5 == 0))
        # keep ratios moderate so that kriging systems stay well conditioned
        anis = [float(min(max(a, 0.25), 4.0)) for a in anis]
        L = float(np.exp(rng.uniform(-0.5, 1.0)))
        Mcls = models[rng.randint(len(models))]
        kw = dict(dim=dim, var=float(np.exp(rng.uniform(-1, 1))), len_scale=L)
        try:
            with warnings.catch_warnings():
                warnings.simplefilter("ignore")
                model = Mcls(anis=anis if anis else 1.0, angles=ang if ang else 0.0, **kw)
                iso = Mcls(**kw)
        except ValueError:
            continue        # model not defined in this dimension
        case = {"model": Mcls.__name__, "dim": dim, "angles": ang, "anis": anis, "len_scale": L, "var": kw["var"]}
        seed = int(rng.randint(1, 2**31 - 1))
        n = int(rng.randint(3, 12))
        pos = rng.randn(dim, n) * 3
        ipos = ref_iso_matrix(dim, ang, anis) @ pos     # independent of model.isometrize and of the padding code
        kind = ["srf", "srf_struct", "krige_simple", "krige_ordinary", "krige_universal", "krige_extdrift", "condsrf",
                "vector", "fourier_modes"][t % 9]
        try:
            with warnings.catch_warnings():
                warnings.simplefilter("ignore")
                if kind == "srf":
                    a = gs.SRF(model, seed=seed, mode_no=64)(pos)
                    b = gs.SRF(iso, seed=seed, mode_no=64)(ipos)
                    ev += 2
                    ok = np.allclose(a, b, rtol=1e-9, atol=1e-9)
                    # independent evaluation of the randomization sum with transformed modes Mᵀk at the raw positions
                    g = gs.SRF(model, seed=seed, mode_no=64).generator
                    kk = ref_iso_matrix(dim, ang, anis).T @ g._cov_sample
                    ph = kk.T @ pos
                    c = np.sqrt(model.var / g._mode_no) * (g._z_1 @ np.cos(ph) + g._z_2 @ np.sin(ph))
                    ok = ok and np.allclose(a, c, rtol=1e-8, atol=1e-8)
                elif kind == "srf_struct":
                    if dim > 3:
                        continue
                    axes = [np.sort(rng.randn(int(rng.randint(2, 4))) * 3) for _ in range(dim)]
                    a = gs.SRF(model, seed=seed, mode_no=48).structured(axes)
                    grid = np.array(np.meshgrid(*axes, indexing="ij")).reshape(dim, -1)
                    b = gs.SRF(iso, seed=seed, mode_no=48)(ref_iso_matrix(dim, ang, anis) @ grid)
                    ev += 2
                    ok = np.allclose(np.ravel(a), b, rtol=1e-9, atol=1e-9)
                elif kind.startswith("krige"):
                    val = rng.randn(n)
                    tgt = rng.randn(dim, 7) * 3
                    itgt = ref_iso_matrix(dim, ang, anis) @ tgt
                    if kind == "krige_simple":
                        ka = gs.krige.Simple(model, pos, val, mean=0.3)
                        kb = gs.krige.Simple(iso, ipos, val, mean=0.3)
                        fa, va = ka(tgt, return_var=True)
                        fb, vb = kb(itgt, return_var=True)
                    elif kind == "krige_ordinary":
                        ka = gs.krige.Ordinary(model, pos, val)
                        kb = gs.krige.Ordinary(iso, ipos, val)
                        fa, va = ka(tgt, return_var=True)
                        fb, vb = kb(itgt, return_var=True)
                    elif kind == "krige_universal":
                        if n < dim + 3:
                            continue
                        # the span of {1, x_1..x_d} is invariant under the linear change of coordinates
                        ka = gs.krige.Universal(model, pos, val, "linear")
                        kb = gs.krige.Universal(iso, ipos, val, "linear")
                        fa, va = ka(tgt, return_var=True)
                        fb, vb = kb(itgt, return_var=True)
                    else:
                        ce = rng.randn(n)
                        te = rng.randn(7)
                        ka = gs.krige.ExtDrift(model, pos, val, ce)
                        kb = gs.krige.ExtDrift(iso, ipos, val, ce)
                        fa, va = ka(tgt, ext_drift=te, return_var=True)
                        fb, vb = kb(itgt, ext_drift=te, return_var=True)
                    ev += 2
                    cond = np.linalg.cond(ka._krige_mat) if hasattr(ka, "_krige_mat") else 1.0
                    if not np.isfinite(cond) or cond > 1e6:
                        continue
                    tol = 1e-12 * cond * 100 + 1e-10
                    ok = np.allclose(fa, fb, rtol=tol, atol=tol) and np.allclose(va, vb, rtol=tol, atol=tol)
                elif kind == "condsrf":
                    val = rng.randn(n)
                    tgt = rng.randn(dim, 6) * 3
                    itgt = ref_iso_matrix(dim, ang, anis) @ tgt
                    ca = gs.CondSRF(gs.krige.Ordinary(model, pos, val), seed=seed, mode_no=48)
                    cb = gs.CondSRF(gs.krige.Ordinary(iso, ipos, val), seed=seed, mode_no=48)
                    a, b = ca(tgt), cb(itgt)
                    ev += 2
                    cond = np.linalg.cond(ca.krige._krige_mat)
                    if not np.isfinite(cond) or cond > 1e6:
                        continue
                    tol = 1e-12 * cond * 100 + 1e-9
                    ok = np.allclose(a, b, rtol=tol, atol=tol)
                elif kind == "vector":
                    if dim not in (2, 3):
                        continue
                    a = gs.SRF(model, generator="VectorField", seed=seed, mode_no=48)(pos)
                    b = gs.SRF(iso, generator="VectorField", seed=seed, mode_no=48)(ipos)
                    ev += 2
                    ok = np.allclose(a, b, rtol=1e-9, atol=1e-9)
                else:
                    # pre_pos returns exactly S⁻¹Rᵀ·pos for every pipeline class
                    s = gs.SRF(model, seed=seed, mode_no=16)
                    ip, shape = s.pre_pos(pos)
                    k = gs.krige.Simple(model, pos, rng.randn(n))
                    ev += 2
                    ok = np.allclose(ip, ipos, rtol=1e-12, atol=1e-12) and np.allclose(k._krige_pos, ipos, rtol=1e-12, atol=1e-12) \
                        and tuple(shape) == (n,)
        except Exception as e:   # the pipeline itself failed: not a C12 matter unless only the anisotropic one fails
            ctx.log(f"search: {kind} {Mcls.__name__} dim={dim} raised {type(e).__name__}: {e}")
            continue
        pipes[kind] = pipes.get(kind, 0) + 1
        if not ok:
            _viol(viol, f"pipeline:{kind}", f"{kind} with anisotropic rotated model at x != isotropic model at S⁻¹Rᵀx", case)
    return {"evaluations": ev, "violations": viol,
            "summary": f"{nmat} random (dim 1-4, angles, anis) matrix sets: orthogonality/det/inverse residuals (max {maxres:.1e}), "
                       f"explicit 2-D/3-D/4-D convention formulas, isometrize definition, CovModel round trips, main-axis "
                       f"length scales, cov_spatial; pipelines vs isotropic model at independently transformed positions: {pipes}; "
                       f"{nang} whole ang2dir calls (1-4 directions, 1-3(5) angles, dim= None/match/2/wrong, angles in [-4pi,4pi]) vs ISO "
                       f"80000-2 formulas, single-direction / permutation / full-turn relations: {ang_forms}; {nhist} live model objects "
                       f"walked through setter histories {hist_ops} with uses before each change {hist_uses}: state vs independent "
                       f"bookkeeping, geometry vs S⁻¹Rᵀ after every step, pipelines after the history vs fresh isotropic model: {hist_pipes}; "
                       f"{nstore} Field objects on a live model evaluated, model changed in place / replaced {st_ops} (kriging refreshed by set_condition()), "
                       f"evaluated again {st_hows} vs fresh isotropic model at S⁻¹Rᵀ(stored positions) and vs a brand-new object given the positions: {st_kinds}; "
                       f"geometry strata (neither / anisotropy only, all angles exactly 0 / rotation only, all ratios exactly 1 / both; all or a single non-trivial "
                       f"entry; 5 ways of writing the geometry) x every pipeline x dim 1-4, kriging chunked / structured / only_mean / get_mean, callable drifts and "
                       f"trends composed with the inverse map, universal kriging also against polynomial data in the raw coordinates, Fourier SRF (period P vs "
                       f"isotropic period P/[1,anis], periodicity along rotated main axes, explicit mode sum, axis covariance): cases per pipeline and stratum "
                       f"{sg_by_pipe}, ill-conditioned / raised and left out {sg_skipped}"}
