"""C12 — anisotropy and rotation act as a linear change of coordinates.

correspondence: every geometric helper of gstools/tools/geometric.py, set_len_anis and the CovModel methods
isometrize / anisometrize / main_axes / _get_iso_rad against the Lean model GSV.Model.Geo run on Float
(padding rules bit-exact, matrices within 1e-12 relative to the largest entry).
search: the real API against independent oracles (explicit 2-D/3-D/4-D rotation formulas, orthogonality and
inverse residuals, main-axis length scales, SRF / Krige / CondSRF / vector-field pipelines under the change of
coordinates with an isotropic model at the transformed positions)."""
import warnings

import numpy as np

import proto

ASSUMPTIONS = [
    "theorems are about the hand-written model GSV.Model.Geo instantiated at the reals; it is tied to "
    "gstools/tools/geometric.py, covmodel/tools.py:set_len_anis and CovModel.isometrize/anisometrize/main_axes/"
    "_get_iso_rad by differential execution on Float (1e-12; padding rules and ratios bit-exact)",
    "numpy matmul/dot/cos/sin agree with the Lean Float operations within 1e-12 on O(1) entries (BLAS summation "
    "order, libm)",
    "that Krige and SRF use positions only through model.isometrize (pre_pos, _krige_pos) is modelled by GSV.Model.Pipe "
    "(composition of the Geo, Krige and Gen models) and tied by capturing the assembled kriging matrix, the right-hand "
    "sides and the generator arrays of real objects (1e-11 / 1e-10); CondSRF and vector fields by the search only",
    "lat-lon and temporal models are out of scope here (C13)",
]

TOL = 1e-12
SPECIAL = [0.0, np.pi / 2, -np.pi / 2, np.pi, -np.pi, 2 * np.pi, np.pi / 4, 1e-9, -1e-9, 3 * np.pi / 2]


# ------------------------------------------------------------------ generators
def gen_angles(rng, dim, allow_odd=True):
    from gstools.tools.geometric import no_of_angles
    n = no_of_angles(dim)
    kind = rng.rand()
    if not allow_odd or kind < 0.55:
        ln = n
    elif kind < 0.75:
        ln = int(rng.randint(0, n + 1))          # too short (padding behind with 0)
    elif kind < 0.9:
        ln = n + int(rng.randint(1, 3))          # too long (cut)
    else:
        ln = 0
    a = rng.uniform(-2 * np.pi, 2 * np.pi, size=ln)
    for k in range(ln):
        if rng.rand() < 0.2:
            a[k] = SPECIAL[rng.randint(len(SPECIAL))]
    return [float(v) for v in a]


def gen_anis(rng, dim, allow_odd=True):
    kind = rng.rand()
    if not allow_odd or kind < 0.55:
        ln = dim - 1
    elif kind < 0.75:
        ln = int(rng.randint(0, dim))            # too short (padding in front with 1)
    elif kind < 0.9:
        ln = dim - 1 + int(rng.randint(1, 3))    # too long (cut)
    else:
        ln = 0
    a = np.exp(rng.uniform(-2.0, 2.0, size=ln))
    for k in range(ln):
        if rng.rand() < 0.15:
            a[k] = [1.0, 0.5, 2.0, 0.125, 8.0][rng.randint(5)]
    return [float(v) for v in a]


def close_mat(a, b, tol=TOL):
    a = np.asarray(a, dtype=float)
    b = np.asarray(b, dtype=float)
    if a.shape != b.shape:
        return False
    if a.size == 0:
        return True
    if not (np.all(np.isfinite(a)) and np.all(np.isfinite(b))):
        return bool(np.array_equal(np.isnan(a), np.isnan(b)) and np.array_equal(a[np.isfinite(a)], b[np.isfinite(b)]))
    scale = max(1.0, float(np.max(np.abs(a))), float(np.max(np.abs(b))))
    return bool(np.max(np.abs(a - b)) <= tol * scale)


def bits_equal(a, b):
    a = np.atleast_1d(np.asarray(a, dtype=float))
    b = np.atleast_1d(np.asarray(b, dtype=float))
    return a.shape == b.shape and proto.fbits(a) == proto.fbits(b)


def mat(res):
    """decode a driver matrix (list of rows of bit patterns)"""
    if isinstance(res, dict):
        raise RuntimeError(f"driver error: {res}")
    return np.array([proto.unbits(r) for r in res], dtype=float).reshape(len(res), -1)


def vec(res):
    if isinstance(res, dict):
        raise RuntimeError(f"driver error: {res}")
    return np.asarray(proto.unbits(res), dtype=float)


def _pipe_cases(rng, gs, dim, angles, anis, add):
    """Krige / SRF objects with a rotated anisotropic model: captured kriging matrix + right-hand sides and generator
    outputs, to be compared with GSV.Model.Pipe (distCC/distCT, srfRandmeth/srfFourier and the transformed-mode form)."""
    import gstools.krige.base as KB
    var = float(np.round(rng.uniform(0.5, 3), 3))
    ls = float(np.round(np.exp(rng.uniform(-0.5, 1.0)), 3))
    nug = float(rng.choice([0.0, 0.0, 0.25]))
    Model = [gs.Exponential, gs.Gaussian, gs.Spherical][rng.randint(3)]
    with warnings.catch_warnings():
        warnings.simplefilter("ignore")
        model = Model(dim=dim, var=var, len_scale=ls, nugget=nug, anis=anis if anis else 1.0, angles=angles if angles else 0.0)
    fa, fs = proto.fbits(model.angles), proto.fbits(model.anis)
    n, m = int(rng.randint(1, 6)), int(rng.randint(1, 5))
    cpos = rng.randn(dim, n) * 2
    tpos = rng.randn(dim, m) * 2
    if rng.rand() < 0.4:
        tpos[:, 0] = cpos[:, 0]                      # a target on a datum
    exact = bool(nug > 0 and rng.rand() < 0.5)
    cap = {}
    orig_c = KB.calc_field_krige_and_variance_c

    def spy_k(mat_, vecs, cond, num_threads=None):
        cap["vecs"] = np.array(vecs, copy=True)
        return orig_c(mat_, vecs, cond, num_threads)

    def pinv_k(mat_):
        cap["mat"] = np.array(mat_, copy=True)
        return np.linalg.pinv(mat_)
    KB.calc_field_krige_and_variance_c = spy_k
    try:
        Kr = [gs.krige.Simple, gs.krige.Ordinary][rng.randint(2)]
        kk = Kr(model, [c for c in cpos], np.arange(n, dtype=float), pseudo_inv_type=pinv_k, exact=exact)
        kk([c for c in tpos], mesh_type="unstructured")
    finally:
        KB.calc_field_krige_and_variance_c = orig_c
    case = {"dim": dim, "angles": list(map(float, model.angles)), "anis": list(map(float, model.anis)),
            "model": model.name, "var": var, "len_scale": ls, "nugget": nug, "exact": exact, "krige": Kr.__name__,
            "cpos": cpos.tolist(), "tpos": tpos.tolist()}
    if "mat" in cap and "vecs" in cap:
        cf = model.cov_nugget if exact else model.covariance
        add({"op": "pipe_dists", "dim": dim, "n": n, "m": m, "angles": fa, "anis": fs, "cpos": proto.fbits(cpos),
             "tpos": proto.fbits(tpos)}, "Krige matrix/rhs = cov(dist(isometrize))",
            (model.covariance, cf, float(kk.cond_err) if np.ndim(kk.cond_err) == 0 else 0.0,
             cap["mat"][:n, :n], cap["vecs"][:n, :]), "pipe_dists", case)
    # SRF level
    gen = ["randmeth", "fourier"][int(rng.rand() < 0.35)] if dim <= 3 else "randmeth"
    x = int(rng.randint(1, 5))
    pos = rng.randn(dim, x) * 3
    seed = int(rng.randint(1, 10 ** 6))
    with warnings.catch_warnings():
        warnings.simplefilter("ignore")
        m0 = Model(dim=dim, var=var, len_scale=ls, anis=anis if anis else 1.0, angles=angles if angles else 0.0)
        if gen == "randmeth":
            N = int(rng.randint(1, 9))
            srf = gs.SRF(m0, seed=seed, mode_no=N)
            field = srf([c for c in pos], mesh_type="unstructured")
            g = srf.generator
            op = {"op": "pipe_srf", "gen": gen, "dim": dim, "N": N, "X": x, "angles": fa, "anis": fs, "var": proto.f2b(var),
                  "k": proto.fbits(g._cov_sample), "z1": proto.fbits(g._z_1), "z2": proto.fbits(g._z_2), "pos": proto.fbits(pos)}
        else:
            period = [float(v) for v in np.round(rng.uniform(8, 20, dim), 2)]
            srf = gs.SRF(m0, generator="Fourier", seed=seed, period=period, mode_no=[2 * int(rng.randint(1, 3))] * dim)
            field = srf([c for c in pos], mesh_type="unstructured")
            g = srf.generator
            N = int(g._modes.shape[1])
            op = {"op": "pipe_srf", "gen": gen, "dim": dim, "N": N, "X": x, "angles": fa, "anis": fs,
                  "sf": proto.fbits(g._spectrum_factor), "k": proto.fbits(g._modes), "z1": proto.fbits(g._z_1),
                  "z2": proto.fbits(g._z_2), "pos": proto.fbits(pos)}
    add(op, "SRF(" + gen + ") = generator(isometrize(pos)) = transformed modes at pos", np.asarray(field, dtype=float), "pipe_srf",
        dict(case, gen=gen, seed=seed, pos=pos.tolist()))


# ------------------------------------------------------------------ correspondence
def correspondence(ctx):
    import gstools as gs
    from gstools.covmodel.tools import set_len_anis
    from gstools.tools import geometric as G

    rng = np.random.RandomState(ctx.seed + 1200)
    ncase = ctx.scale(600, 6000)
    ops, checks = [], []          # checks: (what, case, expected (python), comparator kind)
    dist = {}

    def add(op, what, expected, kind, case):
        ops.append(op)
        checks.append((what, case, expected, kind))
        dist[what] = dist.get(what, 0) + 1

    # exhaustive small part: planes and angle counts for dim 0..8
    for dim in range(0, 9):
        add({"op": "geo_planes", "dim": dim}, "rotation_planes", [list(p) for p in G.rotation_planes(dim)], "ints", {"dim": dim})
        add({"op": "geo_no_angles", "dim": dim}, "no_of_angles", [G.no_of_angles(dim)], "ints", {"dim": dim})

    for t in range(ncase):
        dim = int(rng.randint(1, 5))
        angles = gen_angles(rng, dim)
        anis = gen_anis(rng, dim)
        case = {"dim": dim, "angles": angles, "anis": anis}
        fa, fs = proto.fbits(angles), proto.fbits(anis)
        # padding rules: bit exact
        add({"op": "geo_set_angles", "dim": dim, "angles": fa}, "set_angles", G.set_angles(dim, angles), "bits", case)
        add({"op": "geo_set_anis", "dim": dim, "anis": fs}, "set_anis", G.set_anis(dim, anis), "bits", case)
        # scalar arguments are 1-element lists
        if t % 7 == 0 and angles:
            add({"op": "geo_set_angles", "dim": dim, "angles": fa[:1]}, "set_angles", G.set_angles(dim, angles[0]), "bits",
                {"dim": dim, "angles": angles[0]})
        if t % 7 == 1 and anis:
            add({"op": "geo_set_anis", "dim": dim, "anis": fs[:1]}, "set_anis", G.set_anis(dim, anis[0]), "bits",
                {"dim": dim, "anis": anis[0]})
        # one Givens rotation (also degenerate plane p == q and reversed planes: the model follows the writes)
        p, q = int(rng.randint(0, dim)), int(rng.randint(0, dim))
        ang = float(rng.uniform(-7, 7)) if rng.rand() < 0.8 else float(SPECIAL[rng.randint(len(SPECIAL))])
        add({"op": "geo_givens", "dim": dim, "p": p, "q": q, "angle": proto.f2b(ang)}, "givens_rotation",
            G.givens_rotation(dim, (p, q), ang), "mat", {"dim": dim, "plane": [p, q], "angle": ang})
        add({"op": "geo_rotate", "dim": dim, "angles": fa}, "matrix_rotate", G.matrix_rotate(dim, angles), "mat", case)
        add({"op": "geo_derotate", "dim": dim, "angles": fa}, "matrix_derotate", G.matrix_derotate(dim, angles), "mat", case)
        add({"op": "geo_main_axes", "dim": dim, "angles": fa}, "rotated_main_axes", G.rotated_main_axes(dim, angles), "mat", case)
        add({"op": "geo_isotropify", "dim": dim, "anis": fs}, "matrix_isotropify", G.matrix_isotropify(dim, anis), "mat", case)
        add({"op": "geo_anisotropify", "dim": dim, "anis": fs}, "matrix_anisotropify", G.matrix_anisotropify(dim, anis), "mat", case)
        add({"op": "geo_isometrize", "dim": dim, "angles": fa, "anis": fs}, "matrix_isometrize",
            G.matrix_isometrize(dim, angles, anis), "mat", case)
        add({"op": "geo_anisometrize", "dim": dim, "angles": fa, "anis": fs}, "matrix_anisometrize",
            G.matrix_anisometrize(dim, angles, anis), "mat", case)

        # set_len_anis: structured + malformed stream
        r = rng.rand()
        if r < 0.45:
            ls = [float(np.exp(rng.uniform(-1, 2)))]
        elif r < 0.9:
            ls = [float(v) for v in np.exp(rng.uniform(-1, 2, size=int(rng.randint(2, dim + 3))))]
        else:
            ls = []
        an2 = list(anis)
        if rng.rand() < 0.25 and an2:
            an2[rng.randint(len(an2))] = [0.0, -1.0, float("nan"), -0.0, float("inf")][rng.randint(5)]
        if rng.rand() < 0.15 and len(ls) > 1:
            ls[rng.randint(len(ls))] = [0.0, -2.0, float("nan")][rng.randint(3)]
        try:
            with warnings.catch_warnings(), np.errstate(all="ignore"):
                warnings.simplefilter("ignore")
                l0, oa = set_len_anis(dim, ls, an2)
            exp = ("ok", float(l0), np.asarray(oa, dtype=float))
        except ValueError:
            exp = ("ValueError",)
        except IndexError:
            exp = ("IndexError",)
        add({"op": "geo_set_len_anis", "dim": dim, "len_scale": proto.fbits(ls), "anis": proto.fbits(an2)}, "set_len_anis",
            exp, "lenanis", {"dim": dim, "len_scale": ls, "anis": an2})

        # CovModel methods on a position tuple
        if t % 2 == 0:
            n = int(rng.randint(1, 5))
            pos = rng.randn(dim, n) * 3
            if rng.rand() < 0.3:
                pos = np.round(pos)
            len_scale = float(np.exp(rng.uniform(-1, 1)))
            with warnings.catch_warnings():
                warnings.simplefilter("ignore")
                model = gs.Exponential(dim=dim, var=1.0, len_scale=len_scale, anis=anis if anis else 1.0,
                                       angles=angles if angles else 0.0)
            # what the constructor stored must be the padded vectors
            add({"op": "geo_set_angles", "dim": dim, "angles": fa if angles else proto.fbits([0.0])}, "CovModel.angles",
                model.angles, "bits", case)
            add({"op": "geo_set_anis", "dim": dim, "anis": fs if anis else proto.fbits([1.0])}, "CovModel.anis",
                model.anis, "bits", case)
            iso = model.isometrize(pos)
            ani = model.anisometrize(pos)
            rad = model._get_iso_rad(pos)
            c2 = dict(case, pos=pos.tolist())
            add({"op": "geo_model_pos", "dim": dim, "n": n, "angles": proto.fbits(model.angles), "anis": proto.fbits(model.anis),
                 "pos": proto.fbits(pos)}, "CovModel.isometrize/anisometrize/_get_iso_rad", (iso, ani, rad), "modelpos", c2)
            add({"op": "geo_main_axes", "dim": dim, "angles": proto.fbits(model.angles)}, "CovModel.main_axes",
                model.main_axes(), "mat", case)

        # pipelines (GSV.Model.Pipe): what a real Krige / SRF object built with the rotated anisotropic model hands to
        # its covariance function / generator kernel, against the composed model (isometrize -> distances / kernel)
        if t % 6 == 0:
            _pipe_cases(rng, gs, dim, angles, anis, add)

        # ang2dir (one direction)
        if t % 3 == 0:
            na = int(rng.randint(0, 5))
            aa = [float(v) for v in rng.uniform(-4, 4, size=na)]
            try:
                if na == 1:
                    ev = ("ok", np.asarray(G.ang2dir(aa[0]))[0])
                else:
                    ev = ("ok", np.asarray(G.ang2dir([aa]))[0])
            except ValueError:
                ev = ("ValueError",)
            add({"op": "geo_ang2dir", "angles": proto.fbits(aa)}, "ang2dir", ev, "ang2dir", {"angles": aa})

    res = proto.run_driver(ops)
    dis, samples = [], []
    seen = set()
    for (what, case, exp, kind), r in zip(checks, res):
        ok = True
        got = None
        try:
            if kind == "ints":
                got = r
                ok = (r == exp)
            elif kind == "bits":
                got = vec(r)
                ok = bits_equal(got, exp)
            elif kind == "mat":
                got = mat(r) if r else np.zeros((0, 0))
                ok = close_mat(got, np.asarray(exp).reshape(got.shape) if np.size(exp) == got.size else exp)
            elif kind == "lenanis":
                if exp[0] != "ok":
                    got = r
                    ok = (r == exp[0])
                else:
                    ok = isinstance(r, list) and bits_equal([proto.b2f(r[0])], [exp[1]]) and bits_equal(vec(r[1]), exp[2])
                    got = r
            elif kind == "modelpos":
                iso, ani, rad = exp
                g_iso = mat(r[0]).T if r[0] else np.zeros_like(iso)
                g_ani = mat(r[1]).T if r[1] else np.zeros_like(ani)
                g_rad = vec(r[2])
                got = [g_iso, g_ani, g_rad]
                ok = close_mat(g_iso, iso) and close_mat(g_ani, ani) and close_mat(g_rad, rad)
            elif kind == "pipe_dists":
                # real matrix block / rhs rows = cf(model's distances): apply the REAL covariance functions to the model's tables
                cov, cf, err, kmat, kvecs = exp
                dcc, dct = mat(r[0]), mat(r[1])
                got = [cov(dcc) + np.diag(np.full(dcc.shape[0], err)), cf(dct)]
                ok = close_mat(got[0], kmat, 1e-11) and close_mat(got[1], kvecs, 1e-11)
            elif kind == "pipe_srf":
                got = [vec(r[0]), vec(r[1])]
                ok = close_mat(got[0], exp, 1e-10) and close_mat(got[1], exp, 1e-10)
            elif kind == "ang2dir":
                if exp[0] != "ok":
                    got = r
                    ok = (r == exp[0])
                else:
                    got = vec(r) if not isinstance(r, str) else r
                    ok = (not isinstance(r, str)) and close_mat(got, exp[1])
        except Exception as e:  # malformed driver answer
            ok = False
            got = f"{type(e).__name__}: {e}"
        key = (what, case.get("dim"), len(case.get("angles", [])) if isinstance(case.get("angles"), list) else -1,
               len(case.get("anis", [])) if isinstance(case.get("anis"), list) else -1)
        seen.add(key)
        if len(samples) < 6 and what in ("matrix_rotate", "set_anis", "matrix_isometrize"):
            samples.append({"what": what, "case": case})
        if not ok:
            dis.append({"what": what, "case": case, "impl": _tolist(exp), "model": _tolist(got)})
    return {"evaluations": len(ops), "distinct_nontrivial": len(seen),
            "rule": "random dim 1-4, angle/anis vectors of correct, short, long and empty length incl. special angles; "
                    "distinct = (helper, dim, len(angles), len(anis)) classes hit; non-trivial = at least one non-zero angle "
                    "or non-unit ratio in the class",
            "samples": samples, "disagreements": dis[:20], "distribution": dist}


def _tolist(x):
    if isinstance(x, np.ndarray):
        return x.tolist()
    if isinstance(x, (list, tuple)):
        return [_tolist(v) for v in x]
    if isinstance(x, (np.floating, np.integer)):
        return x.item()
    return x


# ------------------------------------------------------------------ independent oracles for the search
def ref_plane_rot(dim, i, j, a):
    """right-handed rotation by a in the oriented plane (e_i -> e_j)"""
    m = np.eye(dim)
    c, s = np.cos(a), np.sin(a)
    m[i, i] = c
    m[j, j] = c
    m[i, j] = -s
    m[j, i] = s
    return m


def ref_rotate(dim, ang):
    """explicit documented conventions, written independently of rotation_planes / the sign loop"""
    ang = list(ang)
    if dim == 1:
        return np.eye(1)
    if dim == 2:
        c, s = np.cos(ang[0]), np.sin(ang[0])
        return np.array([[c, -s], [s, c]])
    if dim == 3:
        y, p, r = ang
        rz = np.array([[np.cos(y), -np.sin(y), 0], [np.sin(y), np.cos(y), 0], [0, 0, 1]])
        ry = np.array([[np.cos(p), 0, np.sin(p)], [0, 1, 0], [-np.sin(p), 0, np.cos(p)]])
        rx = np.array([[1, 0, 0], [0, np.cos(r), -np.sin(r)], [0, np.sin(r), np.cos(r)]])
        return rx @ ry @ rz
    if dim == 4:
        a0, a1, a2, a3, a4, a5 = ang
        return (ref_plane_rot(4, 2, 3, -a5) @ ref_plane_rot(4, 1, 3, a4) @ ref_plane_rot(4, 0, 3, -a3)
                @ ref_plane_rot(4, 1, 2, a2) @ ref_plane_rot(4, 0, 2, -a1) @ ref_plane_rot(4, 0, 1, a0))
    raise ValueError(dim)


def ref_pad_angles(dim, ang):
    """documented: too few angles are filled up with 0 (behind), surplus angles are ignored"""
    n = dim * (dim - 1) // 2
    a = [float(v) for v in np.atleast_1d(ang)][:n]
    return a + [0.0] * (n - len(a))


def ref_pad_anis(dim, anis):
    """documented: too few ratios -> the first dimensions are filled up with 1 (anis=[e] in 3-D is [1, e])"""
    a = [float(v) for v in np.atleast_1d(anis)][:max(dim - 1, 0)]
    return [1.0] * (dim - 1 - len(a)) + a


def ref_iso_matrix(dim, ang, anis):
    s = np.concatenate(([1.0], np.asarray(ref_pad_anis(dim, anis), dtype=float)))
    return np.diag(1.0 / s) @ ref_rotate(dim, ref_pad_angles(dim, ang)).T


def _viol(viol, key, what, case, **kw):
    if len(viol) < 12:
        viol.append(dict({"key": key, "what": what, "case": case}, **kw))


def search(ctx, deep=False):
    import gstools as gs
    from gstools.tools import geometric as G

    rng = np.random.RandomState(ctx.seed + 1201)
    viol, ev = [], 0
    nmat = ctx.scale(1200, 12000) * (3 if deep else 1)
    maxres = 0.0
    for t in range(nmat):
        dim = int(rng.randint(1, 5))
        ang = gen_angles(rng, dim, allow_odd=(t % 4 == 0))
        anis = gen_anis(rng, dim, allow_odd=(t % 4 == 0))
        case = {"dim": dim, "angles": ang, "anis": anis}
        # padding rules against their documentation
        if not (np.array_equal(G.set_angles(dim, ang), ref_pad_angles(dim, ang))
                and np.array_equal(G.set_anis(dim, anis), ref_pad_anis(dim, anis))):
            _viol(viol, "geometric:padding", "set_angles / set_anis do not pad as documented (angles behind with 0, anis in front with 1)", case)
        ang_in, anis_in = ang, anis
        ang, anis = ref_pad_angles(dim, ang), ref_pad_anis(dim, anis)
        R = G.matrix_rotate(dim, ang)
        D = G.matrix_derotate(dim, ang)
        I = np.eye(dim)
        ev += 1
        res = max(np.abs(R @ R.T - I).max(), np.abs(R.T @ R - I).max(), abs(np.linalg.det(R) - 1.0),
                  np.abs(D @ R - I).max(), np.abs(R @ D - I).max(), np.abs(D - R.T).max())
        maxres = max(maxres, res)
        if not res <= 1e-13 * 50:
            _viol(viol, "geometric:rotate-not-special-orthogonal", "matrix_rotate/derotate not mutually inverse proper rotations", case, residual=float(res))
        R = G.matrix_rotate(dim, ang_in)
        Rr = ref_rotate(dim, ang)
        if not np.abs(R - Rr).max() <= 1e-13 * 50:
            _viol(viol, "geometric:rotate-convention", "matrix_rotate differs from the documented convention "
                  "(2-D ccw, 3-D Rx(roll)Ry(pitch)Rz(yaw), n-D plane order with alternating signs)", case,
                  got=R.tolist(), want=Rr.tolist())
        Mi = G.matrix_isometrize(dim, ang_in, anis_in)
        Ma = G.matrix_anisometrize(dim, ang_in, anis_in)
        sc = max(1.0, max(anis + [1.0]) / min(anis + [1.0]))
        r2 = max(np.abs(Mi @ Ma - I).max(), np.abs(Ma @ Mi - I).max())
        if not r2 <= 1e-13 * 50 * sc:
            _viol(viol, "geometric:iso-aniso-inverse", "matrix_isometrize and matrix_anisometrize are not mutually inverse", case, residual=float(r2))
        if not np.abs(Mi - ref_iso_matrix(dim, ang, anis)).max() <= 1e-13 * 50 * sc:
            _viol(viol, "geometric:isometrize-definition", "matrix_isometrize differs from diag(1,1/anis)·Rᵀ", case)
        # model level: round trip on positions, main axes scaling, len_scale_vec
        if t % 3 == 0:
            L = float(np.exp(rng.uniform(-1, 1)))
            with warnings.catch_warnings():
                warnings.simplefilter("ignore")
                model = gs.Exponential(dim=dim, var=2.0, len_scale=L, anis=anis_in if anis_in else 1.0,
                                       angles=ang_in if ang_in else 0.0)
                # a list of length scales is turned into ratios: len_scale_vec gives the list back (edge padded)
                nl = int(rng.randint(2, dim + 2))
                lsl = [float(v) for v in np.exp(rng.uniform(-1, 1, size=nl))]
                ml = gs.Exponential(dim=dim, len_scale=lsl)
            want_ls = (lsl + [lsl[-1]] * dim)[:dim] if nl < dim else lsl[:dim]
            ev += 1
            if not (np.allclose(ml.len_scale_vec, want_ls, rtol=1e-14, atol=0) and ml.len_scale == lsl[0]
                    and np.allclose(ml.anis, np.array(want_ls[1:]) / lsl[0], rtol=1e-15, atol=0)):
                _viol(viol, "covmodel:len_scale_list", "len_scale list is not turned into ratios len_scale[i]/len_scale[0]",
                      {"dim": dim, "len_scale": lsl}, got=np.asarray(ml.len_scale_vec).tolist())
            # non-positive ratios must be rejected
            bad = [0.0, -0.5, float("nan")][t % 3]
            if dim > 1:
                ev += 1
                try:
                    gs.Exponential(dim=dim, anis=[bad] * (dim - 1))
                    _viol(viol, "covmodel:anis-not-positive-accepted", "an anisotropy ratio <= 0 (or nan) was accepted", {"dim": dim, "anis": bad})
                except ValueError:
                    pass
            pos = rng.randn(dim, 6) * 4
            back = model.anisometrize(model.isometrize(pos))
            forth = model.isometrize(model.anisometrize(pos))
            ev += 2
            if not (np.abs(back - pos).max() <= 1e-12 * sc * 10 and np.abs(forth - pos).max() <= 1e-12 * sc * 10):
                _viol(viol, "covmodel:isometrize-roundtrip", "anisometrize(isometrize(x)) != x", dict(case, pos=pos.tolist()))
            axes = model.main_axes()
            svec = np.concatenate(([1.0], anis))
            if not np.allclose(model.len_scale_vec, L * svec, rtol=1e-14, atol=0):
                _viol(viol, "covmodel:len_scale_vec", "len_scale_vec != len_scale * [1, anis]", case)
            for i in range(dim):
                tt = float(np.exp(rng.uniform(-1, 1)))
                x = (tt * axes[i]).reshape(dim, 1)
                rad = float(np.linalg.norm(model.isometrize(x)))
                ev += 1
                if not abs(rad - tt / svec[i]) <= 1e-12 * (1 + tt / svec[i]) * 10:
                    _viol(viol, "covmodel:main-axis-scale", "‖isometrize(t·axis_i)‖ != t / anis[i-1]", dict(case, axis=i, t=tt),
                          got=rad, want=tt / svec[i])
                # along the i-th main axis the model is the isotropic model with len_scale * anis[i-1]
                iso_i = gs.Exponential(dim=dim, var=2.0, len_scale=L * svec[i])
                a = float(model.cov_spatial(x)[0])
                b = float(iso_i.covariance(tt))
                if not abs(a - b) <= 1e-11 * (1 + abs(b)):
                    _viol(viol, "covmodel:axis-length-scale", "cov_spatial along main axis i is not the model with len_scale*anis[i-1]",
                          dict(case, axis=i, t=tt), got=a, want=b)
            # cov_spatial / vario_spatial use exactly the isometrized radius (independent matrix)
            h = rng.randn(dim, 5) * 2
            rr = np.linalg.norm(ref_iso_matrix(dim, ang, anis) @ h, axis=0)
            ev += 2
            if not (np.allclose(model.cov_spatial(h), model.covariance(rr), rtol=1e-10, atol=1e-13)
                    and np.allclose(model.vario_spatial(h), model.variogram(rr), rtol=1e-10, atol=1e-13)):
                _viol(viol, "covmodel:cov_spatial", "cov_spatial(h) != covariance(‖S⁻¹Rᵀh‖)", dict(case, h=h.tolist()))

    # ---------------- pipelines
    npipe = ctx.scale(180, 1500) * (2 if deep else 1)
    models = [gs.Gaussian, gs.Exponential, gs.Matern, gs.Stable, gs.Spherical, gs.Linear, gs.Cubic, gs.Rational,
              gs.Circular, gs.HyperSpherical, gs.SuperSpherical, gs.JBessel, gs.TPLGaussian, gs.TPLExponential,
              gs.TPLStable, gs.TPLSimple, gs.Integral]
    pipes = {}
    for t in range(npipe):
        dim = int(rng.randint(1, 5)) if t % 4 else int(rng.randint(2, 4))
        ang = gen_angles(rng, dim, allow_odd=(t % 5 == 0))
        anis = gen_anis(rng, dim, allow_odd=(t % 5 == 0))
        # keep ratios moderate so that kriging systems stay well conditioned
        anis = [float(min(max(a, 0.25), 4.0)) for a in anis]
        L = float(np.exp(rng.uniform(-0.5, 1.0)))
        Mcls = models[rng.randint(len(models))]
        kw = dict(dim=dim, var=float(np.exp(rng.uniform(-1, 1))), len_scale=L)
        try:
            with warnings.catch_warnings():
                warnings.simplefilter("ignore")
                model = Mcls(anis=anis if anis else 1.0, angles=ang if ang else 0.0, **kw)
                iso = Mcls(**kw)
        except ValueError:
            continue        # model not defined in this dimension
        case = {"model": Mcls.__name__, "dim": dim, "angles": ang, "anis": anis, "len_scale": L, "var": kw["var"]}
        seed = int(rng.randint(1, 2**31 - 1))
        n = int(rng.randint(3, 12))
        pos = rng.randn(dim, n) * 3
        ipos = ref_iso_matrix(dim, ang, anis) @ pos     # independent of model.isometrize and of the padding code
        kind = ["srf", "srf_struct", "krige_simple", "krige_ordinary", "krige_universal", "krige_extdrift", "condsrf",
                "vector", "fourier_modes"][t % 9]
        try:
            with warnings.catch_warnings():
                warnings.simplefilter("ignore")
                if kind == "srf":
                    a = gs.SRF(model, seed=seed, mode_no=64)(pos)
                    b = gs.SRF(iso, seed=seed, mode_no=64)(ipos)
                    ev += 2
                    ok = np.allclose(a, b, rtol=1e-9, atol=1e-9)
                    # independent evaluation of the randomization sum with transformed modes Mᵀk at the raw positions
                    g = gs.SRF(model, seed=seed, mode_no=64).generator
                    kk = ref_iso_matrix(dim, ang, anis).T @ g._cov_sample
                    ph = kk.T @ pos
                    c = np.sqrt(model.var / g._mode_no) * (g._z_1 @ np.cos(ph) + g._z_2 @ np.sin(ph))
                    ok = ok and np.allclose(a, c, rtol=1e-8, atol=1e-8)
                elif kind == "srf_struct":
                    if dim > 3:
                        continue
                    axes = [np.sort(rng.randn(int(rng.randint(2, 4))) * 3) for _ in range(dim)]
                    a = gs.SRF(model, seed=seed, mode_no=48).structured(axes)
                    grid = np.array(np.meshgrid(*axes, indexing="ij")).reshape(dim, -1)
                    b = gs.SRF(iso, seed=seed, mode_no=48)(ref_iso_matrix(dim, ang, anis) @ grid)
                    ev += 2
                    ok = np.allclose(np.ravel(a), b, rtol=1e-9, atol=1e-9)
                elif kind.startswith("krige"):
                    val = rng.randn(n)
                    tgt = rng.randn(dim, 7) * 3
                    itgt = ref_iso_matrix(dim, ang, anis) @ tgt
                    if kind == "krige_simple":
                        ka = gs.krige.Simple(model, pos, val, mean=0.3)
                        kb = gs.krige.Simple(iso, ipos, val, mean=0.3)
                        fa, va = ka(tgt, return_var=True)
                        fb, vb = kb(itgt, return_var=True)
                    elif kind == "krige_ordinary":
                        ka = gs.krige.Ordinary(model, pos, val)
                        kb = gs.krige.Ordinary(iso, ipos, val)
                        fa, va = ka(tgt, return_var=True)
                        fb, vb = kb(itgt, return_var=True)
                    elif kind == "krige_universal":
                        if n < dim + 3:
                            continue
                        # the span of {1, x_1..x_d} is invariant under the linear change of coordinates
                        ka = gs.krige.Universal(model, pos, val, "linear")
                        kb = gs.krige.Universal(iso, ipos, val, "linear")
                        fa, va = ka(tgt, return_var=True)
                        fb, vb = kb(itgt, return_var=True)
                    else:
                        ce = rng.randn(n)
                        te = rng.randn(7)
                        ka = gs.krige.ExtDrift(model, pos, val, ce)
                        kb = gs.krige.ExtDrift(iso, ipos, val, ce)
                        fa, va = ka(tgt, ext_drift=te, return_var=True)
                        fb, vb = kb(itgt, ext_drift=te, return_var=True)
                    ev += 2
                    cond = np.linalg.cond(ka._krige_mat) if hasattr(ka, "_krige_mat") else 1.0
                    if not np.isfinite(cond) or cond > 1e6:
                        continue
                    tol = 1e-12 * cond * 100 + 1e-10
                    ok = np.allclose(fa, fb, rtol=tol, atol=tol) and np.allclose(va, vb, rtol=tol, atol=tol)
                elif kind == "condsrf":
                    val = rng.randn(n)
                    tgt = rng.randn(dim, 6) * 3
                    itgt = ref_iso_matrix(dim, ang, anis) @ tgt
                    ca = gs.CondSRF(gs.krige.Ordinary(model, pos, val), seed=seed, mode_no=48)
                    cb = gs.CondSRF(gs.krige.Ordinary(iso, ipos, val), seed=seed, mode_no=48)
                    a, b = ca(tgt), cb(itgt)
                    ev += 2
                    cond = np.linalg.cond(ca.krige._krige_mat)
                    if not np.isfinite(cond) or cond > 1e6:
                        continue
                    tol = 1e-12 * cond * 100 + 1e-9
                    ok = np.allclose(a, b, rtol=tol, atol=tol)
                elif kind == "vector":
                    if dim not in (2, 3):
                        continue
                    a = gs.SRF(model, generator="VectorField", seed=seed, mode_no=48)(pos)
                    b = gs.SRF(iso, generator="VectorField", seed=seed, mode_no=48)(ipos)
                    ev += 2
                    ok = np.allclose(a, b, rtol=1e-9, atol=1e-9)
                else:
                    # pre_pos returns exactly S⁻¹Rᵀ·pos for every pipeline class
                    s = gs.SRF(model, seed=seed, mode_no=16)
                    ip, shape = s.pre_pos(pos)
                    k = gs.krige.Simple(model, pos, rng.randn(n))
                    ev += 2
                    ok = np.allclose(ip, ipos, rtol=1e-12, atol=1e-12) and np.allclose(k._krige_pos, ipos, rtol=1e-12, atol=1e-12) \
                        and tuple(shape) == (n,)
        except Exception as e:   # the pipeline itself failed: not a C12 matter unless only the anisotropic one fails
            ctx.log(f"search: {kind} {Mcls.__name__} dim={dim} raised {type(e).__name__}: {e}")
            continue
        pipes[kind] = pipes.get(kind, 0) + 1
        if not ok:
            _viol(viol, f"pipeline:{kind}", f"{kind} with anisotropic rotated model at x != isotropic model at S⁻¹Rᵀx", case)
    return {"evaluations": ev, "violations": viol,
            "summary": f"{nmat} random (dim 1-4, angles, anis) matrix sets: orthogonality/det/inverse residuals (max {maxres:.1e}), "
                       f"explicit 2-D/3-D/4-D convention formulas, isometrize definition, CovModel round trips, main-axis "
                       f"length scales, cov_spatial; pipelines vs isotropic model at independently transformed positions: {pipes}"}
