"""C09 — variogram estimation respects its invariances and preprocessing semantics."""
import contextlib
import warnings
import numpy as np
import brute
from proto import run_driver, fbits, unbits

KERNEL_FILES = ["variogram/estimator.pyx"]
ASSUMPTIONS = ["numpy's RandomState(seed).choice is replayed by the harness (the sub-sample indices are an input of the model)",
               "remove_trend_norm_mean (trend/normalizer/mean) is C18's subject (Model.Norm); here its use inside vario_estimate is tied to that model "
               "by a separate correspondence stratum, the other strata use the identity",
               "permutation invariance is proved for counts/sums over the reals only when listed as discharged in the evidence; it is searched on the real API in any case"]


@contextlib.contextmanager
def capture(store):
    from gstools.variogram import variogram as V
    o1, o2 = V._unstructured, V._directional

    def w1(field, bin_edges, pos, **kw):
        store.append(("iso", np.array(field), np.array(bin_edges), np.array(pos), dict(kw)))
        return o1(field, bin_edges, pos, **kw)

    def w2(field, bin_edges, pos, direction, angles_tol, bandwidth, **kw):
        store.append(("dir", np.array(field), np.array(bin_edges), np.array(pos),
                      dict(kw, direction=np.array(direction), angles_tol=angles_tol, bandwidth=bandwidth)))
        return o2(field, bin_edges, pos, direction, angles_tol, bandwidth, **kw)
    V._unstructured, V._directional = w1, w2
    try:
        yield
    finally:
        V._unstructured, V._directional = o1, o2


def correspondence(ctx):
    import gstools as gs
    rng = np.random.RandomState(ctx.seed + 909)
    N = ctx.scale(400, 4000)
    ops, meta, dist, samples = [], [], {}, []
    n_auto = {True: 0, False: 0}      # the binning combinations are cycled separately for lat-lon and metric calls
    with warnings.catch_warnings():
        warnings.simplefilter("ignore")
        for t in range(N):
            latlon = bool(rng.rand() < 0.35)
            dim = 2 if latlon else int(rng.randint(1, 4))
            P = int(rng.randint(3, 14))
            F = int(rng.randint(1, 4))
            pos = rng.uniform(-5, 5, size=(dim, P))
            step = float(rng.choice([0.5, 4.0])) if latlon else 1.0
            pos[0] = np.arange(P) * step                          # first coordinate encodes the original index
            if latlon and rng.rand() < 0.5:
                pos[1] = rng.uniform(-200, 200, size=P)           # wide longitudes incl. the date line and beyond
            f = rng.randint(-8, 9, size=(F, P)) / 4.0
            fmask = np.zeros((F, P), dtype=bool)
            use_ma = rng.rand() < 0.5
            if use_ma:
                fmask = rng.rand(F, P) < 0.25
                if rng.rand() < 0.3:
                    fmask[:, int(rng.randint(0, P))] = True      # a point masked in all fields
            emask = None
            if rng.rand() < 0.4:
                emask = rng.rand(P) < 0.2
                if emask.all():
                    emask[0] = False
            nd = None
            if rng.rand() < 0.4:
                nd = float(rng.choice([1.0, -0.5, 1.00000001, 0.0, -0.0, 1e-9]))     # incl. falsy sentinels and the atol band around 0
            samp = None
            if rng.rand() < 0.3:
                samp = (int(rng.randint(2, P + 2)), int(rng.randint(0, 100)))
            bins = np.array([0.0, 1.0, 2.5, 4.0, 8.0])
            kw = dict(return_counts=True)
            geo = 1.0
            if latlon:
                geo = float(rng.choice([1.0, gs.DEGREE_SCALE, gs.KM_SCALE, 3.5]))
                kw.update(latlon=True, geo_scale=geo)
                bins = bins / 8.0 * geo
            # binning: explicit edges, or bin_edges=None with {bin_no given / None} x {max_dist given / None} handed on to
            # standard_bins (max_dist in the unit of geo_scale, like the edges)
            auto = None
            if rng.rand() < 0.6:
                auto = {}
                combo = n_auto[latlon] % 4
                n_auto[latlon] += 1
                if combo & 1:
                    auto["bin_no"] = int(rng.randint(1, 9))
                if combo & 2:
                    auto["max_dist"] = float(rng.uniform(0.1, 1.2) * geo) if latlon else float(rng.uniform(1.0, 12.0))
                kw.update(auto)
            dirs = None
            if dim > 1 and not latlon and rng.rand() < 0.5:
                D = int(rng.randint(1, 4))
                dirs = rng.randn(D, dim) * rng.choice([0.1, 1.0, 7.0])
                if rng.rand() < 0.4:
                    dirs = np.eye(dim)[rng.permutation(dim)[:min(D, dim)]] * 3.0
                kw.update(direction=dirs, angles_tol=float(rng.choice([np.pi / 8, np.pi / 4, 0.2])))
                if dim in (2, 3) and rng.rand() < 0.4:
                    # the same directions given as ISO 80000-2 angles (`angles=`): 1..3 rows at once, full azimuth range;
                    # the model gets the independently computed direction vectors
                    az = rng.uniform(-2 * np.pi, 2 * np.pi, size=D)
                    if dim == 2:
                        dirs = np.stack([np.cos(az), np.sin(az)], axis=1)
                        ang = az if rng.rand() < 0.5 else az.reshape(-1, 1)
                    else:
                        inc = rng.uniform(0.1, np.pi - 0.1, size=D)
                        dirs = np.stack([np.sin(inc) * np.cos(az), np.sin(inc) * np.sin(az), np.cos(inc)], axis=1)
                        ang = np.stack([az, inc], axis=1)
                    del kw["direction"]
                    kw["angles"] = ang
                if rng.rand() < 0.5:
                    kw["bandwidth"] = float(rng.choice([0.5, 2.0]))
            fld = np.ma.array(f, mask=fmask) if use_ma else f
            if F == 1 and rng.rand() < 0.5:
                fld = fld[0]
            mrep = "-"
            if emask is not None:
                mrep = MASK_REPRS[int(rng.randint(len(MASK_REPRS)))]     # the caller's representation; the model sees the booleans
                kw["mask"] = _mask_as(emask, mrep)
            if nd is not None:
                kw["no_data"] = int(nd) if (nd in (0.0, 1.0) and rng.rand() < 0.5) else nd
            if samp is not None:
                kw.update(sampling_size=samp[0], sampling_seed=samp[1])
            store = []
            try:
                with capture(store):
                    out = gs.vario_estimate(pos, fld, None if auto is not None else bins, **kw)
            except Exception as e:
                dist["rejected:" + type(e).__name__] = dist.get("rejected:" + type(e).__name__, 0) + 1
                continue
            if not store:
                dist["all-masked"] = dist.get("all-masked", 0) + 1
                continue
            kind, cf, cb, cp, ckw = store[0]
            bmode = "explicit" if auto is None else "+".join(sorted(auto) or ["auto"])
            gname = {1.0: "radian", gs.DEGREE_SCALE: "degree", gs.KM_SCALE: "km"}.get(geo, "arbitrary") if latlon else "-"
            key = f"{kind}/ma={use_ma}/mask={emask is not None}/nodata={nd is not None}/sampled={samp is not None}/latlon={latlon}"
            bkey = f"bins={bmode}/latlon={latlon}/geo_scale={gname}"
            dist[bkey] = dist.get(bkey, 0) + 1
            dist[key] = dist.get(key, 0) + 1
            if emask is not None:
                dist["mask-representation=" + mrep] = dist.get("mask-representation=" + mrep, 0) + 1
            if nd is not None:
                dist[f"no_data={kw['no_data']!r}"] = dist.get(f"no_data={kw['no_data']!r}", 0) + 1
            # kept points after masking (needed to replay numpy's choice)
            allm = fmask.all(axis=0)
            if use_ma or emask is not None:
                sel = ~((emask if emask is not None else np.zeros(P, bool)) | allm) if (emask is not None and np.size(emask) > 1) else ~allm
            else:
                sel = np.ones(P, bool)
            kept_cnt = int(sel.sum())
            sampled = None
            if samp is not None and samp[0] < kept_cnt:
                sampled = [int(i) for i in np.random.RandomState(samp[1]).choice(np.arange(kept_cnt), samp[0], replace=False)]
            op = dict(op="vario_prep", F=F, P=P, f=fbits(f), fmask=[int(b) for b in fmask.ravel()])
            # without any masking the code does not go through the selection branch at all
            if emask is not None:
                op["mask"] = [int(b) for b in emask]
            if nd is not None:
                op["no_data"] = fbits([nd])[0]
            if sampled is not None:
                op["sampled"] = sampled
            ops.append(op)
            idx = np.rint(cp[0] / step).astype(int)
            meta.append(("prep", (idx, cf), key))
            if kind == "dir":
                ops.append(dict(op="vario_dirs", dim=dim, D=int(dirs.shape[0]), dir=fbits(dirs), tol=fbits([ckw["angles_tol"]])[0]))
                meta.append(("dirs", (ckw["direction"], ckw["separate_dirs"], ckw["bandwidth"], kw.get("bandwidth"), "angles" in kw), key))
            if auto is None:
                ops.append(dict(op="vario_bins", bins=fbits(bins), latlon=latlon, geo_scale=fbits([geo])[0]))
                meta.append(("bins", cb, key))
            # the whole binning path (explicit or standard_bins on the points that survive masking and sub-sampling):
            # returned bin centres and the edges handed to the kernel
            bop = dict(op="vario_bins_full", F=F, P=P, dim=dim, fmask=[int(b) for b in fmask.ravel()], pos=fbits(pos), latlon=latlon,
                       geo_scale=fbits([geo])[0])
            if emask is not None:
                bop["mask"] = [int(b) for b in emask]
            if sampled is not None:
                bop["sampled"] = sampled
            if auto is None:
                bop["bins"] = fbits(bins)
            else:
                if "bin_no" in auto:
                    bop["bin_no"] = auto["bin_no"]
                if "max_dist" in auto:
                    bop["max_dist"] = fbits([auto["max_dist"]])[0]
            ops.append(bop)
            meta.append(("bins-full", (np.asarray(out[0], dtype=float), cb, auto, geo if latlon else 0.0), key + "/" + bkey))
            if len(samples) < 3:
                samples.append({"key": key, "P": P, "F": F, "kept": kept_cnt, "sampled": sampled})
    res = run_driver(ops)
    dis, distinct = [], set()
    for o, (kind, real, key), r in zip(ops, meta, res):
        if isinstance(r, dict) and "error" in r:
            dis.append({"what": "driver error " + r["error"], "op": o["op"]})
            continue
        distinct.add((kind, key))
        if kind == "prep":
            idx, cf = real
            pts = np.array(r["points"], dtype=int)
            vals = np.array([unbits(x) for x in r["field"]]).reshape(len(r["field"]), -1)
            ok = np.array_equal(pts, idx) and vals.shape == cf.shape and np.array_equal(vals, cf, equal_nan=True)
            if not ok:
                dis.append({"what": "vario_estimate preprocessing: points/values handed to the kernel differ from the model", "key": key,
                            "real_points": idx.tolist(), "model_points": pts.tolist(), "real_field": cf.tolist(), "model_field": vals.tolist(), "op": o})
        elif kind == "dirs":
            d, sep, bw, bw_in, via_angles = real
            md = np.array([unbits(x) for x in r["dirs"]]).reshape(d.shape)
            tol_d = 1e-12 if via_angles else 1e-15     # angles: sin/cos products in another order than the independent ISO vectors
            ok = np.allclose(md, d, rtol=tol_d, atol=tol_d) and bool(r["separate"]) == bool(sep) and bw == (-1.0 if bw_in is None else bw_in)
            if not ok:
                dis.append({"what": "vario_estimate preprocessing: directions / separate_dirs / bandwidth differ from the model", "key": key,
                            "real": [d.tolist(), bool(sep), bw], "model": [md.tolist(), bool(r["separate"])]})
        elif kind == "bins-full":
            centres, cb, auto, geo = real
            if "raised" in r:
                dis.append({"what": "vario_estimate binning: the model raises " + str(r["raised"]) + ", gstools does not", "key": key})
                continue
            mc, mk = unbits(r["centres"]), unbits(r["kernel"])
            if auto is None or "max_dist" in auto:
                # explicit edges: one division / one mean per entry; given max_dist: linspace and one division -> same doubles
                ok = np.array_equal(mc, centres) and np.array_equal(mk, cb)
            else:
                # automatic cut-off from the box diameter (sqrt / trigonometry): absolute tolerance on the scale of the sphere
                ok = mc.shape == centres.shape and mk.shape == cb.shape and \
                    np.allclose(mc, centres, rtol=1e-12, atol=1e-12 * geo) and np.allclose(mk, cb, rtol=1e-12, atol=1e-12 * (1.0 if geo else 0.0))
            if not ok:
                dis.append({"what": "vario_estimate binning: returned bin centres / bin edges handed to the kernel differ from the model "
                                    "(bin_edges or standard_bins(bin_no, max_dist, geo_scale) on the selected points, edges / geo_scale for lat-lon)",
                            "key": key, "real": [centres.tolist(), cb.tolist()], "model": [mc.tolist(), mk.tolist()], "args": auto})
        else:
            mb = unbits(r)
            if not np.array_equal(mb, real):
                dis.append({"what": "vario_estimate preprocessing: bin edges handed to the kernel differ from the model", "key": key,
                            "real": real.tolist(), "model": mb.tolist()})
    glue = normalizer_glue_correspondence(ctx, ctx.scale(160, 1600))
    dis = glue["disagreements"] + dis
    dist.update(glue["distribution"])
    return {"evaluations": len(ops) + glue["evaluations"], "distinct_nontrivial": len(distinct) + glue["distinct_nontrivial"],
            "rule": "vario_estimate(normalizer in 6 classes, trend, mean) with values on / below / just inside the open domain bound: the field handed "
                    "to the kernel equals Model.Norm.removeTNM cell by cell (NaN pattern exact, values 1e-12); "
                    "random vario_estimate calls (masked arrays, extra mask in 12 representations (bool / int / uint / float arrays, lists, tuples), "
                    "no_data incl. int / float zero, -0.0 and values inside the isclose band, multi-field stacks, seeded "
                    "sub-sampling, directions, bandwidth, lat-lon with four geo_scales, explicit bin_edges or bin_edges=None with bin_no / max_dist "
                    "given or not); the arguments the glue hands to the kernel wrappers "
                    "(point selection and order, NaN placement, normalised directions, separate_dirs flag, bandwidth default, converted bins) "
                    "and the returned bin centres are compared with the Lean model exactly (1e-12 where the automatic cut-off goes through "
                    "sqrt / trigonometry); distinct = distinct (stage, option combination)",
            "samples": samples, "disagreements": dis[:6], "distribution": dist}


def close(a, b, tol=1e-10):
    a, b = np.asarray(a, dtype=float), np.asarray(b, dtype=float)
    return a.shape == b.shape and np.allclose(a, b, rtol=tol, atol=tol, equal_nan=True)


def normalizer_glue_correspondence(ctx, n):
    """tie B for the trend / normalizer / mean preprocessing INSIDE vario_estimate: the field handed to the kernel vs
    Model.Norm.removeTNM (normalize(field - trend) - mean, out-of-domain -> NaN) cell by cell, with values on / below / just above
    the open domain bound of the range-limited normalizers"""
    import gstools as gs
    rng = np.random.RandomState(ctx.seed + 9393)
    kinds = ["BoxCox", "LogNormal", "BoxCoxShift", "YeoJohnson", "Modulus", "Manly", "BoxCox", "BoxCoxShift"]
    ops, meta, dist = [], [], {}
    with warnings.catch_warnings():
        warnings.simplefilter("ignore")
        for t in range(n):
            kind = kinds[t % len(kinds)]
            lam = float(rng.choice([0.0, 0.25, 0.5, 1.0, 1.5, 2.0, -0.5]))
            shift = float(rng.choice([0.0, 0.5, 2.0, -1.0]))
            cls = getattr(gs.normalizer, kind)
            if kind == "LogNormal":
                nz, lam, shift = cls(), 1.0, 0.0
            elif kind == "BoxCoxShift":
                nz = cls(lmbda=lam, shift=shift)
            else:
                nz, shift = cls(lmbda=lam), 0.0
            bound = -shift if kind == "BoxCoxShift" else 0.0
            limited = kind in ("BoxCox", "LogNormal", "BoxCoxShift")
            dim = int(rng.randint(1, 4))
            P = int(rng.randint(3, 12))
            F = int(rng.randint(1, 3))
            pos = rng.randn(dim, P) * 2
            raw = bound + rng.randint(1, 40, size=(F, P)) / 8.0 if limited else rng.randint(-16, 17, size=(F, P)) / 8.0
            r = rng.rand(F, P)
            raw[r < 0.2] = bound                                       # on the bound
            raw[(r >= 0.2) & (r < 0.3)] = bound - 0.25                 # below
            raw[(r >= 0.3) & (r < 0.35)] = np.nextafter(bound, np.inf)  # the first double inside
            raw[(r >= 0.35) & (r < 0.4)] = np.nan
            tr, trv = None, np.zeros(P)
            q = rng.rand()
            if q < 0.3:
                tr = float(rng.choice([3.0, -2.0, 0.5])); trv = np.full(P, tr)
            elif q < 0.5:
                a = rng.uniform(-0.5, 0.5, size=dim)
                tr = (lambda *x, a=a: 5.0 + sum(ai * xi for ai, xi in zip(a, x)))
                trv = np.asarray(tr(*pos), dtype=float)
            fld = raw + trv
            mean = float(rng.choice([0.0, 0.4, -1.5]))
            store = []
            try:
                with capture(store):
                    gs.vario_estimate(pos, fld if F > 1 else fld[0], np.array([0.0, 1.0, 3.0, 9.0]), normalizer=nz, trend=tr, mean=mean)
            except Exception as e:
                dist["norm-glue:rejected:" + type(e).__name__] = dist.get("norm-glue:rejected:" + type(e).__name__, 0) + 1
                continue
            cf = store[0][1]
            key = f"norm-glue/{kind}/trend={'none' if tr is None else 'callable' if callable(tr) else 'const'}/mean={mean != 0.0}"
            dist[key] = dist.get(key, 0) + 1
            ops.append(dict(op="norm_pipeline", kind=kind, lmbda=fbits([lam])[0], shift=fbits([shift])[0], raw=fbits(fld.ravel()),
                            mean=fbits(np.full(F * P, mean)), trend=fbits(np.tile(trv, F))))
            meta.append((key, fld, cf, repr(nz)))
    res = run_driver(ops)
    dis, distinct = [], set()
    for o, (key, fld, cf, nzr), r in zip(ops, meta, res):
        if isinstance(r, dict) and "error" in r:
            dis.append({"what": "driver error " + r["error"], "op": o["op"]})
            continue
        distinct.add(key)
        model = unbits(r[2]).reshape(fld.shape)
        ok = cf.shape == model.shape and np.array_equal(np.isnan(cf), np.isnan(model)) and \
            np.allclose(cf, model, rtol=1e-12, atol=1e-14, equal_nan=True)
        if not ok:
            dis.append({"what": "vario_estimate preprocessing: the field handed to the kernel differs from normalize(field - trend) - mean of the model "
                                "(values on / below the open domain bound -> NaN)", "key": key, "normalizer": nzr, "field": fld.tolist(),
                        "real": np.asarray(cf).tolist(), "model": model.tolist()})
    return {"evaluations": len(ops), "distinct_nontrivial": len(distinct), "disagreements": dis[:4], "distribution": dist}


MASK_REPRS = ["bool-array", "bool-list", "int8", "int64", "int32", "int-list", "uint8", "float64", "float32", "float-list", "bool-tuple",
              "masked-bool-array"]


def _mask_as(m, rep):
    """the boolean point mask `m` (any shape) in one of the representations a caller may hold it in"""
    if rep == "bool-array":
        return m.copy()
    if rep == "bool-list":
        return m.tolist()
    if rep == "bool-tuple":
        return tuple(m.tolist()) if m.ndim == 1 else tuple(tuple(r) for r in m.reshape(m.shape[0], -1).tolist()) if m.ndim == 2 else m.tolist()
    if rep == "int-list":
        return m.astype(int).tolist()
    if rep == "float-list":
        return m.astype(float).tolist()
    if rep == "masked-bool-array":
        return np.ma.array(m.copy(), mask=np.zeros(m.shape, bool))
    return m.astype({"int8": np.int8, "int64": np.int64, "int32": np.int32, "uint8": np.uint8, "float64": np.float64, "float32": np.float32}[rep])


def mask_repr_search(ctx, n, viol):
    """`mask=` in every representation (bool / int8 / int32 / int64 / uint8 / float arrays, lists and tuples of bools / ints / floats),
    for unstructured point sets and structured stacks of fields (mask with the shape of the grid), plain and masked-array fields with
    different masks per field, isotropic and directional: the estimate must be the brute-force estimate on the point list with the
    masked points removed.  The documented representations (bool array / list) must work; another one may be rejected with an
    exception, never answered with something else."""
    import gstools as gs
    rng = np.random.RandomState(ctx.seed + 9191)
    ev = 0
    for t in range(n):
        rep = MASK_REPRS[t % len(MASK_REPRS)]
        est = str(rng.choice(["matheron", "cressie"]))
        e = est[0]
        F = int(rng.randint(1, 4))
        structured = (t // len(MASK_REPRS)) % 3 == 2
        if structured:
            dim = int(rng.randint(2, 4))
            ls = [int(rng.randint(2, 5)) for _ in range(dim)]
            if len(set(ls)) == 1:
                ls[0] += 1                        # equal axis lengths: the layout guess of format_struct_pos_shape (finding M1) is not the subject here
            axes = [np.sort(rng.uniform(0, 4, size=k)) for k in ls]
            pos = np.array(np.meshgrid(*axes, indexing="ij")).reshape(dim, -1)
            gshape = tuple(ls)
        else:
            dim = int(rng.randint(1, 4))
            P = int(rng.randint(5, 18))
            pos = rng.randn(dim, P) * 2
            gshape = (P,)
        P = pos.shape[1]
        f = rng.randint(-8, 9, size=(F, P)) / 4.0
        m = rng.rand(P) < float(rng.choice([0.15, 0.35, 0.6]))
        r = rng.rand()
        if r < 0.08:
            m[:] = False
        elif r < 0.14:
            m[:] = True
        elif r < 0.3:
            m[-1] = True; m[0] = False        # the last point masked, the first kept
        fm = np.zeros((F, P), bool)
        use_ma = rng.rand() < 0.4
        if use_ma:
            fm = rng.rand(F, P) < 0.2
        ref = f.copy(); ref[fm] = np.nan
        keep = ~m
        bins = np.array([0.0, 0.7, 1.5, 2.5, 4.0, 7.0]) + float(rng.choice([0.0, 0.3]))
        fshape = (F,) + gshape if (F > 1 or rng.rand() < 0.5) else gshape
        data_under = f.copy(); data_under[fm] = float(rng.choice([-9999.0, 0.0, 77.0]))
        fld = data_under.reshape(fshape)
        if use_ma:
            fld = np.ma.array(fld, mask=fm.reshape(fshape))
        marg = _mask_as(m.reshape(gshape), rep)
        directional = dim > 1 and rng.rand() < 0.35
        kw = dict(estimator=est, return_counts=True)
        if structured:
            kw["mesh_type"] = "structured"
        if directional:
            d = np.eye(dim)[rng.permutation(dim)[:int(rng.randint(1, dim + 1))]]
            kw.update(direction=d, angles_tol=np.pi / 8)
        desc = dict(stratum="mask-representation", representation=rep, structured=structured, pos=pos.tolist(), field=data_under.tolist(),
                    field_masks=fm.tolist() if use_ma else None, mask=m.astype(int).tolist(), bins=bins.tolist(), estimator=est,
                    direction=kw["direction"].tolist() if directional else None, field_shape=list(fshape))
        documented = rep in ("bool-array", "bool-list")
        try:
            with warnings.catch_warnings():
                warnings.simplefilter("ignore")
                got = gs.vario_estimate(axes if structured else pos, fld, bins, mask=marg, **kw)
        except Exception as ex:
            ev += 1
            if documented:
                viol.append({"key": "removal:mask-argument:" + rep + ":exception", "what": f"a documented mask representation is rejected: {type(ex).__name__}: {ex}",
                             "case": desc})
            continue
        ev += 1
        if m.all() or (use_ma and (fm.all(axis=0) | m).all() and False):
            want_g = np.zeros(len(bins) - 1); want_c = np.zeros(len(bins) - 1, dtype=int)
            g, c = np.asarray(got[1], float), np.asarray(got[2])
            ok = g.shape[-1:] == want_g.shape and not np.any(g) and not np.any(c)
        else:
            if directional:
                want_g, want_c = brute.directional(ref[:, keep], bins, pos[:, keep], d, np.pi / 8, -1.0, e)
                g, c = np.atleast_2d(got[1]), np.atleast_2d(got[2])
                if len(d) >= 2:
                    zg, zc = brute.directional(ref[:, keep], bins, pos[:, keep], d, np.pi / 8, -1.0, e, zero_first_only=True)
                    if not (close(g, want_g) and np.array_equal(c, want_c)) and close(g, zg) and np.array_equal(c, zc):
                        continue          # finding D15 (zero-length pairs), reported by the directed corpus
            else:
                want_g, want_c = brute.unstructured(ref[:, keep], bins, pos[:, keep], e, "e")
                g, c = got[1], got[2]
            ok = close(g, want_g) and np.array_equal(c, want_c)
        if not ok:
            viol.append({"key": "removal:mask-argument:" + rep, "what": "vario_estimate(mask=...) is not the estimate on the point list with the masked points "
                         "removed (mask given as " + rep + ")", "case": desc,
                         "got": [np.asarray(g).tolist(), np.asarray(c).tolist()], "want": [np.asarray(want_g).tolist(), np.asarray(want_c).tolist()]})
    return ev


def domain_bound_search(ctx, n, viol):
    """range-limited normalizers in vario_estimate(normalizer=...): values exactly ON the bound of the open domain (0 for BoxCox / LogNormal,
    -shift for BoxCoxShift), strictly outside it, and NaN must all be treated like removed points: the estimate equals the brute-force
    estimate of the hand-transformed values ((x^l - 1) / l, log x, ((x + s)^l - 1) / l) on the remaining stations; with a trend the
    domain test applies to field - trend."""
    import gstools as gs
    rng = np.random.RandomState(ctx.seed + 9292)
    ev = 0
    with warnings.catch_warnings():
        warnings.simplefilter("ignore")
        for t in range(n):
            which = ["BoxCox", "LogNormal", "BoxCoxShift", "BoxCox0", "BoxCoxShift0"][t % 5]
            lam = float(rng.choice([0.25, 0.5, 1.0, 1.5, -0.5]))
            shift = float(rng.choice([0.5, 2.0, -1.0]))
            if which == "BoxCox":
                nz, bound, tf = gs.normalizer.BoxCox(lmbda=lam), 0.0, (lambda x: (x ** lam - 1.0) / lam)
            elif which == "BoxCox0":
                nz, bound, tf = gs.normalizer.BoxCox(lmbda=0.0), 0.0, np.log
            elif which == "LogNormal":
                nz, bound, tf = gs.normalizer.LogNormal(), 0.0, np.log
            elif which == "BoxCoxShift":
                nz, bound, tf = gs.normalizer.BoxCoxShift(lmbda=lam, shift=shift), -shift, (lambda x: ((x + shift) ** lam - 1.0) / lam)
            else:
                nz, bound, tf = gs.normalizer.BoxCoxShift(lmbda=0.0, shift=shift), -shift, (lambda x: np.log(x + shift))
            dim = int(rng.randint(1, 4))
            P = int(rng.randint(6, 20))
            F = int(rng.randint(1, 3))
            pos = rng.randn(dim, P) * 2
            raw = bound + rng.randint(1, 40, size=(F, P)) / 8.0           # inside the domain
            on = rng.rand(F, P) < 0.25
            raw[on] = bound                                                 # exactly on the open bound
            out = (rng.rand(F, P) < 0.1) & ~on
            if t % 3 == 0:
                raw[out] = bound - rng.randint(1, 9, size=int(out.sum())) / 4.0     # strictly outside
            else:
                out[:] = False
            nanc = (rng.rand(F, P) < 0.1) & ~on & ~out if t % 4 == 1 else np.zeros((F, P), bool)
            raw[nanc] = np.nan
            # trend: field = raw + trend(pos); the sum must come back exactly (0 + t - t == 0 always; otherwise dyadic constants)
            tr, trv = None, np.zeros(P)
            r = rng.rand()
            if r < 0.25:
                tr = float(rng.choice([3.0, -2.0, 0.5])); trv = np.full(P, tr)
            elif r < 0.4 and bound == 0.0:
                a = rng.uniform(-0.5, 0.5, size=dim)
                tr = (lambda *x, a=a: 5.0 + sum(ai * xi for ai, xi in zip(a, x)))
                trv = tr(*pos)
            fld = raw + trv
            det = fld - trv
            if not np.array_equal(np.isnan(det) | (det == raw), np.ones((F, P), bool)):
                on = on & (det == bound)                                   # rounding moved a value: keep the oracle honest
            mean = float(rng.choice([0.0, 0.0, 0.4]))
            est = str(rng.choice(["matheron", "cressie"]))
            bins = np.array([0.0, 0.7, 1.5, 2.5, 4.0, 7.0]) + float(rng.choice([0.0, 0.3]))
            valid = ~np.isnan(det) & (det > bound)
            ref = np.full((F, P), np.nan)
            ref[valid] = tf(det[valid]) - mean
            desc = dict(stratum="normalizer-domain-bound", normalizer=repr(nz), bound=bound, pos=pos.tolist(), field=fld.tolist(),
                        trend=None if tr is None else (tr if not callable(tr) else "linear"), mean=mean, bins=bins.tolist(), estimator=est,
                        on_bound=int((det == bound).sum()), outside=int((det < bound).sum()), nan=int(np.isnan(det).sum()))
            try:
                got = gs.vario_estimate(pos, fld if F > 1 else fld[0], bins, estimator=est, return_counts=True, normalizer=nz,
                                        trend=tr, mean=mean)
            except Exception as ex:
                viol.append({"key": "removal:normalizer-domain:exception", "what": f"{type(ex).__name__}: {ex}", "case": desc})
                continue
            ev += 1
            want_g, want_c = brute.unstructured(ref, bins, pos, est[0], "e")
            if not (close(got[1], want_g, 1e-9) and np.array_equal(got[2], want_c)):
                cls = "on-bound" if (det == bound).any() else "outside" if (det < bound).any() else "inside"
                viol.append({"key": f"removal:normalizer-domain:{cls}:{type(nz).__name__}",
                             "what": "vario_estimate(normalizer=range-limited): values on / outside the open domain bound (after removing the trend) are "
                                     "not treated like removed points (brute force of the hand-transformed remaining values)", "case": desc,
                             "got": [np.asarray(got[1]).tolist(), np.asarray(got[2]).tolist()], "want": [want_g.tolist(), want_c.tolist()]})
            # metamorphic twin: the same call on the point list without the stations that are invalid in every field
            gone = ~valid.any(axis=0)
            if gone.any() and not gone.all():
                k = ~gone
                tr2 = tr
                red = gs.vario_estimate(pos[:, k], (fld[:, k] if F > 1 else fld[0, k]), bins, estimator=est, return_counts=True, normalizer=nz,
                                        trend=tr2, mean=mean)
                ev += 1
                if not (close(got[1], red[1], 1e-9) and np.array_equal(got[2], red[2])):
                    viol.append({"key": f"removal:normalizer-domain:stations-removed:{type(nz).__name__}",
                                 "what": "estimate with out-of-domain stations differs from the estimate without those stations", "case": desc})
    return ev


def search(ctx, deep=False):
    """metamorphic relations on the real API"""
    import gstools as gs
    from props import C08
    rng = np.random.RandomState(ctx.seed + 99)
    N = ctx.scale(100, 600) * (3 if deep else 1)
    ev, viol = C08.directed(ctx)
    ev += mask_repr_search(ctx, ctx.scale(144, 720) * (3 if deep else 1), viol)
    ev += domain_bound_search(ctx, ctx.scale(100, 500) * (3 if deep else 1), viol)
    with warnings.catch_warnings():
        warnings.simplefilter("ignore")
        for t in range(N):
            dim = int(rng.randint(1, 4))
            P = int(rng.randint(4, 16))
            pos = rng.randn(dim, P) * 2
            f = rng.randn(P)
            bins = np.array([0.0, 0.7, 1.5, 2.5, 4.0, 7.0]) + float(rng.choice([0.0, 0.3]))
            est = str(rng.choice(["matheron", "cressie"]))
            base = gs.vario_estimate(pos, f, bins, estimator=est, return_counts=True)
            desc = dict(pos=pos.tolist(), field=f.tolist(), bins=bins.tolist(), estimator=est)
            ev += 1

            def chk(key, what, got, want=base, tol=1e-9):
                if not (close(got[1], want[1], tol) and np.array_equal(got[2], want[2])):
                    viol.append({"key": key, "what": what, "case": desc, "got": [np.asarray(got[1]).tolist(), np.asarray(got[2]).tolist()],
                                 "want": [np.asarray(want[1]).tolist(), np.asarray(want[2]).tolist()]})
            if t % 5 == 0:
                # preprocessing with trend / mean / normalizer (+ fit_normalizer): the estimate must be the estimate of the
                # hand-prepared data  normalize(field - trend(pos)) - mean, with the normalizer fitted on the DETRENDED data
                cls = [gs.normalizer.BoxCox, gs.normalizer.YeoJohnson, gs.normalizer.LogNormal, gs.normalizer.Modulus][t // 5 % 4]
                a = rng.uniform(-0.5, 0.5, size=dim)
                tr = (lambda *x, a=a: 5.0 + sum(ai * xi for ai, xi in zip(a, x))) if rng.rand() < 0.7 else float(rng.choice([3.0, -2.0]))
                trv = tr(*pos) if callable(tr) else np.full(P, tr)
                raw = np.exp(rng.randn(P) * 0.6) + 0.2          # positive detrended data
                fld = raw + trv
                mean = float(rng.choice([0.0, 0.4]))
                for fit in (False, True):
                    nz = cls() if cls is gs.normalizer.LogNormal else cls(lmbda=float(rng.choice([0.3, 0.7, 1.4])))
                    ref_nz = cls() if cls is gs.normalizer.LogNormal else cls(lmbda=nz.lmbda)
                    if fit and cls is not gs.normalizer.LogNormal:
                        ref_nz.fit(fld - trv)
                    want = gs.vario_estimate(pos, ref_nz.normalize(fld - trv) - mean, bins, estimator=est, return_counts=True)
                    got = gs.vario_estimate(pos, fld, bins, estimator=est, return_counts=True, trend=tr, mean=mean,
                                            normalizer=nz, fit_normalizer=fit)
                    ev += 1
                    chk(f"preprocessing:trend-normalizer-mean:{'fit' if fit else 'given'}",
                        "vario_estimate(trend, mean, normalizer, fit_normalizer) is not the estimate of normalize(field - trend) - mean "
                        "(normalizer fitted on the detrended data)", got, want, 1e-6 if fit else 1e-9)
            p = rng.permutation(P)
            chk("invariance:permutation", "isotropic variogram changes under a permutation of the points",
                gs.vario_estimate(pos[:, p], f[p], bins, estimator=est, return_counts=True))
            Q, _ = np.linalg.qr(rng.randn(dim, dim))
            shift = rng.randn(dim, 1) * 10
            got = gs.vario_estimate(Q @ pos + shift, f, bins, estimator=est, return_counts=True)
            # pairs whose distance sits within rounding of a bin edge may legitimately move: skip those cases
            dd = np.sqrt(((pos[:, :, None] - pos[:, None, :]) ** 2).sum(axis=0))
            edge_safe = np.min(np.abs(dd[np.triu_indices(P, 1)][:, None] - bins[None, :])) > 1e-9
            if edge_safe:
                chk("invariance:rigid-motion", "isotropic variogram changes under a rigid motion", got)
            chk("invariance:shift", "variogram changes when a constant is added to the field",
                gs.vario_estimate(pos, f + 3.25, bins, estimator=est, return_counts=True), tol=1e-8)
            a = float(rng.choice([-2.0, 0.5, 3.0]))
            sc = gs.vario_estimate(pos, a * f, bins, estimator=est, return_counts=True)
            if not (close(sc[1], a * a * base[1], 1e-9) and np.array_equal(sc[2], base[2])):
                viol.append({"key": "invariance:scale-square:" + est, "what": "variogram does not scale with the square of a field factor", "case": dict(desc, factor=a)})
            # NaN / masked / no_data == removed points
            k = int(rng.randint(0, P))
            keep = np.arange(P) != k
            removed = gs.vario_estimate(pos[:, keep], f[keep], bins, estimator=est, return_counts=True)
            fn = f.copy(); fn[k] = np.nan
            chk("removal:nan", "a NaN value is not treated like a removed point", gs.vario_estimate(pos, fn, bins, estimator=est, return_counts=True), removed)
            chk("removal:masked-array", "a masked value is not treated like a removed point",
                gs.vario_estimate(pos, np.ma.array(f, mask=~keep), bins, estimator=est, return_counts=True), removed)
            chk("removal:mask-argument", "a point in `mask` is not treated like a removed point",
                gs.vario_estimate(pos, f, bins, estimator=est, mask=~keep, return_counts=True), removed)
            f9 = f.copy(); f9[k] = -999.0
            chk("removal:no-data", "a no_data value is not treated like a removed point",
                gs.vario_estimate(pos, f9, bins, estimator=est, no_data=-999.0, return_counts=True), removed)
            ev += 8
            # seeded down-sampling == estimating on that reproducible subset
            size, seed = int(rng.randint(2, P)), int(rng.randint(0, 1000))
            idx = np.random.RandomState(seed).choice(np.arange(P), size, replace=False)
            chk("sampling:subset", "seeded down-sampling differs from estimating on the subset numpy draws",
                gs.vario_estimate(pos, f, bins, estimator=est, sampling_size=size, sampling_seed=seed, return_counts=True),
                gs.vario_estimate(pos[:, idx], f[idx], bins, estimator=est, return_counts=True))
            # structured mesh == equivalent point list
            if dim >= 2:
                axes = [np.sort(rng.uniform(0, 4, size=int(rng.randint(2, 4)))) for _ in range(dim)]
                g = np.array(np.meshgrid(*axes, indexing="ij")).reshape(dim, -1)
                ff = rng.randn(g.shape[1])
                # equal-length axes can be mistaken for a single 1-D axis (n*d == n**d) or for a stack of fields
                # over a 1-D axis (n*d == n**(d-1)): the 2x2 and 3x3x3 corner cases of format_struct_pos_shape
                ls = [len(a) for a in axes]
                amb = len(set(ls)) == 1 and ls[0] * dim in (ls[0] ** dim, ls[0] ** (dim - 1))
                chk("mesh:structured:equal-axes-ambiguity" if amb else "mesh:structured", "structured mesh differs from the equivalent point list",
                    gs.vario_estimate(axes, ff.reshape([len(a) for a in axes]), bins, estimator=est, mesh_type="structured", return_counts=True),
                    gs.vario_estimate(g, ff, bins, estimator=est, return_counts=True))
                ev += 1
            # directional variograms rotate with the coordinate system (2-D)
            if dim == 2:
                th = float(rng.uniform(0, np.pi))
                R = np.array([[np.cos(th), -np.sin(th)], [np.sin(th), np.cos(th)]])
                d = rng.randn(2)
                tol_a = float(rng.choice([np.pi / 8, np.pi / 3]))
                b0 = gs.vario_estimate(pos, f, bins, estimator=est, direction=[d], angles_tol=tol_a, return_counts=True)
                b1 = gs.vario_estimate(R @ pos, f, bins, estimator=est, direction=[R @ d], angles_tol=tol_a, return_counts=True)
                # skip pairs sitting on the angular tolerance within rounding
                diff = pos[:, :, None] - pos[:, None, :]
                nrm = np.sqrt((diff ** 2).sum(axis=0)) + 1e-300
                ang = np.arccos(np.minimum(np.abs(np.einsum("dij,d->ij", diff, d / np.linalg.norm(d))) / nrm, 1))
                if edge_safe and np.min(np.abs(ang[np.triu_indices(P, 1)] - tol_a)) > 1e-9:
                    chk("invariance:directional-rotation", "directional variogram does not rotate with the coordinate system", b1, b0)
                ev += 1
            # great-circle binning in any unit
            if dim == 2:
                ll = np.vstack([rng.uniform(-80, 80, P), rng.uniform(-170, 190, P)])
                rb = np.array([0.0, 0.2, 0.5, 1.0, 2.0, 3.2])
                r0 = gs.vario_estimate(ll, f, rb, estimator=est, latlon=True, return_counts=True)
                for gsc in (gs.DEGREE_SCALE, gs.KM_SCALE, 2.5):
                    r1 = gs.vario_estimate(ll, f, rb * gsc, estimator=est, latlon=True, geo_scale=gsc, return_counts=True)
                    hav = np.array([brute.haversine(ll, i, j) for i in range(P) for j in range(i + 1, P)])
                    if np.min(np.abs(hav[:, None] * gsc - (rb * gsc)[None, :])) > 1e-9 * gsc:
                        chk("geo-scale", "great-circle binning in a length unit differs from binning in radians", r1, r0)
                    ev += 1
            # ---------- automatic bins (bin_edges=None): {bin_no given / None} x {max_dist given / None}
            # (a) metric: vario_estimate(pos, f, bin_no=n, max_dist=m) is vario_estimate(pos, f, linspace(0, m, n+1)) and, with one of
            #     them missing, uses sturges(point count) bins up to a third of the box diameter
            combo = t % 4
            akw = {}
            if combo & 1:
                akw["bin_no"] = int(rng.randint(1, 10))
            if combo & 2:
                akw["max_dist"] = float(rng.uniform(1.0, 9.0))
            amode = "+".join(sorted(akw) or ["auto"])
            diam = float(np.sqrt(np.sum((pos.max(axis=1) - pos.min(axis=1)) ** 2)))
            aedges = np.linspace(0.0, akw.get("max_dist", diam / 3.0), akw.get("bin_no", int(np.ceil(2 * np.log2(P) + 1))) + 1)
            a1 = gs.vario_estimate(pos, f, estimator=est, return_counts=True, **akw)
            a0 = gs.vario_estimate(pos, f, aedges, estimator=est, return_counts=True)
            ev += 1
            adesc = dict(desc, bins=None, **akw)
            if not close(a1[0], a0[0], 1e-12):
                viol.append({"key": "auto-bins:centres:" + amode, "what": "bin_edges=None: bin centres are not those of linspace(0, max_dist or box diameter / 3, "
                             "bin_no or sturges + 1)", "case": adesc, "got": np.asarray(a1[0]).tolist(), "want": np.asarray(a0[0]).tolist()})
            elif np.min(np.abs(dd[np.triu_indices(P, 1)][:, None] - aedges[None, :])) > 1e-9 and \
                    not (close(a1[1], a0[1], 1e-10) and np.array_equal(a1[2], a0[2])):
                viol.append({"key": "auto-bins:estimate:" + amode, "what": "bin_edges=None differs from the estimate with the equivalent explicit edges",
                             "case": adesc, "got": [np.asarray(a1[1]).tolist(), np.asarray(a1[2]).tolist()],
                             "want": [np.asarray(a0[1]).tolist(), np.asarray(a0[2]).tolist()]})
            # (b) lat-lon, any dimension of the loop: great-circle binning in a unit s with automatic bins; every length the caller
            #     gives (max_dist) or gets (bin centres) is in that unit: same variogram as in radians, centres scaled by s
            Pl = int(rng.randint(4, 25))
            ll = np.vstack([rng.uniform(-80, 80, Pl), rng.uniform(-170, 190, Pl)])
            if rng.rand() < 0.5:
                ll = np.vstack([rng.uniform(-5, 5, Pl) + rng.uniform(-60, 60), rng.uniform(-8, 8, Pl) + rng.uniform(-180, 180)])   # regional
            fl_ = rng.randn(Pl)
            hav = np.array([brute.haversine(ll, i, j) for i in range(Pl) for j in range(i + 1, Pl)])
            lkw = {}
            if combo & 1:
                lkw["bin_no"] = int(rng.randint(1, 10))
            if combo & 2:
                lkw["max_dist"] = float(rng.uniform(0.3, 1.5) * hav.max())       # radians
            r0 = gs.vario_estimate(ll, fl_, estimator=est, latlon=True, return_counts=True, **lkw)
            nb = len(r0[0])
            # bins of the radian run: uniform and zero based, so the edges follow from the first centre; the given cut-off is documented
            e0 = np.linspace(0.0, lkw["max_dist"], nb + 1) if "max_dist" in lkw else 2.0 * r0[0][0] * np.arange(nb + 1)
            ldesc = dict(latlon=ll.tolist(), field=fl_.tolist(), estimator=est, **lkw)
            ev += 1
            if not close(r0[0], 0.5 * (e0[1:] + e0[:-1]), 1e-10):
                viol.append({"key": "geo-scale:auto-bins:centres:" + amode, "what": "lat-lon, bin_edges=None, radians: bin centres are not the mid-points of "
                             "linspace(0, max_dist, n+1)", "case": ldesc, "got": np.asarray(r0[0]).tolist()})
            else:
                # the radian run itself against brute-force great-circle binning with those edges
                lsafe = np.min(np.abs(hav[:, None] - e0[None, :])) > 1e-9
                if lsafe:
                    bg, bc = brute.unstructured(fl_[None, :], e0, ll, est="m" if est == "matheron" else "c", dist="h")
                    if not (close(r0[1], bg, 1e-9) and np.array_equal(r0[2], bc)):
                        viol.append({"key": "geo-scale:auto-bins:brute:" + amode, "what": "lat-lon, bin_edges=None: estimate differs from brute-force "
                                     "great-circle binning with the bins the centres describe", "case": ldesc})
                for gsc in (gs.DEGREE_SCALE, gs.KM_SCALE, float(np.round(rng.uniform(0.1, 500.0), 3))):
                    skw = dict(lkw)
                    if "max_dist" in skw:
                        skw["max_dist"] = skw["max_dist"] * gsc
                    r1 = gs.vario_estimate(ll, fl_, estimator=est, latlon=True, geo_scale=gsc, return_counts=True, **skw)
                    ev += 1
                    sdesc = dict(ldesc, geo_scale=gsc, **skw)
                    if not close(r1[0], np.asarray(r0[0]) * gsc, 1e-10):
                        viol.append({"key": "geo-scale:auto-bins:centres:" + amode, "what": "lat-lon, bin_edges=None: bin centres in a length unit are not the "
                                     "radian centres times geo_scale (max_dist is given in that unit)", "case": sdesc,
                                     "got": np.asarray(r1[0]).tolist(), "want": (np.asarray(r0[0]) * gsc).tolist()})
                    elif lsafe and not (close(r1[1], r0[1], 1e-9) and np.array_equal(r1[2], r0[2])):
                        viol.append({"key": "geo-scale:auto-bins:" + amode, "what": "lat-lon, bin_edges=None: great-circle binning in a length unit differs from "
                                     "binning in radians", "case": sdesc, "got": [np.asarray(r1[1]).tolist(), np.asarray(r1[2]).tolist()],
                                     "want": [np.asarray(r0[1]).tolist(), np.asarray(r0[2]).tolist()]})
                    # ... and equals the explicit edges in that unit
                    r2 = gs.vario_estimate(ll, fl_, e0 * gsc, estimator=est, latlon=True, geo_scale=gsc, return_counts=True)
                    ev += 1
                    if lsafe and not (close(r2[0], r1[0], 1e-10) and close(r2[1], r1[1], 1e-9) and np.array_equal(r2[2], r1[2])):
                        viol.append({"key": "geo-scale:auto-vs-explicit:" + amode, "what": "lat-lon with geo_scale: bin_edges=None differs from the equivalent "
                                     "explicit edges in the same unit", "case": sdesc})
    # at most two reports per key
    seen, out = {}, []
    for v in viol:
        seen[v["key"]] = seen.get(v["key"], 0) + 1
        if seen[v["key"]] <= 2:
            out.append(v)
    return {"evaluations": ev, "violations": out[:10],
            "summary": "mask= in 12 representations (bool / int / uint / float arrays, lists, tuples; unstructured and structured stacks, masked-array "
                       "fields) and values on / outside the open domain bound of BoxCox / LogNormal / BoxCoxShift (with trend and mean) against brute force "
                       "on the remaining points; metamorphic relations on vario_estimate: permutation, rigid motion, shift, scale, NaN/masked/mask/no_data as removal, "
                       "seeded sampling, structured vs point list, rotating directions, geo_scale units with explicit edges and with "
                       "bin_edges=None x {bin_no given / None} x {max_dist given / None} (centres scaled, variogram unchanged, equal to explicit "
                       "edges, brute-force great-circle binning); automatic metric bins equal linspace(0, max_dist or box diameter / 3, bin_no or sturges + 1)"}
