"""C11 — seeded field generation is deterministic and local."""
import warnings
import numpy as np
import kernels
from proto import run_driver

KERNEL_FILES = ["field/summator.pyx"]
ASSUMPTIONS = ["numpy's RandomState is a deterministic function of its seed and call sequence",
               "model values are abstracted to identifiers (as CovModel.__eq__ sees them); the isclose band of that comparison is finding F4",
               "distinct model identifiers are realised by parameter sets that give visibly different fields"]

GENS = ["RandMeth", "IncomprRandMeth", "Fourier"]
MODELS = [dict(var=1.0, len_scale=2.0), dict(var=2.0, len_scale=2.0), dict(var=1.0, len_scale=3.5), dict(var=0.5, len_scale=1.25)]
# families of model states realising the four abstract model identifiers of the bookkeeping model: the in-place change between two
# identifiers may touch ONLY an optional shape argument, ONLY the anisotropy / rotation, or the rescale factor
FAMILIES = {
    "gau": ("Gaussian", MODELS),
    "stable": ("Stable", [dict(var=1.0, len_scale=2.0, alpha=1.5), dict(var=1.0, len_scale=2.0, alpha=0.9),
                          dict(var=1.0, len_scale=3.5, alpha=1.5), dict(var=0.5, len_scale=2.0, alpha=2.0)]),
    "matern": ("Matern", [dict(var=1.0, len_scale=2.0, nu=1.5), dict(var=1.0, len_scale=2.0, nu=0.6),
                          dict(var=2.0, len_scale=2.0, nu=1.5), dict(var=1.0, len_scale=2.0, nu=1.5, rescale=2.0)]),
    "tpl": ("TPLStable", [dict(var=1.0, len_scale=2.0, hurst=0.5, alpha=1.5), dict(var=1.0, len_scale=2.0, hurst=0.8, alpha=1.5),
                          dict(var=1.0, len_scale=2.0, hurst=0.5, alpha=0.8), dict(var=1.0, len_scale=2.0, hurst=0.5, alpha=1.5, len_low=0.5)]),
    "aniso": ("Exponential", [dict(var=1.0, len_scale=2.0, anis=1.0, angles=0.0), dict(var=1.0, len_scale=2.0, anis=0.5, angles=0.0),
                              dict(var=1.0, len_scale=2.0, anis=0.5, angles=0.7), dict(var=1.0, len_scale=2.0, anis=2.5, angles=-0.4)]),
}


def seed_object(rng, value):
    """equal values, differing identities"""
    if value is None:
        return None
    k = rng.randint(0, 3)
    if k == 0:
        return int(value)
    if k == 1:
        return int(str(value))            # a fresh int object for large values
    return np.int64(value)


def make_srf(gen, mid, nug, seed, mode_no, dim, fam="gau"):
    import gstools as gs
    cls, states = FAMILIES[fam]
    kw = dict(states[mid])
    model = getattr(gs, cls)(dim=dim, nugget=0.3 if nug else 0.0, **kw)
    if gen == "RandMeth":
        return gs.SRF(model, seed=seed, mode_no=mode_no)
    if gen == "IncomprRandMeth":
        return gs.SRF(model, generator="IncomprRandMeth", seed=seed, mode_no=mode_no, mean_velocity=0.5)
    return gs.SRF(model, generator="Fourier", seed=seed, mode_no=[mode_no] * dim, period=[16.0] * dim)


def gen_history(rng, gen, length):
    ops = []
    for _ in range(length):
        r = rng.rand()
        if r < 0.45:
            s = rng.choice(["keep", "none", "int", "int"])
            o = {"k": "srf_call", "n": 0}
            if s == "keep":
                o["seed"] = "keep"
            elif s == "int":
                o["seed"] = int(rng.choice([7, 7, 1000000007, 12]))
            ops.append(o)
        elif r < 0.65:
            ops.append({"k": "model", "id": int(rng.randint(0, len(MODELS))), "nug": bool(rng.rand() < 0.4)})
        elif r < 0.75:
            o = {"k": "gen_seed"}
            if rng.rand() < 0.8:
                o["s"] = int(rng.choice([7, 1000000007, 12]))
            ops.append(o)
        elif r < 0.83 and gen != "Fourier":
            ops.append({"k": "gen_mode_no", "n": int(rng.choice([16, 24]))})
        elif r < 0.90:
            o = {"k": "gen_reset"}
            s = rng.choice(["keep", "none", "int"])
            if s == "keep":
                o["seed"] = "keep"
            elif s == "int":
                o["seed"] = int(rng.choice([7, 12]))
            ops.append(o)
        else:
            ops.append({"k": "gen_call", "n": 0, "nugget": bool(rng.rand() < 0.6)})
    return ops


def run_real(rng, gen, dim, ops, m0, nug0, seed0, mode_no, pos, fam="gau"):
    srf = make_srf(gen, m0, nug0, seed_object(rng, seed0), mode_no, dim, fam)
    outs, fresh = [], []
    cur = dict(mid=m0, nug=nug0)
    iso = srf.model.isometrize(pos)
    for o in ops:
        k = o["k"]
        if k == "srf_call":
            if o.get("seed") == "keep":
                f = srf(pos)
            else:
                f = srf(pos, seed=seed_object(rng, o.get("seed")))
            outs.append(np.array(f, copy=True))
            sd = srf.generator.seed
            mn = srf.generator.mode_no if gen != "Fourier" else int(srf.generator.mode_no[0])
            fr = None
            if sd is not None and not cur["nug"]:
                fr = make_srf(gen, cur["mid"], False, int(sd), mn, dim, fam)(pos)
            fresh.append(fr)
        elif k == "model":
            cur = dict(mid=o["id"], nug=o["nug"])
            st = dict(FAMILIES[fam][1][o["id"]])
            st.setdefault("rescale", FAMILIES[fam][1][0].get("rescale", srf.model.rescale) if fam == "matern" else srf.model.rescale)
            if fam == "matern":
                st["rescale"] = FAMILIES[fam][1][o["id"]].get("rescale", 1.0)
            if fam == "tpl":
                st["len_low"] = FAMILIES[fam][1][o["id"]].get("len_low", 0.0)
            for name in sorted(st, key=lambda a: (a == "var", a)):    # var last (TPL models: var follows the intensity)
                setattr(srf.model, name, st[name])
            srf.model.nugget = 0.3 if o["nug"] else 0.0
        elif k == "gen_seed":
            srf.generator.seed = seed_object(rng, o.get("s"))
        elif k == "gen_mode_no":
            srf.generator.mode_no = o["n"]
        elif k == "gen_reset":
            if o.get("seed") == "keep":
                srf.generator.reset_seed()
            else:
                srf.generator.reset_seed(seed_object(rng, o.get("seed")))
        elif k == "gen_call":
            f = srf.generator(iso, add_nugget=o["nugget"])
            outs.append(np.array(f, copy=True))
            fresh.append(None)
    return outs, fresh


def correspondence(ctx):
    res_k = kernels.kernel_correspondence(ctx, ["summate", "summate_fourier", "summate_incompr"], ctx.scale(10, 120), big=not ctx.quick)
    rng = np.random.RandomState(ctx.seed + 1111)
    H = ctx.scale(45, 400)
    cases, opsl = [], []
    for h in range(H):
        gen = GENS[h % 3]
        dim = int(rng.randint(2, 4)) if gen == "IncomprRandMeth" else int(rng.randint(1, 4))
        n = int(rng.randint(2, 6))
        pos = rng.uniform(0, 10, size=(dim, n))
        ops = gen_history(rng, gen, int(rng.randint(3, ctx.scale(12, 40))))
        size = n * (dim if gen == "IncomprRandMeth" else 1)
        for o in ops:
            if "n" in o and o["k"] in ("srf_call", "gen_call"):
                o["n"] = size
        m0, nug0 = int(rng.randint(0, len(MODELS))), bool(rng.rand() < 0.4)
        seed0 = None if rng.rand() < 0.15 else int(rng.choice([7, 1000000007, 12]))
        mn = int(rng.choice([16, 24]))
        fams = ["gau", "stable", "matern", "tpl"] + (["aniso"] if (dim > 1 and gen != "IncomprRandMeth") else [])
        fam = str(fams[int(rng.randint(0, len(fams)))]) if h >= 3 else "gau"
        cases.append((gen, dim, ops, m0, nug0, seed0, mn, pos, fam))
        d = {"op": "gen_history", "model": m0, "nug": nug0, "mode_no": mn, "ops": ops}
        if seed0 is not None:
            d["seed0"] = seed0
        opsl.append(d)
    res = run_driver(opsl)
    dis, distinct = list(res_k["disagreements"]), set()
    dist = dict(res_k["distribution"])
    dist.update(calls=0, fresh_compared=0, pairs=0)
    with warnings.catch_warnings():
        warnings.simplefilter("ignore")
        for (gen, dim, ops, m0, nug0, seed0, mn, pos, fam), r in zip(cases, res):
            if isinstance(r, dict) and "error" in r:
                dis.append({"what": "driver error " + r["error"]})
                continue
            irng = np.random.RandomState(ctx.seed + 5)
            outs, fresh = run_real(irng, gen, dim, ops, m0, nug0, seed0, mn, pos, fam)
            dist["family:" + fam] = dist.get("family:" + fam, 0) + 1
            if len(outs) != len(r):
                dis.append({"what": "number of generating calls differs", "ops": ops})
                continue
            bad = None
            toks = [(tuple(x["out"]["field"]), None if x["out"]["noise"] is None else tuple(x["out"]["noise"])) for x in r]
            for i in range(len(outs)):
                dist["calls"] += 1
                # against a freshly built object (nugget-free, integer seed): must be identical
                if fresh[i] is not None:
                    dist["fresh_compared"] += 1
                    model_says = tuple(r[i]["out"]["field"]) == tuple(r[i]["fresh"])
                    real_says = bool(np.array_equal(outs[i], fresh[i]))
                    if model_says != real_says:
                        bad = {"what": f"{gen}: field vs freshly built object disagrees with the bookkeeping model", "call": i,
                               "real_equal": real_says, "model_equal": model_says}
                        break
                for jx in range(i):
                    dist["pairs"] += 1
                    same_tok = toks[i] == toks[jx]
                    same_real = bool(np.array_equal(outs[i], outs[jx]))
                    if same_tok != same_real:
                        bad = {"what": f"{gen}: equality pattern of outputs differs from the bookkeeping model", "calls": [jx, i],
                               "real_equal": same_real, "tokens": [toks[jx], toks[i]]}
                        break
                if bad:
                    break
            if bad:
                bad.update(ops=ops, init=dict(model=m0, nug=nug0, seed=seed0, mode_no=mn), gen=gen, dim=dim, family=fam)
                dis.append(bad)
            distinct.add((gen, fam, tuple(o["k"] for o in ops)))
    return {"evaluations": res_k["evaluations"] + dist["calls"], "distinct_nontrivial": res_k["distinct_nontrivial"] + len(distinct),
            "rule": res_k["rule"] + " || histories on real SRF objects (RandMeth, IncomprRandMeth, Fourier): field-level calls with seeds of "
                    "differing object identity (int, fresh big int, np.int64, None, keep), in-place model changes (incl. nugget on/off; model families "
                    "Gaussian, Stable, Matern, TPLStable, anisotropic+rotated Exponential whose states differ only in an optional shape argument, "
                    "rescale, len_low, anisotropy or angles), "
                    "generator seed / mode_no setters, reset_seed, direct generator calls; compared: equality pattern of all outputs "
                    "(nugget noise included) against the model's tokens, and each nugget-free output against a freshly built object",
            "samples": [c[2] for c in cases[:2]] + res_k["samples"][:2], "disagreements": dis[:6], "distribution": dist}


def search(ctx, deep=False):
    import gstools as gs
    rng = np.random.RandomState(ctx.seed + 11)
    N = ctx.scale(30, 250) * (3 if deep else 1)
    viol, ev = [], 0
    with warnings.catch_warnings():
        warnings.simplefilter("ignore")
        for t in range(N):
            gen = GENS[t % 3]
            dim = int(rng.randint(2, 4)) if gen == "IncomprRandMeth" else int(rng.randint(1, 4))
            seed = int(rng.choice([3, 10**9 + 7, 77]))
            kw = {}
            if dim > 1 and gen != "IncomprRandMeth" and rng.rand() < 0.6:
                kw = dict(anis=[float(a) for a in rng.choice([0.5, 2.0], size=dim - 1)],
                          angles=[float(a) for a in rng.uniform(-1, 1, size=dim * (dim - 1) // 2)])
            model = gs.Exponential(dim=dim, var=1.5, len_scale=2.0, **kw)
            mk = lambda s=seed: make_gen_srf(gs, gen, model, s, dim)
            n = int(rng.randint(3, 9))
            pos = rng.uniform(0, 10, size=(dim, n))
            base = mk()(pos)
            # rotated / anisotropic models go through a BLAS product whose rounding depends on the batch shape
            # (gemv vs gemm): compare those within 1e-10, everything else bit for bit
            if kw:
                same = lambda x, y: bool(np.allclose(x, y, rtol=0, atol=1e-10))
            else:
                same = lambda x, y: bool(np.array_equal(x, y))
            desc = dict(gen=gen, dim=dim, seed=seed, pos=pos.tolist(), model=repr(model))
            ev += 1
            # permutation
            p = rng.permutation(n)
            if not same(mk()(pos[:, p]), base[..., p]):
                viol.append({"key": f"locality:permutation:{gen}", "what": "field depends on the order of the points", "case": desc})
            # subset / split / batching
            k = int(rng.randint(1, n))
            a, b = mk()(pos[:, :k]), mk()(pos[:, k:])
            if not same(np.concatenate([a, b], axis=-1), base):
                viol.append({"key": f"locality:split:{gen}", "what": "field depends on batching / which other points are requested", "case": desc})
            # history independence (nugget free): generate something else first
            s = mk()
            s(rng.uniform(0, 5, size=(dim, 4)))
            if not same(s(pos), base):
                viol.append({"key": f"locality:history:{gen}", "what": "nugget-free field depends on what was generated before", "case": desc})
            # storage name
            s = mk()
            if not same(s(pos, store="other_name"), base):
                viol.append({"key": f"locality:store-name:{gen}", "what": "field depends on the storage name", "case": desc})
            # structured = unstructured on the expanded grid
            axes = [np.sort(rng.uniform(0, 10, size=int(rng.randint(2, 4)))) for _ in range(dim)]
            g = np.array(np.meshgrid(*axes, indexing="ij")).reshape(dim, -1)
            fs = mk()(axes, mesh_type="structured")
            fu = mk()(g)
            ev += 1
            if not same(np.reshape(fs, fu.shape), fu):
                viol.append({"key": f"locality:mesh-type:{gen}", "what": "structured evaluation differs from the expanded point list", "case": desc})
            # seed identity: equal values, different objects, nugget noise included
            modeln = gs.Exponential(dim=dim, var=1.5, len_scale=2.0, nugget=0.4, **kw)
            outs = []
            for sobj in (int(seed), int(str(seed)), np.int64(seed)):
                s = make_gen_srf(gs, gen, modeln, sobj, dim)
                o1 = s(pos, seed=sobj)
                o2 = s(pos, seed=type(sobj)(seed) if not isinstance(sobj, int) else int(str(seed)))
                outs.append((o1, o2))
            ev += 1
            if not all(np.array_equal(outs[0][0], o[0]) and np.array_equal(outs[0][1], o[1]) for o in outs[1:]):
                viol.append({"key": f"seed-identity:{gen}", "what": "equal seed values of different object identity give different results (nugget noise history)",
                             "case": desc})
    return {"evaluations": ev, "violations": viol[:8],
            "summary": "real SRF (three generators, anisotropic/rotated models): permutation, split, history, storage name, structured vs expanded grid, seed object identity with nugget noise"}


def make_gen_srf(gs, gen, model, seed, dim):
    if gen == "RandMeth":
        return gs.SRF(model, seed=seed, mode_no=32)
    if gen == "IncomprRandMeth":
        return gs.SRF(model, generator="IncomprRandMeth", seed=seed, mode_no=32, mean_velocity=0.5)
    return gs.SRF(model, generator="Fourier", seed=seed, mode_no=[8] * dim, period=[20.0] * dim)
