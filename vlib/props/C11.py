"""C11 — seeded field generation is deterministic and local."""
import warnings
import numpy as np
import kernels
import gridtie
from proto import run_driver

KERNEL_FILES = ["field/summator.pyx"]
ASSUMPTIONS = ["numpy's RandomState is a deterministic function of its seed and call sequence",
               "model values are abstracted to identifiers (as CovModel.__eq__ sees them); the isclose band of that comparison is finding F4",
               "distinct model identifiers are realised by parameter sets that give visibly different fields (for states that differ only in "
               "anisotropy / rotation: visibly different isometrized positions, and — Fourier, anisotropy ratios — mode grids)",
               "a freshly constructed SRF (new model object, same parameter values, same integer seed) is the reference for 'what a fresh generator gives'"]

GENS = ["RandMeth", "IncomprRandMeth", "Fourier"]
MODELS = [dict(var=1.0, len_scale=2.0), dict(var=2.0, len_scale=2.0), dict(var=1.0, len_scale=3.5), dict(var=0.5, len_scale=1.25)]
# families of model states realising the four abstract model identifiers of the bookkeeping model: the in-place change between two
# identifiers may touch ONLY an optional shape argument, ONLY the anisotropy / rotation, or the rescale factor
FAMILIES = {
    "gau": ("Gaussian", MODELS),
    "stable": ("Stable", [dict(var=1.0, len_scale=2.0, alpha=1.5), dict(var=1.0, len_scale=2.0, alpha=0.9),
                          dict(var=1.0, len_scale=3.5, alpha=1.5), dict(var=0.5, len_scale=2.0, alpha=2.0)]),
    "matern": ("Matern", [dict(var=1.0, len_scale=2.0, nu=1.5), dict(var=1.0, len_scale=2.0, nu=0.6),
                          dict(var=2.0, len_scale=2.0, nu=1.5), dict(var=1.0, len_scale=2.0, nu=1.5, rescale=2.0)]),
    "tpl": ("TPLStable", [dict(var=1.0, len_scale=2.0, hurst=0.5, alpha=1.5), dict(var=1.0, len_scale=2.0, hurst=0.8, alpha=1.5),
                          dict(var=1.0, len_scale=2.0, hurst=0.5, alpha=0.8), dict(var=1.0, len_scale=2.0, hurst=0.5, alpha=1.5, len_low=0.5)]),
    "aniso": ("Exponential", [dict(var=1.0, len_scale=2.0, anis=1.0, angles=0.0), dict(var=1.0, len_scale=2.0, anis=0.5, angles=0.0),
                              dict(var=1.0, len_scale=2.0, anis=0.5, angles=0.7), dict(var=1.0, len_scale=2.0, anis=2.5, angles=-0.4)]),
}


NUGGETS = [0.0, 0.3, 0.7]           # nugget levels of the bookkeeping model (0 = no nugget)


def nug_level(x):
    return int(x)                    # True/False or 0..2


def vec_dim(gen, dim):
    return dim if gen == "IncomprRandMeth" else 1


def make_psets(rng, gen, dim, n):
    """Position sets of one history.  Set 0 is the ordinary small-coordinate cloud (also used by the direct generator calls).
    The others: same shape as set 0 resp. as the structured set, located at a magnitude 1e-3 … 1e7 and differing from each other
    by a shift of relative size 1e-12 … 1e-2 (a few metres at UTM coordinates, tiny shifts near the origin), as unstructured and
    as structured meshes; an equal-valued copy of a set (new array / list object) carries the same identifier.
    Each entry: dict(id, mesh, pos, npts)."""
    p0 = rng.uniform(0, 10, size=(dim, n))
    sets = [dict(id=0, mesh="unstructured", pos=p0, npts=n)]
    mag = 10.0 ** rng.uniform(-3, 7)
    centre = mag * rng.uniform(0.3, 1.0, size=dim) * rng.choice([-1.0, 1.0], size=dim)
    spread = mag * 10.0 ** rng.uniform(-5, 0)
    pu = centre[:, None] + rng.uniform(0, spread, size=(dim, n))
    ks = [int(rng.randint(2, 4)) for _ in range(dim)]
    if dim == 1 and rng.rand() < 0.5:
        ks = [n]                        # same number of values in both mesh types
    ax = [np.sort(centre[d] + rng.uniform(0, spread, size=ks[d])) for d in range(dim)]
    nid = 1
    for base, mesh in ((pu, "unstructured"), (ax, "structured")):
        for v in range(int(rng.randint(1, 4))):
            rel = 0.0 if v == 0 else 10.0 ** rng.uniform(-12, -2)
            shift = rel * mag * rng.choice([-1.0, 1.0], size=dim) * (rng.rand(dim) < 0.7)
            if v and not shift.any():
                shift[int(rng.randint(0, dim))] = rel * mag
            if mesh == "unstructured":
                pos = base + shift[:, None]
                if v and np.array_equal(pos, base):
                    continue
                npts = n
            else:
                pos = tuple(a + shift[d] for d, a in enumerate(base))
                if v and all(np.array_equal(a, b) for a, b in zip(pos, base)):
                    continue
                npts = int(np.prod(ks))
            sets.append(dict(id=nid, mesh=mesh, pos=pos, npts=npts, rel=rel, mag=mag))
            nid += 1
    if dim == 1 and ks == [n] and rng.rand() < 0.7:    # the SAME values requested with the other mesh type
        sets.append(dict(id=nid, mesh="structured", pos=(pu[0].copy(),), npts=n, rel=0.0, mag=mag))
        nid += 1
    # equal-valued copies (same identifier, different objects / container types)
    for e in list(sets[:3]):
        if rng.rand() < 0.5:
            c = dict(e)
            c["pos"] = [np.array(a, copy=True).tolist() for a in e["pos"]] if rng.rand() < 0.5 else \
                (np.array(e["pos"], copy=True) if e["mesh"] == "unstructured" else tuple(np.array(a, copy=True) for a in e["pos"]))
            sets.append(c)
    return sets


def pos_arrays(e, dim):
    """the exact arrays `Field.pos` must hold for position set e"""
    if e["mesh"] == "unstructured":
        return np.asarray(e["pos"], dtype=np.double).reshape(dim, -1)
    return tuple(np.asarray(a, dtype=np.double).reshape(-1) for a in e["pos"])


def stored_pos_ok(srf, e, dim):
    want = pos_arrays(e, dim)
    if srf.mesh_type != e["mesh"]:
        return False
    got = srf.pos
    if e["mesh"] == "unstructured":
        return bool(np.shape(got) == want.shape and np.array_equal(np.asarray(got), want))
    return bool(len(got) == len(want) and all(np.array_equal(np.asarray(a), b) for a, b in zip(got, want)))


def _first_with(states, mid, drop):
    key = lambda st: sorted((k, repr(v)) for k, v in st.items() if k not in drop)
    full = [dict(dict(anis=1.0, angles=0.0), **st) for st in states]
    return [key(st) for st in full].index(key(full[mid]))


def generator_class(gen, fam, mid):
    """states of a family that give the same GENERATOR (for the same seed and mode number): the randomization methods do not
    see anisotropy and rotation (they act on the positions), the Fourier mode grid sees the anisotropy ratios"""
    return _first_with(FAMILIES[fam][1], mid, ("angles",) if gen == "Fourier" else ("anis", "angles"))


def geometry_class(fam, mid):
    """states of a family with the same isometrization"""
    states = [dict(dict(anis=1.0, angles=0.0), **st) for st in FAMILIES[fam][1]]
    key = lambda st: (repr(st["anis"]), repr(st["angles"]))
    return [key(st) for st in states].index(key(states[mid]))


def seed_object(rng, value):
    """equal values, differing identities"""
    if value is None:
        return None
    k = rng.randint(0, 3)
    if k == 0:
        return int(value)
    if k == 1:
        return int(str(value))            # a fresh int object for large values
    return np.int64(value)


def make_srf(gen, mid, nug, seed, mode_no, dim, fam="gau"):
    import gstools as gs
    cls, states = FAMILIES[fam]
    kw = dict(states[mid])
    model = getattr(gs, cls)(dim=dim, nugget=NUGGETS[nug_level(nug)], **kw)
    if gen == "RandMeth":
        return gs.SRF(model, seed=seed, mode_no=mode_no)
    if gen == "IncomprRandMeth":
        return gs.SRF(model, generator="IncomprRandMeth", seed=seed, mode_no=mode_no, mean_velocity=0.5)
    return gs.SRF(model, generator="Fourier", seed=seed, mode_no=[mode_no] * dim, period=[16.0] * dim)


def gen_history(rng, gen, length, npos=1):
    ops = []
    for _ in range(length):
        r = rng.rand()
        if r < 0.45:
            s = rng.choice(["keep", "keep", "none", "int", "int", "int"])
            o = {"k": "srf_call", "n": 0, "pset": int(rng.randint(0, npos)) if rng.rand() < 0.75 else 0}
            if s == "keep":
                o["seed"] = "keep"
            elif s == "int":
                o["seed"] = int(rng.choice([7, 7, 7, 1000000007, 12]))
            ops.append(o)
        elif r < 0.65:
            q = rng.rand()
            if q < 0.35:      # only the nugget changes (on / off / another positive value)
                ops.append({"k": "model", "id": "same", "nug": int(rng.randint(0, 3))})
            elif q < 0.6:     # everything but the nugget changes, the nugget stays
                ops.append({"k": "model", "id": int(rng.randint(0, len(MODELS))), "nug": "same"})
            else:
                ops.append({"k": "model", "id": int(rng.randint(0, len(MODELS))), "nug": int(rng.choice([0, 0, 1, 1, 2]))})
            if rng.rand() < 0.6:  # … and the next field-level call sees it (mostly without a new seed value)
                o = {"k": "srf_call", "n": 0, "pset": int(rng.randint(0, npos)) if rng.rand() < 0.5 else 0}
                s = rng.choice(["keep", "keep", "keep", "int", "none"])
                if s == "keep":
                    o["seed"] = "keep"
                elif s == "int":
                    o["seed"] = 7
                ops.append(o)
        elif r < 0.75:
            o = {"k": "gen_seed"}
            if rng.rand() < 0.8:
                o["s"] = int(rng.choice([7, 1000000007, 12]))
            ops.append(o)
        elif r < 0.83 and gen != "Fourier":
            ops.append({"k": "gen_mode_no", "n": int(rng.choice([16, 24]))})
        elif r < 0.90:
            o = {"k": "gen_reset"}
            s = rng.choice(["keep", "none", "int"])
            if s == "keep":
                o["seed"] = "keep"
            elif s == "int":
                o["seed"] = int(rng.choice([7, 12]))
            ops.append(o)
        else:
            ops.append({"k": "gen_call", "n": 0, "nugget": bool(rng.rand() < 0.6)})
    return ops


def resolve_history(ops, m0, nug0, psets, vd, n0):
    """fill in what depends on the running state: 'same' model id / nugget level, number of variates of each call"""
    mid, nug = m0, nug0
    for o in ops:
        if o["k"] == "model":
            if o["id"] == "same":
                o["id"] = mid
            if o["nug"] == "same":
                o["nug"] = nug
            mid, nug = o["id"], o["nug"]
        elif o["k"] == "srf_call":
            o["n"] = psets[o["pset"]]["npts"] * vd
            o["pos"] = psets[o["pset"]]["id"]
        elif o["k"] == "gen_call":
            o["n"] = n0 * vd
    return ops


def run_real(rng, gen, dim, ops, m0, nug0, seed0, mode_no, psets, fam="gau"):
    srf = make_srf(gen, m0, nug0, seed_object(rng, seed0), mode_no, dim, fam)
    outs, fresh, stored = [], [], []
    cur = dict(mid=m0, nug=nug0)
    iso = srf.model.isometrize(psets[0]["pos"])
    for o in ops:
        k = o["k"]
        if k == "srf_call":
            e = psets[o["pset"]]
            kw = dict(mesh_type=e["mesh"])
            if e["mesh"] == "unstructured" and rng.rand() < 0.5:
                kw = {}                                        # the default mesh type
            if o.get("seed") != "keep":
                kw["seed"] = seed_object(rng, o.get("seed"))
            f = srf(e["pos"], **kw)
            outs.append(np.array(f, copy=True))
            sd = srf.generator.seed
            mn = srf.generator.mode_no if gen != "Fourier" else int(srf.generator.mode_no[0])
            fr = None
            if sd is not None and not cur["nug"]:
                fr = make_srf(gen, cur["mid"], 0, int(sd), mn, dim, fam)(e["pos"], mesh_type=e["mesh"])
            fresh.append(fr)
            stored.append((stored_pos_ok(srf, e, dim), srf.mesh_type))
        elif k == "model":
            cur = dict(mid=o["id"], nug=o["nug"])
            st = dict(FAMILIES[fam][1][o["id"]])
            st.setdefault("rescale", FAMILIES[fam][1][0].get("rescale", srf.model.rescale) if fam == "matern" else srf.model.rescale)
            if fam == "matern":
                st["rescale"] = FAMILIES[fam][1][o["id"]].get("rescale", 1.0)
            if fam == "tpl":
                st["len_low"] = FAMILIES[fam][1][o["id"]].get("len_low", 0.0)
            for name in sorted(st, key=lambda a: (a == "var", a)):    # var last (TPL models: var follows the intensity)
                setattr(srf.model, name, st[name])
            srf.model.nugget = NUGGETS[nug_level(o["nug"])]
        elif k == "gen_seed":
            srf.generator.seed = seed_object(rng, o.get("s"))
        elif k == "gen_mode_no":
            srf.generator.mode_no = o["n"]
        elif k == "gen_reset":
            if o.get("seed") == "keep":
                srf.generator.reset_seed()
            else:
                srf.generator.reset_seed(seed_object(rng, o.get("seed")))
        elif k == "gen_call":
            f = srf.generator(iso, add_nugget=o["nugget"])
            outs.append(np.array(f, copy=True))
            fresh.append(None)
            stored.append(None)
    return outs, fresh, stored, iso


def expected_output(cache, gen, dim, fam, rec, o, psets, iso):
    """What the bookkeeping model predicts, built on a FRESH object: a new SRF with the predicted model state, seed and mode
    number, on which the predicted number of noise draws since the last restart of the stream is replayed (calls of other
    shapes at other positions), evaluated like the call `o`.  None for random (`None`) seeds."""
    if rec["seed"] is None:
        return None
    key = (rec["model"], rec["nug"], rec["seed"], rec["mode_no"], rec["burn"] if rec["nug"] else 0, o["k"], o.get("pset"), o.get("nugget"))
    if key not in cache:
        f = make_srf(gen, rec["model"], rec["nug"], int(rec["seed"]), rec["mode_no"], dim, fam)
        if rec["nug"]:
            for j in range(rec["burn"]):
                if j % 2:
                    f.generator(np.full((dim, 1 + j % 3), 0.25), add_nugget=True)
                else:
                    f(np.full((dim, 1 + j % 3), 0.5))
        if o["k"] == "srf_call":
            e = psets[o["pset"]]
            cache[key] = np.array(f(e["pos"], mesh_type=e["mesh"]), copy=True)
        else:
            cache[key] = np.array(f.generator(iso, add_nugget=o["nugget"]), copy=True)
    return cache[key]


def compare_history(ctx, case, r, dist, dis, distinct):
    """run one history on the real objects and compare it with the driver's answer r"""
    gen, dim, ops, m0, nug0, seed0, mn, psets, fam = case
    if isinstance(r, dict) and "error" in r:
        dis.append({"what": "driver error " + r["error"]})
        return
    irng = np.random.RandomState(ctx.seed + 5)
    outs, fresh, stored, iso = run_real(irng, gen, dim, ops, m0, nug0, seed0, mn, psets, fam)
    dist["family:" + fam] = dist.get("family:" + fam, 0) + 1
    dist["pos_sets"] += len(psets)
    if len(outs) != len(r):
        dis.append({"what": "number of generating calls differs", "ops": ops})
        return
    bad = None
    callops = [o for o in ops if o["k"] in ("srf_call", "gen_call")]
    byid = {}
    for e in psets:
        byid.setdefault(e["id"], e)
    # position class of an output: the position set it was asked for; the direct generator calls use the isometrized
    # set 0 of the initial model.  A model state acts on an output in two ways: through the generator (modes, variance,
    # Fourier mode grid) and through the isometrized positions (anisotropy, rotation).  The token is therefore
    # (generator-level class of the state, geometry class of the state whose isometrization was applied): for the families
    # whose states differ in var / len_scale / shape arguments this is the state identifier itself, for the family that
    # differs ONLY in anisotropy / rotation the randomization generators are the same for all states.
    def pclass(o):
        return o["pos"] if o["k"] == "srf_call" else 0

    def token(o, x):
        f = list(x["out"]["field"])
        geom = geometry_class(fam, f[0] if o["k"] == "srf_call" else m0)
        f[0] = generator_class(gen, fam, f[0])
        return (tuple(f), None if x["out"]["noise"] is None else tuple(x["out"]["noise"]) + (x["out"]["nug"],), geom)
    toks = [(token(o, x), pclass(o)) for o, x in zip(callops, r)]
    # non-finite outputs (a numerically negative spectrum under the square root of the Fourier spectrum factor) carry
    # no information about determinism or locality: counted, not compared
    finite = [bool(np.all(np.isfinite(a))) for a in outs]
    cache = {}
    for i in range(len(outs)):
        o = callops[i]
        dist["calls"] += 1
        if not finite[i]:
            dist["nonfinite_outputs"] += 1
        if o["k"] == "srf_call":
            e = psets[o["pset"]]
            dist["calls_at_shifted_pos"] += int(bool(e.get("rel")))
            dist["calls_structured"] += int(e["mesh"] == "structured")
            # the positions: the model says which set the output belongs to and which set is stored afterwards
            dist["stored_pos_checked"] += 1
            sid = r[i]["stored_pos"]
            if r[i]["out"]["pos"] != o["pos"] or sid not in byid or not stored_pos_ok_result(stored[i], byid[sid], e):
                bad = {"what": f"{gen}: the positions stored on the field object after a call are not the given ones "
                               "(bookkeeping model: the given set is stored)", "call": i, "pset": o["pset"],
                       "mesh_type_now": stored[i][1], "rel_shift": e.get("rel"), "magnitude": e.get("mag")}
                break
        # against a freshly built object (nugget-free, integer seed): must be identical
        if fresh[i] is not None and finite[i]:
            dist["fresh_compared"] += 1
            model_says = tuple(r[i]["out"]["field"]) == tuple(r[i]["fresh"])
            real_says = bool(np.array_equal(outs[i], fresh[i]))
            if model_says != real_says:
                bad = {"what": f"{gen}: field vs freshly built object disagrees with the bookkeeping model", "call": i,
                       "real_equal": real_says, "model_equal": model_says}
                break
        # the model's complete prediction (modes, noise stream position, positions) realised on a fresh object
        rec = r[i]["recipe"]
        exp = expected_output(cache, gen, dim, fam, rec, o, psets, iso) if finite[i] else None
        if exp is not None:
            dist["replay_compared"] += 1
            dist["replay_with_noise"] += int(r[i]["out"]["noise"] is not None)
            dist["replay_with_burn"] += int(r[i]["out"]["noise"] is not None and rec["burn"] > 0)
            if not (exp.shape == outs[i].shape and np.array_equal(outs[i], exp)):
                bad = {"what": f"{gen}: output differs from the one predicted by the bookkeeping model — a freshly built object "
                               "(predicted model state, seed, mode number) after the predicted number of noise draws since the "
                               "last restart of the stream, evaluated at the requested positions", "call": i,
                       "recipe": rec, "with_noise": r[i]["out"]["noise"] is not None, "op": o,
                       "max_abs_diff": float(np.max(np.abs(outs[i] - exp))) if exp.shape == outs[i].shape else "shape",
                       "rel_shift": psets[o["pset"]].get("rel") if o["k"] == "srf_call" else None}
                break
        for jx in range(i):
            if toks[i][1] != toks[jx][1] or not (finite[i] and finite[jx]):
                continue          # different position sets: each is compared with its own fresh evaluation above
            dist["pairs"] += 1
            same_tok = toks[i] == toks[jx]
            same_real = bool(outs[i].shape == outs[jx].shape and np.array_equal(outs[i], outs[jx]))
            if same_tok != same_real:
                bad = {"what": f"{gen}: equality pattern of outputs differs from the bookkeeping model", "calls": [jx, i],
                       "real_equal": same_real, "tokens": [toks[jx], toks[i]]}
                break
        if bad:
            break
    if bad:
        bad.update(ops=ops, init=dict(model=m0, nug=nug0, seed=seed0, mode_no=mn), gen=gen, dim=dim, family=fam,
                   psets=[dict(id=e["id"], mesh=e["mesh"], npts=e["npts"], pos=[np.asarray(a).tolist() for a in e["pos"]]) for e in psets])
        dis.append(bad)
    dist["model_changes_nugget_only"] += sum(1 for a, b in zip([dict(id=m0, nug=nug0)] + [o for o in ops if o["k"] == "model"],
                                                              [o for o in ops if o["k"] == "model"])
                                             if a["id"] == b["id"] and a["nug"] != b["nug"])
    distinct.add((gen, fam, tuple(o["k"] for o in ops)))


def correspondence(ctx):
    res_k = kernels.kernel_correspondence(ctx, ["summate", "summate_fourier", "summate_incompr"], ctx.scale(10, 120), big=not ctx.quick)
    rng = np.random.RandomState(ctx.seed + 1111)
    H = ctx.scale(120, 600)
    cases, opsl = [], []
    for h in range(H):
        gen = GENS[h % 3]
        dim = int(rng.randint(2, 4)) if gen == "IncomprRandMeth" else int(rng.randint(1, 4))
        n = int(rng.randint(2, 6))
        psets = make_psets(rng, gen, dim, n)
        ops = gen_history(rng, gen, int(rng.randint(3, ctx.scale(12, 40))), len(psets))
        m0, nug0 = int(rng.randint(0, len(MODELS))), int(rng.choice([0, 0, 1, 1, 2]))
        resolve_history(ops, m0, nug0, psets, vec_dim(gen, dim), n)
        seed0 = None if rng.rand() < 0.15 else int(rng.choice([7, 1000000007, 12]))
        mn = int(rng.choice([16, 24]))
        if gen == "Fourier":           # modes per axis: keep the grid (mn**dim modes, numerical spectra) affordable
            mn = {1: mn, 2: mn // 2, 3: mn // 4}[dim]
        # the TPL family is ~10x as expensive to construct as the others: drawn less often
        fams = ["gau", "gau", "gau", "stable", "stable", "matern", "matern", "tpl"] + (["aniso"] * 3 if (dim > 1 and gen != "IncomprRandMeth") else [])
        fam = str(fams[int(rng.randint(0, len(fams)))]) if h >= 3 else "gau"
        cases.append((gen, dim, ops, m0, nug0, seed0, mn, psets, fam))
        d = {"op": "gen_history", "model": m0, "nug": nug0, "mode_no": mn, "ops": ops}
        if seed0 is not None:
            d["seed0"] = seed0
        opsl.append(d)
    res = run_driver(opsl)
    dis, distinct = list(res_k["disagreements"]), set()
    dist = dict(res_k["distribution"])
    dist.update(calls=0, fresh_compared=0, pairs=0, replay_compared=0, replay_with_noise=0, replay_with_burn=0,
                stored_pos_checked=0, pos_sets=0, nonfinite_outputs=0, calls_at_shifted_pos=0, calls_structured=0, model_changes_nugget_only=0)
    with warnings.catch_warnings():
        warnings.simplefilter("ignore")
        for case, r in zip(cases, res):
            compare_history(ctx, case, r, dist, dis, distinct)
    # generate_grid / C-order index decoding vs Model/Grid.lean (Grid.structured_eq_unstructured, C11Grid), exact
    grid = gridtie.grid_correspondence(ctx)
    dis = grid["disagreements"][:3] + dis
    dist["grid_evaluations"] = grid["evaluations"]
    return {"evaluations": res_k["evaluations"] + dist["calls"] + grid["evaluations"],
            "distinct_nontrivial": res_k["distinct_nontrivial"] + len(distinct) + grid["distinct"],
            "rule": res_k["rule"] + " || " + grid["rule"] + " || histories on real SRF objects (RandMeth, IncomprRandMeth, Fourier): field-level calls with seeds of "
                    "differing object identity (int, fresh big int, np.int64, None, keep) at position sets of one shape that differ by relative "
                    "shifts 1e-12…1e-2 at magnitudes 1e-3…1e7 (unstructured and structured, equal-valued copies, mesh-type switches), "
                    "in-place model changes (nugget on/off/other value alone, everything but the nugget, both; model families "
                    "Gaussian, Stable, Matern, TPLStable, anisotropic+rotated Exponential whose states differ only in var, an optional shape argument, "
                    "rescale, len_low, anisotropy or angles), "
                    "generator seed / mode_no setters, reset_seed, direct generator calls; compared: (a) every output with an integer seed, nugget "
                    "noise included, bit for bit against a freshly built object realising the model's prediction (model state, seed, mode number, "
                    "number of noise draws since the last restart of the stream, position set); (b) the stored positions / mesh type against the "
                    "model's stored set; (c) equality pattern of all outputs at one position set against the model's tokens; (d) each nugget-free "
                    "output against a fresh object built from the harness's own tracking",
            "samples": [c[2] for c in cases[:2]] + res_k["samples"][:2], "disagreements": dis[:6], "distribution": dist}


def stored_pos_ok_result(st, model_entry, asked_entry):
    """st = (real stored pos equals the ASKED set exactly, real mesh type); the model's stored set must be the asked one"""
    return bool(st[0]) and model_entry["id"] == asked_entry["id"] and st[1] == asked_entry["mesh"]


def search(ctx, deep=False):
    import gstools as gs
    rng = np.random.RandomState(ctx.seed + 11)
    N = ctx.scale(30, 250) * (3 if deep else 1)
    viol, ev = [], 0
    with warnings.catch_warnings():
        warnings.simplefilter("ignore")
        for t in range(N):
            gen = GENS[t % 3]
            dim = int(rng.randint(2, 4)) if gen == "IncomprRandMeth" else int(rng.randint(1, 4))
            seed = int(rng.choice([3, 10**9 + 7, 77]))
            kw = {}
            if dim > 1 and gen != "IncomprRandMeth" and rng.rand() < 0.6:
                kw = dict(anis=[float(a) for a in rng.choice([0.5, 2.0], size=dim - 1)],
                          angles=[float(a) for a in rng.uniform(-1, 1, size=dim * (dim - 1) // 2)])
            model = gs.Exponential(dim=dim, var=1.5, len_scale=2.0, **kw)
            mk = lambda s=seed: make_gen_srf(gs, gen, model, s, dim)
            n = int(rng.randint(3, 9))
            pos = rng.uniform(0, 10, size=(dim, n))
            base = mk()(pos)
            # rotated / anisotropic models go through a BLAS product whose rounding depends on the batch shape
            # (gemv vs gemm): compare those within 1e-10, everything else bit for bit
            if kw:
                same = lambda x, y: bool(np.allclose(x, y, rtol=0, atol=1e-10))
            else:
                same = lambda x, y: bool(np.array_equal(x, y))
            desc = dict(gen=gen, dim=dim, seed=seed, pos=pos.tolist(), model=repr(model))
            ev += 1
            # permutation
            p = rng.permutation(n)
            if not same(mk()(pos[:, p]), base[..., p]):
                viol.append({"key": f"locality:permutation:{gen}", "what": "field depends on the order of the points", "case": desc})
            # subset / split / batching
            k = int(rng.randint(1, n))
            a, b = mk()(pos[:, :k]), mk()(pos[:, k:])
            if not same(np.concatenate([a, b], axis=-1), base):
                viol.append({"key": f"locality:split:{gen}", "what": "field depends on batching / which other points are requested", "case": desc})
            # history independence (nugget free): generate something else first
            s = mk()
            s(rng.uniform(0, 5, size=(dim, 4)))
            if not same(s(pos), base):
                viol.append({"key": f"locality:history:{gen}", "what": "nugget-free field depends on what was generated before", "case": desc})
            # storage name
            s = mk()
            if not same(s(pos, store="other_name"), base):
                viol.append({"key": f"locality:store-name:{gen}", "what": "field depends on the storage name", "case": desc})
            # structured = unstructured on the expanded grid
            axes = [np.sort(rng.uniform(0, 10, size=int(rng.randint(2, 4)))) for _ in range(dim)]
            g = np.array(np.meshgrid(*axes, indexing="ij")).reshape(dim, -1)
            fs = mk()(axes, mesh_type="structured")
            fu = mk()(g)
            ev += 1
            if not same(np.reshape(fs, fu.shape), fu):
                viol.append({"key": f"locality:mesh-type:{gen}", "what": "structured evaluation differs from the expanded point list", "case": desc})
            # seed identity: equal values, different objects, nugget noise included
            modeln = gs.Exponential(dim=dim, var=1.5, len_scale=2.0, nugget=0.4, **kw)
            outs = []
            for sobj in (int(seed), int(str(seed)), np.int64(seed)):
                s = make_gen_srf(gs, gen, modeln, sobj, dim)
                o1 = s(pos, seed=sobj)
                o2 = s(pos, seed=type(sobj)(seed) if not isinstance(sobj, int) else int(str(seed)))
                outs.append((o1, o2))
            ev += 1
            if not all(np.array_equal(outs[0][0], o[0]) and np.array_equal(outs[0][1], o[1]) for o in outs[1:]):
                viol.append({"key": f"seed-identity:{gen}", "what": "equal seed values of different object identity give different results (nugget noise history)",
                             "case": desc})
        ev += search_pos_history(gs, np.random.RandomState(ctx.seed + 211), ctx.scale(90, 600) * (3 if deep else 1), viol)
        ev += search_noise_history(gs, np.random.RandomState(ctx.seed + 311), ctx.scale(90, 600) * (3 if deep else 1), viol)
    seen, out = set(), []
    for v in viol:                      # one representative per key first, so that no class is crowded out
        if v["key"] not in seen:
            seen.add(v["key"])
            out.append(v)
    out += [v for v in viol if all(v is not w for w in out)]
    return {"evaluations": ev, "violations": out[:8],
            "summary": "real SRF (three generators, anisotropic/rotated models): permutation, split, history, storage name, structured vs expanded grid, "
                       "seed object identity with nugget noise; consecutive calls of ONE object at equal-shaped position sets differing by relative "
                       "shifts 1e-12…1e-2 at magnitudes 1e-3…1e7 (unstructured / structured / mesh-type switches) vs a fresh object, the stored "
                       "positions and a direct generator evaluation; nugget-noise histories (calls, then an in-place change of nothing / var / nugget / "
                       "anis / angles / len_scale / a change and its restoration / the same seed value again) vs a fresh object with the noise "
                       "stream replayed"}


def expand(pos, mesh, dim):
    if mesh == "unstructured":
        return np.asarray(pos, dtype=np.double).reshape(dim, -1)
    return np.array(np.meshgrid(*pos, indexing="ij")).reshape(dim, -1)


def search_pos_history(gs, rng, N, viol):
    """The value at a location is a pure function of that location: a history of calls on ONE object at position sets of equal shape,
    located anywhere between 1e-3 and 1e7 and differing by relative shifts 1e-12 … 1e-2 — each output must be bit-identical to a fresh
    object that only ever saw those positions, the stored `pos` must be the given positions, and the output must be the generator
    evaluated directly at the isometrized given positions."""
    ev = 0
    for t in range(N):
        gen = GENS[t % 3]
        dim = int(rng.randint(2, 4)) if gen == "IncomprRandMeth" else int(rng.randint(1, 4))
        seed = int(rng.choice([3, 10**9 + 7, 77]))
        mag = 10.0 ** rng.uniform(-3, 7)
        L = mag * 10.0 ** rng.uniform(-5.5, 0)
        kw = {}
        if dim > 1 and gen != "IncomprRandMeth" and rng.rand() < 0.4:
            kw = dict(anis=[float(a) for a in rng.choice([0.5, 2.0], size=dim - 1)],
                      angles=[float(a) for a in rng.uniform(-1, 1, size=dim * (dim - 1) // 2)])
        cls = gs.Gaussian if rng.rand() < 0.5 else gs.Exponential
        model = cls(dim=dim, var=1.5, len_scale=L, **kw)

        def mk():
            if gen == "RandMeth":
                return gs.SRF(model, seed=seed, mode_no=32)
            if gen == "IncomprRandMeth":
                return gs.SRF(model, generator="IncomprRandMeth", seed=seed, mode_no=32, mean_velocity=0.5)
            return gs.SRF(model, generator="Fourier", seed=seed, mode_no=[8] * dim, period=[8.0 * L] * dim)
        n = int(rng.randint(2, 8))
        centre = mag * rng.uniform(0.3, 1.0, size=dim) * rng.choice([-1.0, 1.0], size=dim)
        spread = min(mag, L * 10.0 ** rng.uniform(0, 2))
        pu = centre[:, None] + rng.uniform(0, spread, size=(dim, n))
        ks = [n] if (dim == 1 and rng.rand() < 0.5) else [int(rng.randint(2, 4)) for _ in range(dim)]
        ax = tuple(np.sort(centre[d] + rng.uniform(0, spread, size=ks[d])) for d in range(dim))
        calls = []
        for _ in range(int(rng.randint(2, 6))):
            mesh = "structured" if rng.rand() < 0.4 else "unstructured"
            rel = 0.0 if rng.rand() < 0.15 else 10.0 ** rng.uniform(-12, -2)
            shift = rel * mag * rng.choice([-1.0, 1.0], size=dim) * (rng.rand(dim) < 0.7)
            if rel and not shift.any():
                shift[int(rng.randint(0, dim))] = rel * mag
            if mesh == "unstructured":
                pos = pu + shift[:, None]
            elif dim == 1 and ks == [n] and rng.rand() < 0.5:
                pos = (np.sort(pu[0]) + shift[0],)          # the unstructured values on the other mesh type
            else:
                pos = tuple(a + shift[d] for d, a in enumerate(ax))
            calls.append((mesh, pos, rel))
        srf = mk()
        for ci, (mesh, pos, rel) in enumerate(calls):
            ev += 1
            out = np.array(srf(pos, mesh_type=mesh), copy=True)
            ref = mk()(pos, mesh_type=mesh)
            desc = dict(gen=gen, dim=dim, seed=seed, model=repr(model), call=ci, magnitude=mag, rel_shift=rel,
                        history=[dict(mesh_type=m, pos=np.asarray(expand(p, m, dim)).tolist(), rel_shift=r) for m, p, r in calls[:ci + 1]])
            if not (np.all(np.isfinite(ref)) and np.all(np.isfinite(out))):
                continue
            if not (out.shape == ref.shape and np.array_equal(out, ref)):
                viol.append({"key": f"locality:pos-history:{gen}",
                             "what": "value at a location depends on the positions requested by earlier calls on the same object "
                                     f"(call {ci} at positions shifted by {rel:.1e} x magnitude {mag:.1e} differs from a fresh object at exactly these "
                                     f"positions by {float(np.max(np.abs(out - ref))) if out.shape == ref.shape else 'shape'})", "case": desc})
            want = pos_arrays(dict(mesh=mesh, pos=pos), dim)
            got = srf.pos
            ok = srf.mesh_type == mesh and (np.array_equal(np.asarray(got), want) if mesh == "unstructured" else
                                            (len(got) == len(want) and all(np.array_equal(np.asarray(a), b) for a, b in zip(got, want))))
            if not ok:
                viol.append({"key": f"locality:stored-pos:{gen}", "what": "the stored `pos` / mesh type after a call are not the given ones", "case": desc})
            direct = np.reshape(srf.generator(model.isometrize(expand(pos, mesh, dim)), add_nugget=False), out.shape)
            if not np.array_equal(out, direct):
                viol.append({"key": f"locality:generator-direct:{gen}",
                             "what": "field-level output differs from the generator evaluated directly at the isometrized given positions", "case": desc})
    return ev


CHANGES = ["none", "same-seed", "var", "nugget", "nugget-off-on", "anis", "angles", "len_scale", "var-and-back", "var-call-back"]


def search_noise_history(gs, rng, N, viol):
    """Equal histories give equal nugget noise, and after an in-place change the result is that of a freshly constructed generator:
    k calls with noise, one kind of in-place change (or none), one more call; reference = NEW model object with the final parameter
    values, NEW SRF with the same seed, on which the calls since the last visible change are replayed."""
    ev = 0
    for t in range(N):
        gen = GENS[t % 3]
        dim = int(rng.randint(2, 4)) if gen == "IncomprRandMeth" else int(rng.randint(1, 4))
        seed = int(rng.choice([3, 10**9 + 7, 77]))
        par = dict(var=1.5, len_scale=2.0, nugget=float(rng.choice([0.4, 0.05, 1.5])))
        if dim > 1:
            par.update(anis=[float(a) for a in rng.choice([0.5, 2.0], size=dim - 1)],
                       angles=[float(a) for a in rng.uniform(-1, 1, size=dim * (dim - 1) // 2)])
        cls = gs.Gaussian if rng.rand() < 0.5 else gs.Exponential
        change = CHANGES[int(rng.randint(0, len(CHANGES)))]
        if change in ("anis", "angles") and dim == 1:
            change = "var"
        mk = lambda q: make_gen_srf(gs, gen, cls(dim=dim, **q), seed, dim)
        shapes = [int(rng.randint(1, 7)) for _ in range(int(rng.randint(1, 4)))]
        pts = [rng.uniform(0, 10, size=(dim, m)) for m in shapes]
        last = rng.uniform(0, 10, size=(dim, int(rng.randint(2, 7))))
        srf = mk(par)
        for q in pts:
            srf(q)
        new, burn, kw = dict(par), list(pts), {}
        if change == "same-seed":
            kw = dict(seed=int(str(seed)))
        elif change == "nugget-off-on":
            srf.model.nugget = 0.0
            srf(pts[0])                                   # the generator sees a nugget-free model: restart, no noise drawn
            srf.model.nugget = par["nugget"]
            burn = []
        elif change == "var-and-back":
            srf.model.var = 3.0
            srf.model.var = par["var"]                    # nothing generated in between: the generator never saw a change
        elif change == "var-call-back":
            srf.model.var = 3.0
            srf(pts[0])
            srf.model.var = par["var"]
            burn = []
        elif change != "none":
            new[change] = {"var": 2.5, "nugget": par["nugget"] * 1.75, "len_scale": 3.0,
                           "anis": [a * 1.6 for a in par.get("anis", [])], "angles": [a + 0.4 for a in par.get("angles", [])]}[change]
            setattr(srf.model, change, new[change])
            burn = []
        out = np.array(srf(last, **kw), copy=True)
        ref_srf = mk(new)
        for q in burn:
            ref_srf(q)
        ref = ref_srf(last)
        ev += 1
        if not (np.all(np.isfinite(out)) and np.array_equal(out, ref)):
            viol.append({"key": f"noise-history:{gen}:{change}",
                         "what": f"after {len(pts)} noise-drawing call(s) and the in-place change '{change}' the field (nugget noise included) differs from "
                                 f"a freshly constructed generator with the same seed and settings on which {len(burn)} call(s) are replayed "
                                 f"(max abs diff {float(np.max(np.abs(out - ref))):.3e})",
                         "case": dict(gen=gen, dim=dim, seed=seed, model=cls.__name__, params=par, change=change, new_params=new,
                                      calls=[q.tolist() for q in pts], last=last.tolist())})
    return ev


def make_gen_srf(gs, gen, model, seed, dim):
    if gen == "RandMeth":
        return gs.SRF(model, seed=seed, mode_no=32)
    if gen == "IncomprRandMeth":
        return gs.SRF(model, generator="IncomprRandMeth", seed=seed, mode_no=32, mean_velocity=0.5)
    return gs.SRF(model, generator="Fourier", seed=seed, mode_no=[8] * dim, period=[20.0] * dim)
