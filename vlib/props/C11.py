"""C11 — seeded field generation is deterministic and local."""
import warnings
import numpy as np
import kernels
import gridtie
from proto import run_driver

KERNEL_FILES = ["field/summator.pyx"]
ASSUMPTIONS = ["numpy's RandomState is a deterministic function of its seed and call sequence",
               "model values are abstracted to identifiers (as CovModel.__eq__ sees them); the isclose band of that comparison is finding F4",
               "distinct model identifiers are realised by parameter sets that give visibly different fields (for states that differ only in "
               "anisotropy / rotation: visibly different isometrized positions, and — Fourier, anisotropy ratios — mode grids)",
               "a freshly constructed SRF (new model object, same parameter values, same integer seed) is the reference for 'what a fresh generator gives'"]

GENS = ["RandMeth", "IncomprRandMeth", "Fourier"]
MODELS = [dict(var=1.0, len_scale=2.0), dict(var=2.0, len_scale=2.0), dict(var=1.0, len_scale=3.5), dict(var=0.5, len_scale=1.25)]
# families of model states realising the four abstract model identifiers of the bookkeeping model: the in-place change between two
# identifiers may touch ONLY an optional shape argument, ONLY the anisotropy / rotation, or the rescale factor
FAMILIES = {
    "gau": ("Gaussian", MODELS),
    "stable": ("Stable", [dict(var=1.0, len_scale=2.0, alpha=1.5), dict(var=1.0, len_scale=2.0, alpha=0.9),
                          dict(var=1.0, len_scale=3.5, alpha=1.5), dict(var=0.5, len_scale=2.0, alpha=2.0)]),
    "matern": ("Matern", [dict(var=1.0, len_scale=2.0, nu=1.5), dict(var=1.0, len_scale=2.0, nu=0.6),
                          dict(var=2.0, len_scale=2.0, nu=1.5), dict(var=1.0, len_scale=2.0, nu=1.5, rescale=2.0)]),
    "tpl": ("TPLStable", [dict(var=1.0, len_scale=2.0, hurst=0.5, alpha=1.5), dict(var=1.0, len_scale=2.0, hurst=0.8, alpha=1.5),
                          dict(var=1.0, len_scale=2.0, hurst=0.5, alpha=0.8), dict(var=1.0, len_scale=2.0, hurst=0.5, alpha=1.5, len_low=0.5)]),
    "aniso": ("Exponential", [dict(var=1.0, len_scale=2.0, anis=1.0, angles=0.0), dict(var=1.0, len_scale=2.0, anis=0.5, angles=0.0),
                              dict(var=1.0, len_scale=2.0, anis=0.5, angles=0.7), dict(var=1.0, len_scale=2.0, anis=2.5, angles=-0.4)]),
}


NUGGETS = [0.0, 0.3, 0.7]           # nugget levels of the bookkeeping model (0 = no nugget)


def nug_level(x):
    return int(x)                    # True/False or 0..2


def vec_dim(gen, dim):
    return dim if gen == "IncomprRandMeth" else 1


def make_psets(rng, gen, dim, n):
    """Position sets of one history.  Set 0 is the ordinary small-coordinate cloud (also used by the direct generator calls).
    The others: same shape as set 0 resp. as the structured set, located at a magnitude 1e-3 … 1e7 and differing from each other
    by a shift of relative size 1e-12 … 1e-2 (a few metres at UTM coordinates, tiny shifts near the origin), as unstructured and
    as structured meshes; an equal-valued copy of a set (new array / list object) carries the same identifier.
    Each entry: dict(id, mesh, pos, npts)."""
    p0 = rng.uniform(0, 10, size=(dim, n))
    sets = [dict(id=0, mesh="unstructured", pos=p0, npts=n)]
    mag = 10.0 ** rng.uniform(-3, 7)
    centre = mag * rng.uniform(0.3, 1.0, size=dim) * rng.choice([-1.0, 1.0], size=dim)
    spread = mag * 10.0 ** rng.uniform(-5, 0)
    pu = centre[:, None] + rng.uniform(0, spread, size=(dim, n))
    ks = [int(rng.randint(2, 4)) for _ in range(dim)]
    if dim == 1 and rng.rand() < 0.5:
        ks = [n]                        # same number of values in both mesh types
    ax = [np.sort(centre[d] + rng.uniform(0, spread, size=ks[d])) for d in range(dim)]
    nid = 1
    for base, mesh in ((pu, "unstructured"), (ax, "structured")):
        for v in range(int(rng.randint(1, 4))):
            rel = 0.0 if v == 0 else 10.0 ** rng.uniform(-12, -2)
            shift = rel * mag * rng.choice([-1.0, 1.0], size=dim) * (rng.rand(dim) < 0.7)
            if v and not shift.any():
                shift[int(rng.randint(0, dim))] = rel * mag
            if mesh == "unstructured":
                pos = base + shift[:, None]
                if v and np.array_equal(pos, base):
                    continue
                npts = n
            else:
                pos = tuple(a + shift[d] for d, a in enumerate(base))
                if v and all(np.array_equal(a, b) for a, b in zip(pos, base)):
                    continue
                npts = int(np.prod(ks))
            sets.append(dict(id=nid, mesh=mesh, pos=pos, npts=npts, rel=rel, mag=mag))
            nid += 1
    if dim == 1 and ks == [n] and rng.rand() < 0.7:    # the SAME values requested with the other mesh type
        sets.append(dict(id=nid, mesh="structured", pos=(pu[0].copy(),), npts=n, rel=0.0, mag=mag))
        nid += 1
    # the SAME coordinate arrays (one tuple of equally long 1-D arrays, the same objects) requested with both mesh types: as axes of a
    # grid and as the rows of a point list
    if rng.rand() < 0.5:
        k = int(rng.randint(2, 4))
        same = tuple(np.sort(centre[d] + rng.uniform(0, spread, size=k)) for d in range(dim))
        sets.append(dict(id=nid, mesh="structured", pos=same, npts=k ** dim, rel=0.0, mag=mag, shared=True))
        sets.append(dict(id=nid + 1, mesh="unstructured", pos=same, npts=k, rel=0.0, mag=mag, shared=True))
        nid += 2
    # equal-valued copies (same identifier, different objects / container types)
    for e in list(sets[:3]):
        if rng.rand() < 0.5:
            c = dict(e)
            c["pos"] = [np.array(a, copy=True).tolist() for a in e["pos"]] if rng.rand() < 0.5 else \
                (np.array(e["pos"], copy=True) if e["mesh"] == "unstructured" else tuple(np.array(a, copy=True) for a in e["pos"]))
            sets.append(c)
    return sets


def pos_arrays(e, dim):
    """the exact arrays `Field.pos` must hold for position set e"""
    if e["mesh"] == "unstructured":
        return np.asarray(e["pos"], dtype=np.double).reshape(dim, -1)
    return tuple(np.asarray(a, dtype=np.double).reshape(-1) for a in e["pos"])


def stored_pos_ok(srf, e, dim):
    want = pos_arrays(e, dim)
    if srf.mesh_type != e["mesh"]:
        return False
    got = srf.pos
    if e["mesh"] == "unstructured":
        return bool(np.shape(got) == want.shape and np.array_equal(np.asarray(got), want))
    return bool(len(got) == len(want) and all(np.array_equal(np.asarray(a), b) for a, b in zip(got, want)))


def _first_with(states, mid, drop):
    key = lambda st: sorted((k, repr(v)) for k, v in st.items() if k not in drop)
    full = [dict(dict(anis=1.0, angles=0.0), **st) for st in states]
    return [key(st) for st in full].index(key(full[mid]))


def generator_class(gen, fam, mid):
    """states of a family that give the same GENERATOR (for the same seed and mode number): the randomization methods do not
    see anisotropy and rotation (they act on the positions), the Fourier mode grid sees the anisotropy ratios"""
    return _first_with(FAMILIES[fam][1], mid, ("angles",) if gen == "Fourier" else ("anis", "angles"))


def geometry_class(fam, mid):
    """states of a family with the same isometrization"""
    states = [dict(dict(anis=1.0, angles=0.0), **st) for st in FAMILIES[fam][1]]
    key = lambda st: (repr(st["anis"]), repr(st["angles"]))
    return [key(st) for st in states].index(key(states[mid]))


def seed_object(rng, value):
    """equal values, differing identities"""
    if value is None:
        return None
    k = rng.randint(0, 3)
    if k == 0:
        return int(value)
    if k == 1:
        return int(str(value))            # a fresh int object for large values
    return np.int64(value)


def make_srf(gen, mid, nug, seed, mode_no, dim, fam="gau"):
    import gstools as gs
    cls, states = FAMILIES[fam]
    kw = dict(states[mid])
    model = getattr(gs, cls)(dim=dim, nugget=NUGGETS[nug_level(nug)], **kw)
    if gen == "RandMeth":
        return gs.SRF(model, seed=seed, mode_no=mode_no)
    if gen == "IncomprRandMeth":
        return gs.SRF(model, generator="IncomprRandMeth", seed=seed, mode_no=mode_no, mean_velocity=0.5)
    return gs.SRF(model, generator="Fourier", seed=seed, mode_no=[mode_no] * dim, period=[16.0] * dim)


def draw_pset(rng, npos, p_other, p_reuse=0.3):
    """index of the position set of a field-level call; None = NO position argument (the stored positions are evaluated again)"""
    if rng.rand() < p_reuse:
        return None
    return int(rng.randint(0, npos)) if rng.rand() < p_other else 0


def gen_history(rng, gen, length, npos=1):
    ops = _gen_history(rng, gen, length, npos)
    has_pos = False
    for o in ops:                       # the malformed case (no positions stored yet) is kept, but rare
        if o["k"] == "set_pos" or (o["k"] == "srf_call" and o["pset"] is not None):
            has_pos = True
        elif o["k"] == "srf_call" and not has_pos and rng.rand() < 0.85:
            o["pset"] = int(rng.randint(0, npos))
            has_pos = True
    return ops


def _gen_history(rng, gen, length, npos=1):
    ops = []
    for _ in range(length):
        r = rng.rand()
        if r < 0.06:
            ops.append({"k": "set_pos", "pset": int(rng.randint(0, npos))})
        elif r < 0.45:
            s = rng.choice(["keep", "keep", "none", "int", "int", "int"])
            o = {"k": "srf_call", "n": 0, "pset": draw_pset(rng, npos, 0.75)}
            if s == "keep":
                o["seed"] = "keep"
            elif s == "int":
                o["seed"] = int(rng.choice([7, 7, 7, 1000000007, 12]))
            ops.append(o)
        elif r < 0.65:
            q = rng.rand()
            if q < 0.35:      # only the nugget changes (on / off / another positive value)
                ops.append({"k": "model", "id": "same", "nug": int(rng.randint(0, 3))})
            elif q < 0.6:     # everything but the nugget changes, the nugget stays
                ops.append({"k": "model", "id": int(rng.randint(0, len(MODELS))), "nug": "same"})
            else:
                ops.append({"k": "model", "id": int(rng.randint(0, len(MODELS))), "nug": int(rng.choice([0, 0, 1, 1, 2]))})
            if rng.rand() < 0.6:  # … and the next field-level call sees it (mostly without a new seed value)
                o = {"k": "srf_call", "n": 0, "pset": draw_pset(rng, npos, 0.5, 0.45)}
                s = rng.choice(["keep", "keep", "keep", "int", "none"])
                if s == "keep":
                    o["seed"] = "keep"
                elif s == "int":
                    o["seed"] = 7
                ops.append(o)
        elif r < 0.75:
            o = {"k": "gen_seed"}
            if rng.rand() < 0.8:
                o["s"] = int(rng.choice([7, 1000000007, 12]))
            ops.append(o)
        elif r < 0.83 and gen != "Fourier":
            ops.append({"k": "gen_mode_no", "n": int(rng.choice([16, 24]))})
        elif r < 0.90:
            o = {"k": "gen_reset"}
            s = rng.choice(["keep", "none", "int"])
            if s == "keep":
                o["seed"] = "keep"
            elif s == "int":
                o["seed"] = int(rng.choice([7, 12]))
            ops.append(o)
        else:
            ops.append({"k": "gen_call", "n": 0, "nugget": bool(rng.rand() < 0.6)})
        if ops[-1]["k"] in ("gen_seed", "gen_mode_no", "gen_reset") and rng.rand() < 0.4:
            # a generator setting was changed: the next field-level call often has no position argument
            ops.append({"k": "srf_call", "n": 0, "pset": draw_pset(rng, npos, 0.5, 0.7), "seed": "keep"})
    return ops


def resolve_history(ops, m0, nug0, psets, vd, n0):
    """fill in what depends on the running state: 'same' model id / nugget level, number of variates of each call"""
    mid, nug = m0, nug0
    at = None                        # index of the position set stored on the field object (the harness's own tracking)
    for o in ops:
        if o["k"] == "set_pos":
            at = o["pset"]
            o["pos"] = psets[at]["id"]
        elif o["k"] == "model":
            if o["id"] == "same":
                o["id"] = mid
            if o["nug"] == "same":
                o["nug"] = nug
            mid, nug = o["id"], o["nug"]
        elif o["k"] == "srf_call":
            if o["pset"] is not None:
                at = o["pset"]
            o["at"] = at                                         # the set this call evaluates (None: nothing stored, the call raises)
            o["n"] = psets[at]["npts"] * vd if at is not None else 0
            o["pos"] = psets[at]["id"] if o["pset"] is not None else None      # what the model is told: the given set or "no argument"
        elif o["k"] == "gen_call":
            o["n"] = n0 * vd
    return ops


def run_real(rng, gen, dim, ops, m0, nug0, seed0, mode_no, psets, fam="gau"):
    srf = make_srf(gen, m0, nug0, seed_object(rng, seed0), mode_no, dim, fam)
    outs, fresh, stored = [], [], []
    cur = dict(mid=m0, nug=nug0)
    iso = srf.model.isometrize(psets[0]["pos"])
    for o in ops:
        k = o["k"]
        if k == "set_pos":
            e = psets[o["pset"]]
            srf.set_pos(e["pos"], e["mesh"])
        elif k == "srf_call" and o["pset"] is None:
            # no position argument: the stored positions are evaluated again (through __call__ or the mesh-type specific entry)
            kw = {}
            if o.get("seed") != "keep":
                kw["seed"] = seed_object(rng, o.get("seed"))
            e = psets[o["at"]] if o["at"] is not None else None
            q = rng.rand()
            try:
                if e is None or q < 0.5:
                    f = srf(**kw)
                elif q < 0.7:
                    f = srf(None, mesh_type=e["mesh"], **kw)
                else:
                    f = (srf.structured if e["mesh"] == "structured" else srf.unstructured)(**kw)
            except ValueError:
                f = None
            outs.append(None if f is None else np.array(f, copy=True))
            fr = None
            if f is not None:
                sd = srf.generator.seed
                mn = srf.generator.mode_no if gen != "Fourier" else int(srf.generator.mode_no[0])
                if sd is not None and not cur["nug"]:
                    fr = make_srf(gen, cur["mid"], 0, int(sd), mn, dim, fam)(e["pos"], mesh_type=e["mesh"])
            fresh.append(fr)
            stored.append(None if e is None else (stored_pos_ok(srf, e, dim), srf.mesh_type))
        elif k == "srf_call":
            e = psets[o["pset"]]
            kw = dict(mesh_type=e["mesh"])
            if e["mesh"] == "unstructured" and rng.rand() < 0.5:
                kw = {}                                        # the default mesh type
            if o.get("seed") != "keep":
                kw["seed"] = seed_object(rng, o.get("seed"))
            f = srf(e["pos"], **kw)
            outs.append(np.array(f, copy=True))
            sd = srf.generator.seed
            mn = srf.generator.mode_no if gen != "Fourier" else int(srf.generator.mode_no[0])
            fr = None
            if sd is not None and not cur["nug"]:
                fr = make_srf(gen, cur["mid"], 0, int(sd), mn, dim, fam)(e["pos"], mesh_type=e["mesh"])
            fresh.append(fr)
            stored.append((stored_pos_ok(srf, e, dim), srf.mesh_type))
        elif k == "model":
            cur = dict(mid=o["id"], nug=o["nug"])
            st = dict(FAMILIES[fam][1][o["id"]])
            st.setdefault("rescale", FAMILIES[fam][1][0].get("rescale", srf.model.rescale) if fam == "matern" else srf.model.rescale)
            if fam == "matern":
                st["rescale"] = FAMILIES[fam][1][o["id"]].get("rescale", 1.0)
            if fam == "tpl":
                st["len_low"] = FAMILIES[fam][1][o["id"]].get("len_low", 0.0)
            via_list = fam == "aniso" and rng.rand() < 0.4
            for name in sorted(st, key=lambda a: (a == "var", a)):    # var last (TPL models: var follows the intensity)
                setattr(srf.model, name, st[name])
            if via_list:
                # the same state reached by giving the length scales per axis (`len_scale = [l_0, l_1, ...]` sets the anisotropy)
                tgt = np.array(srf.model.anis, copy=True)
                ls = float(srf.model.len_scale)
                srf.model.anis = 1.0
                srf.model.len_scale = [ls] + [ls * float(a) for a in tgt]
                if not (np.array_equal(srf.model.anis, tgt) and float(srf.model.len_scale) == ls):   # inexact quotient: not this route
                    srf.model.anis = tgt
                    srf.model.len_scale = ls
            srf.model.nugget = NUGGETS[nug_level(o["nug"])]
        elif k == "gen_seed":
            srf.generator.seed = seed_object(rng, o.get("s"))
        elif k == "gen_mode_no":
            srf.generator.mode_no = o["n"]
        elif k == "gen_reset":
            if o.get("seed") == "keep":
                srf.generator.reset_seed()
            else:
                srf.generator.reset_seed(seed_object(rng, o.get("seed")))
        elif k == "gen_call":
            f = srf.generator(iso, add_nugget=o["nugget"])
            outs.append(np.array(f, copy=True))
            fresh.append(None)
            stored.append(None)
    return outs, fresh, stored, iso


def expected_output(cache, gen, dim, fam, rec, o, psets, iso):
    """What the bookkeeping model predicts, built on a FRESH object: a new SRF with the predicted model state, seed and mode
    number, on which the predicted number of noise draws since the last restart of the stream is replayed (calls of other
    shapes at other positions), evaluated like the call `o`.  None for random (`None`) seeds."""
    if rec["seed"] is None:
        return None
    key = (rec["model"], rec["nug"], rec["seed"], rec["mode_no"], rec["burn"] if rec["nug"] else 0, o["k"], o.get("at"), o.get("nugget"))
    if key not in cache:
        f = make_srf(gen, rec["model"], rec["nug"], int(rec["seed"]), rec["mode_no"], dim, fam)
        if rec["nug"]:
            for j in range(rec["burn"]):
                if j % 2:
                    f.generator(np.full((dim, 1 + j % 3), 0.25), add_nugget=True)
                else:
                    f(np.full((dim, 1 + j % 3), 0.5))
        if o["k"] == "srf_call":
            e = psets[o["at"]]
            cache[key] = np.array(f(e["pos"], mesh_type=e["mesh"]), copy=True)
        else:
            cache[key] = np.array(f.generator(iso, add_nugget=o["nugget"]), copy=True)
    return cache[key]


def compare_history(ctx, case, r, dist, dis, distinct):
    """run one history on the real objects and compare it with the driver's answer r"""
    gen, dim, ops, m0, nug0, seed0, mn, psets, fam = case
    if isinstance(r, dict) and "error" in r:
        dis.append({"what": "driver error " + r["error"]})
        return
    irng = np.random.RandomState(ctx.seed + 5)
    outs, fresh, stored, iso = run_real(irng, gen, dim, ops, m0, nug0, seed0, mn, psets, fam)
    dist["family:" + fam] = dist.get("family:" + fam, 0) + 1
    dist["pos_sets"] += len(psets)
    if len(outs) != len(r):
        dis.append({"what": "number of generating calls differs", "ops": ops})
        return
    bad = None
    callops = [o for o in ops if o["k"] in ("srf_call", "gen_call")]
    byid = {}
    for e in psets:
        byid.setdefault(e["id"], e)
    # position class of an output: the position set it was asked for; the direct generator calls use the isometrized
    # set 0 of the initial model.  A model state acts on an output in two ways: through the generator (modes, variance,
    # Fourier mode grid) and through the isometrized positions (anisotropy, rotation).  The token is therefore
    # (generator-level class of the state, geometry class of the state whose isometrization was applied): for the families
    # whose states differ in var / len_scale / shape arguments this is the state identifier itself, for the family that
    # differs ONLY in anisotropy / rotation the randomization generators are the same for all states.
    def pclass(o):
        return (psets[o["at"]]["id"] if o["at"] is not None else None) if o["k"] == "srf_call" else 0

    def token(o, x):
        if "error" in x:
            return ("error", x["error"])
        f = list(x["out"]["field"])
        geom = geometry_class(fam, f[0] if o["k"] == "srf_call" else m0)
        f[0] = generator_class(gen, fam, f[0])
        return (tuple(f), None if x["out"]["noise"] is None else tuple(x["out"]["noise"]) + (x["out"]["nug"],), geom)
    toks = [(token(o, x), pclass(o)) for o, x in zip(callops, r)]
    # non-finite outputs (a numerically negative spectrum under the square root of the Fourier spectrum factor) carry
    # no information about determinism or locality: counted, not compared
    finite = [a is not None and bool(np.all(np.isfinite(a))) for a in outs]
    cache = {}
    for i in range(len(outs)):
        o = callops[i]
        dist["calls"] += 1
        # a call without position argument on an object that has no positions yet raises — in the model and in the code
        if ("error" in r[i]) != (outs[i] is None):
            bad = {"what": f"{gen}: field-level call without position argument: the code " +
                           ("raised ValueError" if outs[i] is None else "returned a field") + ", the bookkeeping model says " +
                           (f"error {r[i]['error']}" if "error" in r[i] else "a field at the stored positions"), "call": i, "op": o}
            break
        if outs[i] is None:
            dist["calls_raising_no_pos"] += 1
            continue
        if not finite[i]:
            dist["nonfinite_outputs"] += 1
        if o["k"] == "srf_call":
            e = psets[o["at"]]
            dist["calls_at_shifted_pos"] += int(bool(e.get("rel")))
            dist["calls_structured"] += int(e["mesh"] == "structured")
            dist["calls_reusing_stored_pos"] += int(o["pset"] is None)
            dist["calls_shared_coordinate_arrays"] += int(bool(e.get("shared")))
            # the positions: the model says which set the output belongs to and which set is stored afterwards — for a call without
            # position argument the set stored by the last call with one / by set_pos
            dist["stored_pos_checked"] += 1
            sid = r[i]["stored_pos"]
            if r[i]["out"]["pos"] != e["id"] or sid not in byid or not stored_pos_ok_result(stored[i], byid[sid], e):
                bad = {"what": f"{gen}: the positions stored on the field object after a call are not the given ones (for a call without "
                               "position argument: not the ones stored before) (bookkeeping model: the given set is stored and kept)",
                       "call": i, "pset": o["pset"], "evaluated_set": o["at"],
                       "mesh_type_now": stored[i][1], "rel_shift": e.get("rel"), "magnitude": e.get("mag")}
                break
        # against a freshly built object (nugget-free, integer seed): must be identical
        if fresh[i] is not None and finite[i]:
            dist["fresh_compared"] += 1
            model_says = tuple(r[i]["out"]["field"]) == tuple(r[i]["fresh"])
            real_says = bool(np.array_equal(outs[i], fresh[i]))
            if model_says != real_says:
                bad = {"what": f"{gen}: field vs freshly built object disagrees with the bookkeeping model", "call": i,
                       "real_equal": real_says, "model_equal": model_says}
                break
        # the model's complete prediction (modes, noise stream position, positions) realised on a fresh object
        rec = r[i]["recipe"]
        exp = expected_output(cache, gen, dim, fam, rec, o, psets, iso) if finite[i] else None
        if exp is not None:
            dist["replay_compared"] += 1
            dist["replay_with_noise"] += int(r[i]["out"]["noise"] is not None)
            dist["replay_with_burn"] += int(r[i]["out"]["noise"] is not None and rec["burn"] > 0)
            if not (exp.shape == outs[i].shape and np.array_equal(outs[i], exp)):
                bad = {"what": f"{gen}: output differs from the one predicted by the bookkeeping model — a freshly built object "
                               "(predicted model state, seed, mode number) after the predicted number of noise draws since the "
                               "last restart of the stream, evaluated at the requested positions", "call": i,
                       "recipe": rec, "with_noise": r[i]["out"]["noise"] is not None, "op": o,
                       "max_abs_diff": float(np.max(np.abs(outs[i] - exp))) if exp.shape == outs[i].shape else "shape",
                       "reuses_stored_pos": o["k"] == "srf_call" and o["pset"] is None,
                       "rel_shift": psets[o["at"]].get("rel") if o["k"] == "srf_call" else None}
                break
        for jx in range(i):
            if toks[i][1] != toks[jx][1] or not (finite[i] and finite[jx]):
                continue          # different position sets: each is compared with its own fresh evaluation above
            dist["pairs"] += 1
            same_tok = toks[i] == toks[jx]
            same_real = bool(outs[i].shape == outs[jx].shape and np.array_equal(outs[i], outs[jx]))
            if same_tok != same_real:
                bad = {"what": f"{gen}: equality pattern of outputs differs from the bookkeeping model", "calls": [jx, i],
                       "real_equal": same_real, "tokens": [toks[jx], toks[i]]}
                break
        if bad:
            break
    if bad:
        bad.update(ops=ops, init=dict(model=m0, nug=nug0, seed=seed0, mode_no=mn), gen=gen, dim=dim, family=fam,
                   psets=[dict(id=e["id"], mesh=e["mesh"], npts=e["npts"], pos=[np.asarray(a).tolist() for a in e["pos"]]) for e in psets])
        dis.append(bad)
    dist["model_changes_nugget_only"] += sum(1 for a, b in zip([dict(id=m0, nug=nug0)] + [o for o in ops if o["k"] == "model"],
                                                              [o for o in ops if o["k"] == "model"])
                                             if a["id"] == b["id"] and a["nug"] != b["nug"])
    distinct.add((gen, fam, tuple(o["k"] for o in ops)))


def correspondence(ctx):
    res_k = kernels.kernel_correspondence(ctx, ["summate", "summate_fourier", "summate_incompr"], ctx.scale(10, 120), big=not ctx.quick)
    rng = np.random.RandomState(ctx.seed + 1111)
    H = ctx.scale(120, 600)
    cases, opsl = [], []
    for h in range(H):
        gen = GENS[h % 3]
        dim = int(rng.randint(2, 4)) if gen == "IncomprRandMeth" else int(rng.randint(1, 4))
        n = int(rng.randint(2, 6))
        psets = make_psets(rng, gen, dim, n)
        ops = gen_history(rng, gen, int(rng.randint(3, ctx.scale(12, 40))), len(psets))
        m0, nug0 = int(rng.randint(0, len(MODELS))), int(rng.choice([0, 0, 1, 1, 2]))
        resolve_history(ops, m0, nug0, psets, vec_dim(gen, dim), n)
        seed0 = None if rng.rand() < 0.15 else int(rng.choice([7, 1000000007, 12]))
        mn = int(rng.choice([16, 24]))
        if gen == "Fourier":           # modes per axis: keep the grid (mn**dim modes, numerical spectra) affordable
            mn = {1: mn, 2: mn // 2, 3: mn // 4}[dim]
        # the TPL family is ~10x as expensive to construct as the others: drawn less often
        fams = ["gau", "gau", "gau", "stable", "stable", "matern", "matern", "tpl"] + (["aniso"] * 3 if (dim > 1 and gen != "IncomprRandMeth") else [])
        fam = str(fams[int(rng.randint(0, len(fams)))]) if h >= 3 else "gau"
        cases.append((gen, dim, ops, m0, nug0, seed0, mn, psets, fam))
        d = {"op": "gen_history", "model": m0, "nug": nug0, "mode_no": mn, "ops": ops}
        if seed0 is not None:
            d["seed0"] = seed0
        opsl.append(d)
    res = run_driver(opsl)
    dis, distinct = list(res_k["disagreements"]), set()
    dist = dict(res_k["distribution"])
    dist.update(calls=0, calls_reusing_stored_pos=0, calls_raising_no_pos=0, calls_shared_coordinate_arrays=0, fresh_compared=0, pairs=0, replay_compared=0, replay_with_noise=0, replay_with_burn=0,
                stored_pos_checked=0, pos_sets=0, nonfinite_outputs=0, calls_at_shifted_pos=0, calls_structured=0, model_changes_nugget_only=0)
    with warnings.catch_warnings():
        warnings.simplefilter("ignore")
        for case, r in zip(cases, res):
            compare_history(ctx, case, r, dist, dis, distinct)
    # generate_grid / C-order index decoding vs Model/Grid.lean (Grid.structured_eq_unstructured, C11Grid), exact
    grid = gridtie.grid_correspondence(ctx)
    dis = grid["disagreements"][:3] + dis
    dist["grid_evaluations"] = grid["evaluations"]
    return {"evaluations": res_k["evaluations"] + dist["calls"] + grid["evaluations"],
            "distinct_nontrivial": res_k["distinct_nontrivial"] + len(distinct) + grid["distinct"],
            "rule": res_k["rule"] + " || " + grid["rule"] + " || histories on real SRF objects (RandMeth, IncomprRandMeth, Fourier): field-level calls with seeds of "
                    "differing object identity (int, fresh big int, np.int64, None, keep) at position sets of one shape that differ by relative "
                    "shifts 1e-12…1e-2 at magnitudes 1e-3…1e7 (unstructured and structured, equal-valued copies, mesh-type switches, the same "
                    "coordinate arrays under both mesh types), field-level calls WITHOUT position argument (srf(), srf(None, mesh_type), "
                    ".structured() / .unstructured(); on an object without positions: ValueError in model and code), set_pos, "
                    "in-place model changes (nugget on/off/other value alone, everything but the nugget, both; model families "
                    "Gaussian, Stable, Matern, TPLStable, anisotropic+rotated Exponential whose states differ only in var, an optional shape argument, "
                    "rescale, len_low, anisotropy or angles — anisotropy also via a per-axis len_scale list), "
                    "generator seed / mode_no setters, reset_seed, direct generator calls; compared: (a) every output with an integer seed, nugget "
                    "noise included, bit for bit against a freshly built object realising the model's prediction (model state, seed, mode number, "
                    "number of noise draws since the last restart of the stream, position set — for a call without position argument the set the "
                    "model says is stored); (b) the stored positions / mesh type against the model's stored set; (c) equality pattern of all outputs at one position set against the model's tokens; (d) each nugget-free "
                    "output against a fresh object built from the harness's own tracking",
            "samples": [c[2] for c in cases[:2]] + res_k["samples"][:2], "disagreements": dis[:6], "distribution": dist}


def stored_pos_ok_result(st, model_entry, asked_entry):
    """st = (real stored pos equals the ASKED set exactly, real mesh type); the model's stored set must be the asked one"""
    return bool(st[0]) and model_entry["id"] == asked_entry["id"] and st[1] == asked_entry["mesh"]


def search(ctx, deep=False):
    import gstools as gs
    rng = np.random.RandomState(ctx.seed + 11)
    N = ctx.scale(30, 250) * (3 if deep else 1)
    viol, ev = [], 0
    with warnings.catch_warnings():
        warnings.simplefilter("ignore")
        for t in range(N):
            gen = GENS[t % 3]
            dim = int(rng.randint(2, 4)) if gen == "IncomprRandMeth" else int(rng.randint(1, 4))
            seed = int(rng.choice([3, 10**9 + 7, 77]))
            kw = {}
            if dim > 1 and gen != "IncomprRandMeth" and rng.rand() < 0.6:
                kw = dict(anis=[float(a) for a in rng.choice([0.5, 2.0], size=dim - 1)],
                          angles=[float(a) for a in rng.uniform(-1, 1, size=dim * (dim - 1) // 2)])
            model = gs.Exponential(dim=dim, var=1.5, len_scale=2.0, **kw)
            mk = lambda s=seed: make_gen_srf(gs, gen, model, s, dim)
            n = int(rng.randint(3, 9))
            pos = rng.uniform(0, 10, size=(dim, n))
            base = mk()(pos)
            # rotated / anisotropic models go through a BLAS product whose rounding depends on the batch shape
            # (gemv vs gemm): compare those within 1e-10, everything else bit for bit
            if kw:
                same = lambda x, y: bool(np.allclose(x, y, rtol=0, atol=1e-10))
            else:
                same = lambda x, y: bool(np.array_equal(x, y))
            desc = dict(gen=gen, dim=dim, seed=seed, pos=pos.tolist(), model=repr(model))
            ev += 1
            # permutation
            p = rng.permutation(n)
            if not same(mk()(pos[:, p]), base[..., p]):
                viol.append({"key": f"locality:permutation:{gen}", "what": "field depends on the order of the points", "case": desc})
            # subset / split / batching
            k = int(rng.randint(1, n))
            a, b = mk()(pos[:, :k]), mk()(pos[:, k:])
            if not same(np.concatenate([a, b], axis=-1), base):
                viol.append({"key": f"locality:split:{gen}", "what": "field depends on batching / which other points are requested", "case": desc})
            # history independence (nugget free): generate something else first
            s = mk()
            s(rng.uniform(0, 5, size=(dim, 4)))
            if not same(s(pos), base):
                viol.append({"key": f"locality:history:{gen}", "what": "nugget-free field depends on what was generated before", "case": desc})
            # storage name
            s = mk()
            if not same(s(pos, store="other_name"), base):
                viol.append({"key": f"locality:store-name:{gen}", "what": "field depends on the storage name", "case": desc})
            # structured = unstructured on the expanded grid
            axes = [np.sort(rng.uniform(0, 10, size=int(rng.randint(2, 4)))) for _ in range(dim)]
            g = np.array(np.meshgrid(*axes, indexing="ij")).reshape(dim, -1)
            fs = mk()(axes, mesh_type="structured")
            fu = mk()(g)
            ev += 1
            if not same(np.reshape(fs, fu.shape), fu):
                viol.append({"key": f"locality:mesh-type:{gen}", "what": "structured evaluation differs from the expanded point list", "case": desc})
            # seed identity: equal values, different objects, nugget noise included
            modeln = gs.Exponential(dim=dim, var=1.5, len_scale=2.0, nugget=0.4, **kw)
            outs = []
            for sobj in (int(seed), int(str(seed)), np.int64(seed)):
                s = make_gen_srf(gs, gen, modeln, sobj, dim)
                o1 = s(pos, seed=sobj)
                o2 = s(pos, seed=type(sobj)(seed) if not isinstance(sobj, int) else int(str(seed)))
                outs.append((o1, o2))
            ev += 1
            if not all(np.array_equal(outs[0][0], o[0]) and np.array_equal(outs[0][1], o[1]) for o in outs[1:]):
                viol.append({"key": f"seed-identity:{gen}", "what": "equal seed values of different object identity give different results (nugget noise history)",
                             "case": desc})
        ev += search_pos_history(gs, np.random.RandomState(ctx.seed + 211), ctx.scale(90, 600) * (3 if deep else 1), viol)
        ev += search_noise_history(gs, np.random.RandomState(ctx.seed + 311), ctx.scale(90, 600) * (3 if deep else 1), viol)
        ev += search_stored_pos(gs, np.random.RandomState(ctx.seed + 411), ctx.scale(120, 900) * (3 if deep else 1), viol)
        ev += search_output_paths(gs, np.random.RandomState(ctx.seed + 511), ctx.scale(45, 400) * (3 if deep else 1), viol)
        ev += search_high_dim(gs, np.random.RandomState(ctx.seed + 611), ctx.scale(10, 80) * (2 if deep else 1), viol)
        import threadcfg
        e7, v7 = threadcfg.api_thread_sweep(ctx, ("randmeth", "fourier", "incompr"), ctx.scale(4, 30))
        ev += e7
        viol += v7
        e8, v8 = threadcfg.api_copies_and_sizes(ctx, ("randmeth", "fourier", "incompr"), ctx.scale(2, 8))
        ev += e8
        viol += v8
    seen, out = set(), []
    for v in viol:                      # one representative per key first, so that no class is crowded out
        if v["key"] not in seen:
            seen.add(v["key"])
            out.append(v)
    out += [v for v in viol if all(v is not w for w in out)]
    return {"evaluations": ev, "violations": out[:8],
            "summary": "real SRF (three generators, anisotropic/rotated models): permutation, split, history, storage name, structured vs expanded grid, "
                       "seed object identity with nugget noise; consecutive calls of ONE object at equal-shaped position sets differing by relative "
                       "shifts 1e-12…1e-2 at magnitudes 1e-3…1e7 (unstructured / structured / mesh-type switches) vs a fresh object, the stored "
                       "positions and a direct generator evaluation; nugget-noise histories (calls, then an in-place change of nothing / var / nugget / "
                       "anis / angles / len_scale / a change and its restoration / the same seed value again) vs a fresh object with the noise "
                       "stream replayed; calls WITHOUT position argument (srf(), srf(seed=s), .structured() / .unstructured()) after positions were "
                       "stored by a call or set_pos and then the model geometry (anis, angles, len_scale scalar / per-axis list), var, the model "
                       "object, the generator seed / mode_no / period or the stored set / its mesh type (same coordinate arrays) were changed, vs a "
                       "brand-new object called WITH the positions; every output path of one field (named store, .unstructured, .structured, "
                       "meshio mesh point_data and cell_data with 1-4 cell blocks of mixed cell types and any `direction`, vtk export arrays of "
                       "both mesh types) vs the plain unstructured call of a fresh object at the same points"}


def expand(pos, mesh, dim):
    if mesh == "unstructured":
        return np.asarray(pos, dtype=np.double).reshape(dim, -1)
    return np.array(np.meshgrid(*pos, indexing="ij")).reshape(dim, -1)


def search_pos_history(gs, rng, N, viol):
    """The value at a location is a pure function of that location: a history of calls on ONE object at position sets of equal shape,
    located anywhere between 1e-3 and 1e7 and differing by relative shifts 1e-12 … 1e-2 — each output must be bit-identical to a fresh
    object that only ever saw those positions, the stored `pos` must be the given positions, and the output must be the generator
    evaluated directly at the isometrized given positions."""
    ev = 0
    for t in range(N):
        gen = GENS[t % 3]
        dim = int(rng.randint(2, 4)) if gen == "IncomprRandMeth" else int(rng.randint(1, 4))
        seed = int(rng.choice([3, 10**9 + 7, 77]))
        mag = 10.0 ** rng.uniform(-3, 7)
        L = mag * 10.0 ** rng.uniform(-5.5, 0)
        kw = {}
        if dim > 1 and gen != "IncomprRandMeth" and rng.rand() < 0.4:
            kw = dict(anis=[float(a) for a in rng.choice([0.5, 2.0], size=dim - 1)],
                      angles=[float(a) for a in rng.uniform(-1, 1, size=dim * (dim - 1) // 2)])
        cls = gs.Gaussian if rng.rand() < 0.5 else gs.Exponential
        model = cls(dim=dim, var=1.5, len_scale=L, **kw)

        def mk():
            if gen == "RandMeth":
                return gs.SRF(model, seed=seed, mode_no=32)
            if gen == "IncomprRandMeth":
                return gs.SRF(model, generator="IncomprRandMeth", seed=seed, mode_no=32, mean_velocity=0.5)
            return gs.SRF(model, generator="Fourier", seed=seed, mode_no=[8] * dim, period=[8.0 * L] * dim)
        n = int(rng.randint(2, 8))
        centre = mag * rng.uniform(0.3, 1.0, size=dim) * rng.choice([-1.0, 1.0], size=dim)
        spread = min(mag, L * 10.0 ** rng.uniform(0, 2))
        pu = centre[:, None] + rng.uniform(0, spread, size=(dim, n))
        ks = [n] if (dim == 1 and rng.rand() < 0.5) else [int(rng.randint(2, 4)) for _ in range(dim)]
        ax = tuple(np.sort(centre[d] + rng.uniform(0, spread, size=ks[d])) for d in range(dim))
        calls = []
        for _ in range(int(rng.randint(2, 6))):
            mesh = "structured" if rng.rand() < 0.4 else "unstructured"
            rel = 0.0 if rng.rand() < 0.15 else 10.0 ** rng.uniform(-12, -2)
            shift = rel * mag * rng.choice([-1.0, 1.0], size=dim) * (rng.rand(dim) < 0.7)
            if rel and not shift.any():
                shift[int(rng.randint(0, dim))] = rel * mag
            if mesh == "unstructured":
                pos = pu + shift[:, None]
            elif dim == 1 and ks == [n] and rng.rand() < 0.5:
                pos = (np.sort(pu[0]) + shift[0],)          # the unstructured values on the other mesh type
            else:
                pos = tuple(a + shift[d] for d, a in enumerate(ax))
            calls.append((mesh, pos, rel))
        srf = mk()
        for ci, (mesh, pos, rel) in enumerate(calls):
            ev += 1
            out = np.array(srf(pos, mesh_type=mesh), copy=True)
            ref = mk()(pos, mesh_type=mesh)
            desc = dict(gen=gen, dim=dim, seed=seed, model=repr(model), call=ci, magnitude=mag, rel_shift=rel,
                        history=[dict(mesh_type=m, pos=np.asarray(expand(p, m, dim)).tolist(), rel_shift=r) for m, p, r in calls[:ci + 1]])
            if not (np.all(np.isfinite(ref)) and np.all(np.isfinite(out))):
                continue
            if not (out.shape == ref.shape and np.array_equal(out, ref)):
                viol.append({"key": f"locality:pos-history:{gen}",
                             "what": "value at a location depends on the positions requested by earlier calls on the same object "
                                     f"(call {ci} at positions shifted by {rel:.1e} x magnitude {mag:.1e} differs from a fresh object at exactly these "
                                     f"positions by {float(np.max(np.abs(out - ref))) if out.shape == ref.shape else 'shape'})", "case": desc})
            want = pos_arrays(dict(mesh=mesh, pos=pos), dim)
            got = srf.pos
            ok = srf.mesh_type == mesh and (np.array_equal(np.asarray(got), want) if mesh == "unstructured" else
                                            (len(got) == len(want) and all(np.array_equal(np.asarray(a), b) for a, b in zip(got, want))))
            if not ok:
                viol.append({"key": f"locality:stored-pos:{gen}", "what": "the stored `pos` / mesh type after a call are not the given ones", "case": desc})
            direct = np.reshape(srf.generator(model.isometrize(expand(pos, mesh, dim)), add_nugget=False), out.shape)
            if not np.array_equal(out, direct):
                viol.append({"key": f"locality:generator-direct:{gen}",
                             "what": "field-level output differs from the generator evaluated directly at the isometrized given positions", "case": desc})
    return ev


CHANGES = ["none", "same-seed", "var", "nugget", "nugget-off-on", "anis", "angles", "len_scale", "var-and-back", "var-call-back"]


def search_noise_history(gs, rng, N, viol):
    """Equal histories give equal nugget noise, and after an in-place change the result is that of a freshly constructed generator:
    k calls with noise, one kind of in-place change (or none), one more call; reference = NEW model object with the final parameter
    values, NEW SRF with the same seed, on which the calls since the last visible change are replayed."""
    ev = 0
    for t in range(N):
        gen = GENS[t % 3]
        dim = int(rng.randint(2, 4)) if gen == "IncomprRandMeth" else int(rng.randint(1, 4))
        seed = int(rng.choice([3, 10**9 + 7, 77]))
        par = dict(var=1.5, len_scale=2.0, nugget=float(rng.choice([0.4, 0.05, 1.5])))
        if dim > 1:
            par.update(anis=[float(a) for a in rng.choice([0.5, 2.0], size=dim - 1)],
                       angles=[float(a) for a in rng.uniform(-1, 1, size=dim * (dim - 1) // 2)])
        cls = gs.Gaussian if rng.rand() < 0.5 else gs.Exponential
        change = CHANGES[int(rng.randint(0, len(CHANGES)))]
        if change in ("anis", "angles") and dim == 1:
            change = "var"
        mk = lambda q: make_gen_srf(gs, gen, cls(dim=dim, **q), seed, dim)
        shapes = [int(rng.randint(1, 7)) for _ in range(int(rng.randint(1, 4)))]
        pts = [rng.uniform(0, 10, size=(dim, m)) for m in shapes]
        last = rng.uniform(0, 10, size=(dim, int(rng.randint(2, 7))))
        srf = mk(par)
        for q in pts:
            srf(q)
        new, burn, kw = dict(par), list(pts), {}
        if change == "same-seed":
            kw = dict(seed=int(str(seed)))
        elif change == "nugget-off-on":
            srf.model.nugget = 0.0
            srf(pts[0])                                   # the generator sees a nugget-free model: restart, no noise drawn
            srf.model.nugget = par["nugget"]
            burn = []
        elif change == "var-and-back":
            srf.model.var = 3.0
            srf.model.var = par["var"]                    # nothing generated in between: the generator never saw a change
        elif change == "var-call-back":
            srf.model.var = 3.0
            srf(pts[0])
            srf.model.var = par["var"]
            burn = []
        elif change != "none":
            new[change] = {"var": 2.5, "nugget": par["nugget"] * 1.75, "len_scale": 3.0,
                           "anis": [a * 1.6 for a in par.get("anis", [])], "angles": [a + 0.4 for a in par.get("angles", [])]}[change]
            setattr(srf.model, change, new[change])
            burn = []
        out = np.array(srf(last, **kw), copy=True)
        ref_srf = mk(new)
        for q in burn:
            ref_srf(q)
        ref = ref_srf(last)
        ev += 1
        if not (np.all(np.isfinite(out)) and np.array_equal(out, ref)):
            viol.append({"key": f"noise-history:{gen}:{change}",
                         "what": f"after {len(pts)} noise-drawing call(s) and the in-place change '{change}' the field (nugget noise included) differs from "
                                 f"a freshly constructed generator with the same seed and settings on which {len(burn)} call(s) are replayed "
                                 f"(max abs diff {float(np.max(np.abs(out - ref))):.3e})",
                         "case": dict(gen=gen, dim=dim, seed=seed, model=cls.__name__, params=par, change=change, new_params=new,
                                      calls=[q.tolist() for q in pts], last=last.tolist())})
    return ev


def search_high_dim(gs, rng, N, viol):
    """determinism and locality in the dimensions the generic strata do not reach: dim 4 (3-D + time, lat-lon + time would be dim 3),
    dim 4 given directly, dim 5 — the n-D branches of the samplers (RNG.sample_sphere for dim > 3) and of the position handling.
    Same seed => same field (two fresh objects, re-seeding the same object), subset / permutation of the points => same values."""
    ev = 0
    for t in range(N):
        kind = ["3d+time", "dim4", "dim5", "2d+time", "latlon+time"][t % 5]
        cls = ["Gaussian", "Exponential", "Matern"][int(rng.randint(3))]
        kw = dict(var=1.3, len_scale=2.0)
        if kind == "3d+time":
            kw.update(spatial_dim=3, temporal=True, anis=[0.7, 1.4, 0.5])
        elif kind == "2d+time":
            kw.update(spatial_dim=2, temporal=True, anis=[0.7, 0.5])
        elif kind == "latlon+time":
            kw.update(latlon=True, temporal=True, geo_scale=57.29577951308232, len_scale=25.0)
        else:
            kw.update(dim=4 if kind == "dim4" else 5)
        seed = int(rng.randint(1, 10 ** 6))
        P = int(rng.randint(3, 12))
        desc = dict(kind=kind, cls=cls, seed=seed, points=P)
        try:
            with warnings.catch_warnings():
                warnings.simplefilter("ignore")
                mk = lambda: gs.SRF(getattr(gs, cls)(**kw), seed=seed, mode_no=24)
                a, b = mk(), mk()
                fdim = a.model.field_dim
                if kind == "latlon+time":
                    pos = np.vstack([rng.uniform(-80, 80, P), rng.uniform(-170, 170, P), rng.uniform(0, 10, P)])
                else:
                    pos = rng.uniform(-5, 5, size=(fdim, P))
                desc["pos"] = pos.tolist()
                fa, fb = np.array(a(pos)), np.array(b(pos))
                ev += 1
                if not np.array_equal(fa, fb):
                    viol.append({"key": f"determinism:high-dim:{kind}", "what": "two freshly built SRFs with the same seed give different fields",
                                 "case": desc})
                    continue
                a(pos, seed=seed + 1)
                fc = np.array(a(pos, seed=seed))
                if not np.array_equal(fa, fc):
                    viol.append({"key": f"determinism:high-dim:{kind}:reseed", "what": "re-seeding with the same seed does not reproduce the field",
                                 "case": desc})
                perm = rng.permutation(P)
                sub = perm[: max(1, P // 2)]
                fp = np.array(b(pos[:, perm]))
                fs = np.array(mk()(pos[:, sub]))
                if not (np.allclose(fp, fa[perm], rtol=0, atol=1e-12) and np.allclose(fs, fa[sub], rtol=0, atol=1e-12)):
                    viol.append({"key": f"locality:high-dim:{kind}", "what": "values depend on the order / on which other points are requested",
                                 "case": desc})
        except Exception as ex:
            viol.append({"key": f"determinism:high-dim:{kind}:exception", "what": f"{type(ex).__name__}: {ex}", "case": desc})
    return ev


def make_gen_srf(gs, gen, model, seed, dim):
    if gen == "RandMeth":
        return gs.SRF(model, seed=seed, mode_no=32)
    if gen == "IncomprRandMeth":
        return gs.SRF(model, generator="IncomprRandMeth", seed=seed, mode_no=32, mean_velocity=0.5)
    return gs.SRF(model, generator="Fourier", seed=seed, mode_no=[8] * dim, period=[20.0] * dim)


# ------------------------------------------------------------------------------------ calls that reuse the stored positions
STORED_CHANGES = ["none", "anis", "angles", "len_scale", "len_scale-list", "var", "model-object", "model-object-same-values", "gen-seed",
                  "gen-mode_no", "gen-period", "set_pos", "pos-setter", "mesh-type-same-arrays", "call-elsewhere", "call-seed", "rejected"]


def search_stored_pos(gs, rng, N, viol):
    """`srf()` without position argument evaluates the STORED positions with the CURRENT model and generator settings: positions are
    stored (by a call or by set_pos), then one to three things change (model geometry / variance in place, the model object, generator
    settings, the stored set itself or only its mesh type), then the stored positions are evaluated again.  Reference = a brand-new
    model object with the final parameter values and a brand-new SRF with the final settings, called WITH the positions."""
    ev = 0
    for t in range(N):
        gen = GENS[t % 3]
        dim = int(rng.randint(2, 4)) if (gen == "IncomprRandMeth" or rng.rand() < 0.8) else 1
        cls = "Gaussian" if rng.rand() < 0.5 else "Exponential"
        par = dict(var=1.5, len_scale=2.0)
        if dim > 1:
            par.update(anis=[float(a) for a in rng.choice([0.5, 2.0, 1.0, 0.3], size=dim - 1)],
                       angles=[float(a) for a in rng.uniform(-1, 1, size=dim * (dim - 1) // 2) * (rng.rand() < 0.7)])
        st = dict(seed=int(rng.choice([3, 10**9 + 7, 77])), mode_no=[8] * dim if gen == "Fourier" else 32, period=[20.0] * dim)

        def mk(par, st, new_model=True, model=None):
            m = getattr(gs, cls)(dim=dim, **par) if new_model else model
            if gen == "RandMeth":
                return gs.SRF(m, seed=st["seed"], mode_no=st["mode_no"])
            if gen == "IncomprRandMeth":
                return gs.SRF(m, generator="IncomprRandMeth", seed=st["seed"], mode_no=st["mode_no"], mean_velocity=0.5)
            return gs.SRF(m, generator="Fourier", seed=st["seed"], mode_no=list(st["mode_no"]), period=list(st["period"]))

        def rnd_set():
            k = int(rng.randint(2, 5))
            arrs = tuple(np.sort(rng.uniform(-8, 8, size=k)) for _ in range(dim))
            return ["structured" if rng.rand() < 0.35 else "unstructured", arrs]
        cur = rnd_set()
        srf = mk(par, st)
        how = str(rng.choice(["call", "set_pos", "entry"]))
        if how == "call":
            srf(cur[1], mesh_type=cur[0])
        elif how == "set_pos":
            srf.set_pos(cur[1], cur[0])
        else:
            (srf.structured if cur[0] == "structured" else srf.unstructured)(cur[1])
        trace = [dict(stored_by=how, mesh_type=cur[0])]
        for rnd in range(int(rng.randint(1, 4))):
            changes = [str(c) for c in rng.choice(STORED_CHANGES, size=int(rng.randint(1, 3)))]
            kw = {}
            for ch in changes:
                if ch in ("anis", "angles", "len_scale-list") and dim == 1:
                    ch = "len_scale"
                if ch == "gen-mode_no":
                    st["mode_no"] = [6] * dim if gen == "Fourier" else 24
                    srf.generator.mode_no = st["mode_no"]
                elif ch == "gen-period":
                    if gen != "Fourier":
                        continue
                    st["period"] = [float(p) for p in rng.choice([16.0, 25.0, 31.0], size=dim)]
                    srf.generator.period = st["period"]
                elif ch == "rejected":
                    # requests that must be refused (ValueError) and leave the object exactly as it was: an update that combines a valid
                    # new setting with an invalid one, an invalid model parameter, an unknown sampling strategy
                    g = srf.generator
                    before = {a: np.array(getattr(g, a), dtype=float, copy=True) for a in ("period", "mode_no", "seed") if hasattr(g, a)}
                    tries = []
                    if gen == "Fourier":
                        tries.append(("update(period=new, mode_no=odd)", lambda: g.update(period=[float(p) + 7.0 for p in np.atleast_1d(g.period)],
                                                                                             mode_no=[int(m) + 1 for m in np.atleast_1d(g.mode_no)])))
                        tries.append(("update(mode_no=odd, seed=new)", lambda: g.update(mode_no=[int(m) + 1 for m in np.atleast_1d(g.mode_no)], seed=12345)))
                    else:
                        tries.append(("update(mode_no=new, sampling=unknown)", lambda: g.update(mode_no=int(g.mode_no) + 8, sampling="no-such-strategy")
                                      if "sampling" in g.update.__code__.co_varnames else (_ for _ in ()).throw(ValueError("n/a"))))
                    if dim > 1:
                        tries.append(("model.anis = -1", lambda: setattr(srf.model, "anis", -1.0)))
                    name, fn = tries[int(rng.randint(len(tries)))]
                    raised = False
                    try:
                        fn()
                    except (ValueError, TypeError):
                        raised = True
                    after = {a: np.array(getattr(g, a), dtype=float, copy=True) for a in before}
                    if raised and any(before[a].shape != after[a].shape or not np.array_equal(before[a], after[a], equal_nan=True) for a in before):
                        viol.append({"key": f"rejected-op:{gen}:settings-changed",
                                     "what": f"{name} was refused but the generator's reported settings changed: "
                                             f"{ {a: (before[a].tolist(), after[a].tolist()) for a in before} }",
                                     "case": dict(gen=gen, dim=dim, model=cls, op=name)})
                        break
                    if not raised:
                        # accepted after all (e.g. a generator without that option): take over what the object now reports
                        for a in ("period", "mode_no", "seed"):
                            if hasattr(g, a) and a in st:
                                v = np.array(getattr(g, a)).tolist()
                                st[a] = v
                elif ch == "gen-seed":
                    st["seed"] = int(rng.choice([5, 10**9 + 9, 78]))
                    srf.generator.seed = st["seed"]
                elif ch == "call-seed":
                    st["seed"] = int(rng.choice([6, 10**9 + 21, 79]))
                    kw = dict(seed=st["seed"])
                elif ch == "anis":
                    par["anis"] = [float(a) for a in rng.choice([0.4, 0.8, 1.6, 2.5], size=dim - 1)]
                    srf.model.anis = par["anis"]
                elif ch == "angles":
                    par["angles"] = [float(a) for a in rng.uniform(-1.5, 1.5, size=dim * (dim - 1) // 2)]
                    srf.model.angles = par["angles"]
                elif ch == "len_scale":
                    par["len_scale"] = float(rng.choice([1.0, 3.0, 4.5]))
                    srf.model.len_scale = par["len_scale"]
                elif ch == "len_scale-list":
                    ls = [float(a) for a in rng.choice([1.0, 2.0, 3.0, 5.0], size=dim)]
                    srf.model.len_scale = ls
                    par["len_scale"] = ls[0]               # documented meaning of the per-axis list: main length scale and ratios
                    par["anis"] = [l / ls[0] for l in ls[1:]]
                elif ch == "var":
                    par["var"] = float(rng.choice([0.5, 2.5]))
                    srf.model.var = par["var"]
                elif ch in ("model-object", "model-object-same-values"):
                    if ch == "model-object":
                        par = dict(par, var=float(rng.choice([0.75, 3.0])))
                        if dim > 1:
                            par["angles"] = [float(a) for a in rng.uniform(-1.5, 1.5, size=dim * (dim - 1) // 2)]
                    srf.model = getattr(gs, cls)(dim=dim, **par)
                elif ch == "set_pos":
                    cur = rnd_set()
                    srf.set_pos(cur[1], cur[0])
                elif ch == "pos-setter":                   # other coordinates of the same mesh type, assigned through the property
                    cur = [cur[0], rnd_set()[1]]
                    srf.pos = cur[1]
                elif ch == "mesh-type-same-arrays":
                    cur = ["unstructured" if cur[0] == "structured" else "structured", cur[1]]
                    srf.set_pos(cur[1], cur[0])
                elif ch == "call-elsewhere":               # a call WITH other positions in between, then the first set again through set_pos
                    srf(rng.uniform(-5, 5, size=(dim, 3)))
                    srf.set_pos(cur[1], cur[0])
            if kw:
                st["seed"] = kw["seed"]                    # the seed given with the call is the one that counts
            entry = str(rng.choice(["call", "call", "entry"]))
            out = np.array(srf(**kw) if entry == "call" else
                           (srf.structured if cur[0] == "structured" else srf.unstructured)(**kw), copy=True)
            ref = mk(par, st)(cur[1], mesh_type=cur[0])
            ev += 1
            trace.append(dict(changes=changes, reuse_entry=entry, seed_kw=kw.get("seed"), mesh_type=cur[0]))
            if not (np.all(np.isfinite(ref)) and np.all(np.isfinite(out))):
                continue
            if not (out.shape == ref.shape and np.array_equal(out, ref)):
                what = "+".join(sorted(set(changes)))
                viol.append({"key": f"stored-pos:{gen}:{what}",
                             "what": f"a call WITHOUT position argument after [{what}] differs from a brand-new object (final model parameters and "
                                     f"generator settings) called WITH the stored positions: max abs diff "
                                     f"{float(np.max(np.abs(out - ref))) if out.shape == ref.shape else 'shape ' + str(out.shape) + ' vs ' + str(ref.shape)}",
                             "case": dict(gen=gen, dim=dim, model=cls, final_params=par, final_settings=st, trace=trace,
                                          pos=[np.asarray(a).tolist() for a in cur[1]])})
                break
    return ev


# ------------------------------------------------------------------------------------ every output path of one field
NVERT = {"vertex": 1, "line": 2, "triangle": 3, "quad": 4, "tetra": 4, "pyramid": 5, "wedge": 6, "hexahedron": 8}
STORE_NAMES = ["field", "perm", "k_1", "Conductivity", "field2"]
OUT_PATHS = ["call-named", "unstructured", "structured", "mesh-points", "mesh-centroids", "vtk-unstructured", "vtk-structured"]
EPS = float(np.finfo(float).eps)


class LayoutProblem(Exception):
    pass


class VtkCapture:
    """intercepts what gstools hands to the pyevtk writers (nothing is written)"""

    def __enter__(self):
        import gstools.tools.export as ex
        self.ex, self.old, self.calls = ex, (ex.pointsToVTK, ex.gridToVTK), []

        def points(filename, x, y, z, *a, **kw):
            self.calls.append(("points", x, y, z, kw.get("data", a[0] if a else None)))

        def grid(filename, x, y, z, *a, **kw):
            self.calls.append(("grid", x, y, z, kw.get("pointData", a[1] if len(a) > 1 else None)))
        ex.pointsToVTK, ex.gridToVTK = points, grid
        return self

    def __exit__(self, *exc):
        self.ex.pointsToVTK, self.ex.gridToVTK = self.old
        return False


def random_select(rng, dim, mesh_dim):
    """which mesh coordinates carry the field coordinates, and a `direction` argument saying so"""
    if mesh_dim == dim and rng.rand() < 0.5:
        return list(range(dim)), "all"
    sel = [int(c) for c in rng.permutation(mesh_dim)[:dim]]
    if rng.rand() < 0.5:
        return sel, "".join("xyz"[c] for c in sel)
    return sel, list(sel)


def split_blocks(rng, n, kmax=4):
    k = int(min(n, rng.randint(1, kmax + 1)))
    cuts = sorted(rng.choice(np.arange(1, n), size=k - 1, replace=False).tolist()) if k > 1 else []
    return [b - a for a, b in zip([0] + cuts, cuts + [n])]


def point_mesh(rng, P, mesh_dim, select):
    """meshio mesh whose POINTS are the columns of P (embedded in mesh_dim coordinates, the other coordinates arbitrary); 1..4 cell
    blocks of mixed types with arbitrary connectivity"""
    import meshio
    n = P.shape[1]
    pts = rng.randn(n, mesh_dim) * 7.0
    for a, c in enumerate(select):
        pts[:, c] = P[a]
    cells = []
    for _ in range(int(rng.randint(1, 5))):
        kind = str(rng.choice(list(NVERT)))
        cells.append((kind, rng.randint(0, n, size=(int(rng.randint(1, 5)), NVERT[kind]))))
    return meshio.Mesh(pts, cells)


def centroid_mesh(rng, n, mesh_dim, centre, spread):
    """meshio mesh with n cells in 1..4 cell blocks of mixed cell types (a type may occur in several blocks), vertices shared between
    cells and blocks.  Returns the mesh and, per block, the centroids (block length, mesh_dim) recomputed here from the stored vertex
    coordinates by plain left-to-right sums."""
    import meshio
    nv = int(rng.randint(8, 30))
    pts = centre[None, :] + rng.uniform(-spread, spread, size=(nv, mesh_dim))
    cells, cents = [], []
    for sz in split_blocks(rng, n):
        kind = str(rng.choice(list(NVERT)))
        conn = np.array([rng.choice(nv, size=NVERT[kind], replace=False) for _ in range(sz)], dtype=int).reshape(sz, NVERT[kind])
        cells.append((kind, conn))
        c = np.empty((sz, mesh_dim))
        for i, row in enumerate(conn):
            acc = np.zeros(mesh_dim)
            for v in row:
                acc = acc + pts[v]
            c[i] = acc / len(row)
        cents.append(c)
    return meshio.Mesh(pts, cells), cents


def position_tolerance(srf, P):
    """bound on the change of the generated values under a perturbation of a few ulp of the positions (centroids are means whose
    rounding depends on the order of summation; rotated / anisotropic models go through a BLAS product whose rounding depends on the
    batch shape) plus the rounding of the evaluation itself: sum_j amp_j (|k_j|.|x| + 8) * 32 eps"""
    g, m = srf.generator, srf.model
    try:
        z = np.abs(np.asarray(g._z_1, dtype=float)) + np.abs(np.asarray(g._z_2, dtype=float))
        if type(g).__name__ == "Fourier":
            k, amp = np.atleast_2d(np.asarray(g.modes, dtype=float)), np.abs(np.asarray(g._spectrum_factor, dtype=float)) * z
        else:
            k = np.atleast_2d(np.asarray(g._cov_sample, dtype=float))
            amp = np.sqrt(m.var / k.shape[1]) * z * 2.0          # incompressible projector: entries within [-1, 2]
        iso = np.abs(m.isometrize(P)) + np.abs(np.asarray(m.isometrize(np.abs(P))))
        return float(np.max(amp @ (np.abs(k).T @ iso + 8.0))) * 32 * EPS
    except Exception:          # noqa: BLE001 — private attributes renamed: a fixed tight tolerance
        return 1e-10


def to_rows(a, n, vd, what):
    """values of n points delivered as (n,) [scalar] or (n, components) [vector, mesh layout] -> (vd, n) resp. (n,)"""
    a = np.asarray(a, dtype=float)
    if vd == 1:
        if a.shape != (n,):
            raise LayoutProblem(f"{what} has shape {a.shape}, expected ({n},)")
        return a
    if a.shape != (n, vd):
        raise LayoutProblem(f"{what} has shape {a.shape}, expected ({n}, {vd}) = (points, components)")
    return np.ascontiguousarray(a.T)


def eval_path(gs, mk, path, rng, dim, vd, seed_kw):
    """evaluate a field of a new object `mk()` through output path `path` at points chosen here.  Returns
    (points (dim, n) in the order of the delivered values, values in the layout of the plain unstructured call, positions_exact)."""
    srf = mk()
    nm = str(rng.choice(STORE_NAMES))
    n = int(rng.randint(3, 12))
    P = rng.uniform(-9, 9, size=(dim, n))
    shape = (n,) if vd == 1 else (vd, n)
    if path == "call-named":
        ret = np.asarray(srf(P, store=nm, **seed_kw))
        if nm not in srf.field_names:
            raise LayoutProblem(f"field stored as {nm!r} is not listed in field_names {srf.field_names}")
        out = srf[nm]
        if not (np.array_equal(out, getattr(srf, nm)) and np.array_equal(out, ret)):
            raise LayoutProblem(f"srf[{nm!r}], srf.{nm} and the returned array differ")
        return P, out, True
    if path == "unstructured":
        return P, srf.unstructured(P, **seed_kw), True
    if path in ("structured", "vtk-structured"):
        axes = [np.sort(rng.uniform(-9, 9, size=int(rng.randint(1, 4)))) for _ in range(dim)]
        ks = [len(a) for a in axes]
        if path == "structured":
            ret = srf.structured(axes, store=nm, **seed_kw) if rng.rand() < 0.5 else srf(axes, mesh_type="structured", store=nm, **seed_kw)
            want = tuple(ks) if vd == 1 else (vd,) + tuple(ks)
            if np.shape(ret) != want or not np.array_equal(ret, srf[nm]):
                raise LayoutProblem(f"structured call returned shape {np.shape(ret)} (expected {want}) or stored something else under {nm!r}")
            G = np.array(np.meshgrid(*axes, indexing="ij")).reshape(dim, -1)          # C order
            return G, np.reshape(ret, (-1,) if vd == 1 else (vd, -1)), True
        srf(axes, mesh_type="structured", store=nm, **seed_kw)
        with VtkCapture() as cap:
            srf.vtk_export("/nonexistent/c11", field_select=nm, fieldname="w")
        if len(cap.calls) != 1 or cap.calls[0][0] != "grid" or not isinstance(cap.calls[0][4], dict):
            raise LayoutProblem(f"vtk export of a structured field: writer calls {[c[0] for c in cap.calls]}")
        _, x, y, z, data = cap.calls[0]
        for a, got in enumerate((x, y, z)):
            wantc = axes[a] if a < dim else np.array([0])
            if not np.array_equal(np.asarray(got, dtype=float), wantc):
                raise LayoutProblem(f"vtk export: axis {a} of the exported rectilinear grid is not the position axis")
        full = ks + [1] * (3 - dim)
        idx = np.array(np.unravel_index(np.arange(int(np.prod(full))), full, order="F"))[:dim]     # VTK: first axis fastest
        G = np.array([axes[d][idx[d]] for d in range(dim)])
        names = ["w"] if vd == 1 else ["w" + suf for suf in ("_X", "_Y", "_Z")[:vd]]
        if sorted(data) != sorted(names):
            raise LayoutProblem(f"vtk export: arrays {sorted(data)} instead of {names}")
        vals = [np.asarray(data[k], dtype=float) for k in names]
        if any(v.shape != (G.shape[1],) for v in vals):
            raise LayoutProblem(f"vtk export: array shapes {[v.shape for v in vals]}, expected ({G.shape[1]},)")
        return G, vals[0] if vd == 1 else np.array(vals), True
    if path == "vtk-unstructured":
        srf(P, store=nm, **seed_kw)
        with VtkCapture() as cap:
            srf.vtk_export("/nonexistent/c11", field_select=nm, fieldname="w")
        if len(cap.calls) != 1 or cap.calls[0][0] != "points" or not isinstance(cap.calls[0][4], dict):
            raise LayoutProblem(f"vtk export of an unstructured field: writer calls {[c[0] for c in cap.calls]}")
        _, x, y, z, data = cap.calls[0]
        for a, got in enumerate((x, y, z)):
            if not np.array_equal(np.asarray(got, dtype=float), P[a] if a < dim else np.zeros(n)):
                raise LayoutProblem(f"vtk export: coordinate {a} of the exported points is not the position row")
        names = ["w"] if vd == 1 else ["w" + suf for suf in ("_X", "_Y", "_Z")[:vd]]
        if sorted(data) != sorted(names):
            raise LayoutProblem(f"vtk export: arrays {sorted(data)} instead of {names}")
        vals = [np.asarray(data[k], dtype=float) for k in names]
        return P, vals[0] if vd == 1 else np.array(vals), True
    mesh_dim = int(rng.randint(dim, 4))
    select, direction = random_select(rng, dim, mesh_dim)
    kw = dict(seed_kw)
    nm2 = None
    if rng.rand() < 0.3:
        nm2 = str(rng.choice(STORE_NAMES))
        kw["store"] = nm2
    if path == "mesh-points":
        mesh = point_mesh(rng, P, mesh_dim, select)
        ret = srf.mesh(mesh, points="points", direction=direction, name=nm, **kw)
        if nm not in mesh.point_data:
            raise LayoutProblem(f"srf.mesh(points='points', name={nm!r}) wrote point_data keys {sorted(mesh.point_data)}")
        out = to_rows(mesh.point_data[nm], n, vd, f"mesh.point_data[{nm!r}]")
        exact = True
    elif path == "mesh-centroids":
        mesh, cents = centroid_mesh(rng, n, mesh_dim, rng.uniform(-6, 6, size=mesh_dim), float(rng.choice([0.5, 3.0])))
        P = np.vstack(cents).T[select]
        ret = srf.mesh(mesh, points="centroids", direction=direction, name=nm, **kw)
        if nm not in mesh.cell_data:
            raise LayoutProblem(f"srf.mesh(points='centroids', name={nm!r}) wrote cell_data keys {sorted(mesh.cell_data)}")
        lst = mesh.cell_data[nm]
        if not isinstance(lst, (list, tuple)) or len(lst) != len(cents):
            raise LayoutProblem(f"mesh.cell_data[{nm!r}] is not a list with one array per cell block ({len(cents)})")
        out = np.concatenate([to_rows(a, len(c), vd, f"mesh.cell_data[{nm!r}][{b}] (block type {mesh.cells[b].type})")
                              for b, (a, c) in enumerate(zip(lst, cents))], axis=-1)
        exact = False
    else:
        raise ValueError(path)
    if np.shape(ret) != shape:
        raise LayoutProblem(f"srf.mesh returned an array of shape {np.shape(ret)}, expected {shape}")
    if nm2 is not None and not (nm2 in srf.field_names and np.array_equal(srf[nm2], ret)):
        raise LayoutProblem(f"srf.mesh(..., store={nm2!r}) did not store the returned field under that name")
    return P, out, exact, np.asarray(ret, dtype=float)          # the returned array is compared with the reference as well


def search_output_paths(gs, rng, N, viol):
    """Every output path of one field must carry the values of the plain unstructured call at the same points: named store,
    .unstructured, .structured / mesh_type="structured" (C-order grid), meshio mesh point_data and cell_data (1..4 cell blocks of mixed
    cell types, any `direction`, custom names, `store=` forwarded), the arrays handed to the vtk writers for both mesh types (the
    structured export is in Fortran order).  Oracle: a NEW object with the same model, seed and settings, called at the points in the
    order in which the path delivers them; bit for bit where the positions are bit-identical and the model is isotropic, otherwise
    within the rounding bound of `position_tolerance`."""
    ev = 0
    for t in range(N):
        gen = GENS[t % 3]
        dim = int(rng.randint(2, 4)) if gen == "IncomprRandMeth" else int(rng.randint(1, 4))
        vd = vec_dim(gen, dim)
        seed = int(rng.choice([3, 10**9 + 7, 77]))
        kw = {}
        if dim > 1 and gen != "IncomprRandMeth" and rng.rand() < 0.5:
            kw = dict(anis=[float(a) for a in rng.choice([0.5, 2.0], size=dim - 1)],
                      angles=[float(a) for a in rng.uniform(-1, 1, size=dim * (dim - 1) // 2)])
        cls = gs.Gaussian if rng.rand() < 0.5 else gs.Exponential
        model = cls(dim=dim, var=1.5, len_scale=2.0, **kw)
        # the seed either sits in the object or arrives with the call (forwarded by .mesh / .structured / .unstructured)
        via_call = rng.rand() < 0.4
        mk = lambda: make_gen_srf(gs, gen, model, 12345 if via_call else seed, dim)
        seed_kw = dict(seed=seed) if via_call else {}
        for path in OUT_PATHS:
            if path.startswith("vtk") and rng.rand() < 0.5:
                continue
            ev += 1
            desc = dict(gen=gen, dim=dim, seed=seed, seed_given_with_call=via_call, model=repr(model), path=path)
            try:
                P, out, exact, *more = eval_path(gs, mk, path, rng, dim, vd, seed_kw)
            except LayoutProblem as ex:
                viol.append({"key": f"output-path:{path}:{gen}:layout", "what": f"output path {path}: {ex}", "case": desc})
                continue
            refsrf = make_gen_srf(gs, gen, model, seed, dim)
            ref = np.asarray(refsrf(P), dtype=float)
            out = np.asarray(out, dtype=float)
            desc.update(points=P.tolist())
            if out.shape != ref.shape:
                viol.append({"key": f"output-path:{path}:{gen}:layout", "what": f"output path {path} delivers shape {out.shape}, the plain call {ref.shape}",
                             "case": desc})
                continue
            if not (np.all(np.isfinite(ref)) and np.all(np.isfinite(out))):
                continue
            tol = 0.0 if (exact and not kw) else position_tolerance(refsrf, P)
            for label, arr in [(path, out)] + [(path + ":returned-array", a) for a in more]:
                err = np.abs(arr - ref) if arr.shape == ref.shape else np.full(ref.shape, np.inf)
                if not np.all(err <= tol):
                    bad = np.argwhere(~(err <= tol))
                    viol.append({"key": f"output-path:{label}:{gen}",
                                 "what": f"output path {label} does not carry the values of the plain unstructured call at the same points: "
                                         f"max abs diff {float(err.max()):.3e} (tolerance {tol:.1e}), first differing entry {bad[0].tolist()} of shape {arr.shape}",
                                 "case": desc})
    return ev
