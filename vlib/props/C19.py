"""C19 — field transformations produce their documented target distributions.

correspondence (tie B): the real `gstools.transform.array_*` functions and the `Field.transform` wrappers against
the Lean model `GSV/Model/Transform.lean` run on Float by the driver (Φ = (1+erf(z/√2))/2 with a series /
continued-fraction erf and a Newton erfinv, themselves compared with scipy to 1e-13).
search: KS tests of large transformed normal samples against the documented target cdfs (thresholds from the exact
KS distribution), exact moments for force_moments, class frequencies, partition oracle by np.searchsorted, Box-Cox
round trips and the cut-off warning.
"""
import warnings

import numpy as np
from scipy import special, stats

from proto import run_driver, fbits, unbits, f2b

ASSUMPTIONS = [
    "the standard normal cdf is an abstract strictly increasing bijection R->(0,1) with Phi(-x)=1-Phi(x) in the theorems; "
    "that scipy's erf/erfinv are 2*Phi(sqrt2 x)-1 and its inverse is checked numerically (1e-13) against an independent "
    "series/continued-fraction implementation, not proved",
    "'normal marginal' is stated for one random variable X with P(X<=x)=Phi((x-m)/s); spatial dependence plays no role",
    "'Zinn-Harvey reverses connectivity' (a topological statement about level sets) is not proved; only the marginal and "
    "the order reversal in |x-mean| are",
    "NaN entries and integer-dtype input arrays are outside the property (array_discrete leaves np.empty_like garbage "
    "for NaN entries and truncates values to the integer dtype of the input)",
]
TRUSTED_EXTRA = ["scipy.stats.kstwo (exact Kolmogorov distribution) for the KS thresholds of the search"]

CUT = "Box-Cox: Some values will be cut off!"


# ------------------------------------------------------------------------------------------------ helpers
def _real(fn, *a, **k):
    """run the real code: ('ok', array, [warnings]) or ('exc', class name, [])"""
    with warnings.catch_warnings(record=True) as ws:
        warnings.simplefilter("always")
        try:
            with np.errstate(all="ignore"):
                r = fn(*a, **k)
        except Exception as e:  # canonicalised to the class name
            return ("exc", type(e).__name__, [])
    return ("ok", np.asarray(r, dtype=float), [str(w.message) for w in ws])


def _ob(v):
    return None if v is None else f2b(v)


def _dec(r):
    """decode a model result: ('ok', array) / ('exc', name) / ('driver', message)"""
    if isinstance(r, dict):
        if "exc" in r:
            return ("exc", r["exc"])
        return ("driver", str(r.get("error")))
    if isinstance(r, list):
        if any(v is None for v in r):
            return ("ok", np.array([np.nan if v is None else unbits([v])[0] for v in r]))
        return ("ok", unbits(r) if r else np.zeros(0))
    return ("driver", repr(r))


def _close(a, b, tol):
    """entrywise: both NaN, identical infinities, or |a-b| <= tol"""
    a, b = np.asarray(a, dtype=float), np.asarray(b, dtype=float)
    if a.shape != b.shape:
        return np.zeros(max(a.size, 1), dtype=bool)
    with np.errstate(all="ignore"):
        ok = np.abs(a - b) <= tol
    ok |= np.isnan(a) & np.isnan(b)
    ok |= np.isinf(a) & (a == b)
    return ok


def _jl(a):
    return np.asarray(a, dtype=float).tolist()


# ------------------------------------------------------------------------------------------------ Φ on Float vs scipy
def corr_phi(ctx, out):
    rng = np.random.RandomState(ctx.seed + 1900)
    n = ctx.scale(400, 4000)
    x = np.concatenate([rng.randn(n) * 2, np.linspace(-6, 6, 97), [0.0, 1.0, -1.0, 0.9999999, 1.0000001, 8.0, -8.0, 27.0]])
    y = np.concatenate([rng.uniform(-1, 1, n), 1 - 10.0 ** -np.arange(1, 16), -1 + 10.0 ** -np.arange(1, 16),
                        [0.0, 0.5, -0.5, 1.0, -1.0, 1e-300, -1e-20]])
    z = np.concatenate([rng.randn(n) * 2, [0.0, -9.0, 9.0, -40.0]])
    p = np.concatenate([rng.uniform(1e-6, 1 - 1e-6, n), [0.5, 0.25, 0.75]])
    res = run_driver([{"op": "c19_erf", "x": fbits(x)}, {"op": "c19_erfinv", "x": fbits(y)},
                      {"op": "c19_cdf", "x": fbits(z)}, {"op": "c19_cdf", "x": fbits(p)}])
    e, ec = unbits(res[0][0]), unbits(res[0][1])
    ei = unbits(res[1])
    cd = unbits(res[2][0])
    pp = unbits(res[3][1])
    checks = [
        ("erf", x, e, special.erf(x), 1e-15 + 0 * x),
        ("erfc", x, ec, special.erfc(x), 1e-13 * special.erfc(x) + 1e-300),
        ("erfinv", y, ei, special.erfinv(y), 1e-13 * (1 + np.abs(special.erfinv(y)))),
        ("cdf", z, cd, 0.5 * (1 + special.erf(z / np.sqrt(2))), 1e-15 + 0 * z),
        ("ppf", p, pp, np.sqrt(2) * special.erfinv(2 * p - 1), 1e-13 * (1 + np.abs(special.ndtri(p)))),
    ]
    for name, arg, got, want, tol in checks:
        with np.errstate(all="ignore"):
            tol = np.where(np.isfinite(tol), tol, 0.0)
        ok = _close(got, want, tol)
        out["evaluations"] += len(arg)
        out["distribution"]["phi:" + name] = len(arg)
        for i in np.where(~ok)[0][:3]:
            out["disagreements"].append({"what": f"phi:{name}: Float {name} of the driver differs from scipy",
                                         "x": float(arg[i]), "model": float(got[i]), "scipy": float(want[i])})


# ------------------------------------------------------------------------------------------------ array functions
VALUE_POOL = [-3.0, -1.5, -1.0, -0.25, 0.0, 0.5, 1.0, 1.75, 2.0, 4.0]


def gen_discrete(rng, x, m, s2):
    """values / thresholds for array_discrete; returns (vals, mode dict for the model, real thresholds argument, kw)"""
    k = int(rng.choice([0, 1, 2, 2, 3, 3, 4, 5]))
    vals = list(rng.choice(VALUE_POOL, size=k, replace=bool(rng.rand() < 0.25))) if k else []
    kind = str(rng.choice(["arithmetic", "equal", "explicit", "explicit", "explicit"]))
    kw = {}
    if kind == "arithmetic":
        return vals, {"mode": "arithmetic"}, "arithmetic", kw, kind
    if kind == "equal":
        mode = {"mode": "equal"}
        if rng.rand() < 0.7:
            kw = {"mean": m, "var": s2}
            mode.update(tmean=f2b(m), tvar=f2b(s2))
        return vals, mode, "equal", kw, kind
    nt = max(k - 1, 0) if rng.rand() < 0.85 else int(rng.randint(0, 5))
    base = m + np.sqrt(s2) * np.sort(rng.choice(np.arange(-8, 9) / 4.0, size=nt, replace=False)) if nt else np.zeros(0)
    if nt > 1 and rng.rand() < 0.12:
        base = base[::-1].copy() if rng.rand() < 0.5 else np.r_[base[:-1], base[-2]]
    cont = str(rng.choice(["list", "tuple", "ndarray"]))
    thr = {"list": list(base), "tuple": tuple(base), "ndarray": np.array(base)}[cont]
    return vals, {"mode": "explicit", "thr": fbits(base)}, thr, kw, "explicit:" + cont


def gen_array_case(rng):
    """one call of an array function: (driver op, thunk running the real code, info)"""
    from gstools.transform import array as A
    fn = str(rng.choice(["lognormal", "uniform", "arcsin", "uquad", "u2arcsin", "u2uquad", "zinnharvey", "force_moments",
                         "boxcox", "discrete", "discrete", "bc_normalize", "bc_denormalize"]))
    n = int(rng.choice([1, 2, 3, 5, 8, 13]))
    m = float(rng.choice([0.0, 1.0, -2.5, 10.0]))
    s2 = float(rng.choice([1.0, 0.25, 4.0, 2.5]))
    x = m + np.sqrt(s2) * rng.randn(n)
    if rng.rand() < 0.3:
        x = np.round(x * 8) / 8
    give = bool(rng.rand() < 0.7) or n < 2 or np.var(x) == 0
    mean, var = (m, s2) if give else (None, None)
    op = {"op": "c19_array", "fn": fn, "x": fbits(x), "mean": _ob(mean), "var": _ob(var)}
    info = {"fn": fn, "x": _jl(x), "mean": mean, "var": var}
    em, ev = (m, s2) if give else (float(np.mean(x)), float(np.var(x)))
    z = (x - em) / np.sqrt(ev)
    scale = 1.0
    mask = np.ones(n, dtype=bool)
    extra = None
    if fn == "lognormal":
        real = lambda: _real(A.array_to_lognormal, x)
        tol = 1e-13 * (1 + np.exp(x))
    elif fn == "uniform":
        low, high = [(0.0, 1.0), (-2.0, 3.0), (5.0, 5.5), (1.0, -1.0), (0.0, 1e6)][rng.randint(5)]
        op.update(low=f2b(low), high=f2b(high))
        info.update(low=low, high=high)
        real = lambda: _real(A.array_to_uniform, x, mean, var, low, high)
        tol = 1e-13 * (1 + abs(low) + abs(high))
    elif fn in ("arcsin", "uquad"):
        a, b = [(None, None), (None, None), (0.0, 1.0), (-2.0, 3.0), (None, 20.0), (-20.0, None), (1.0, -1.0)][rng.randint(7)]
        op.update(a=_ob(a), b=_ob(b))
        info.update(a=a, b=b)
        f = A.array_to_arcsin if fn == "arcsin" else A.array_to_uquad
        real = lambda: _real(f, x, mean, var, a, b)
        sc = 1 + abs(em) + 3 * np.sqrt(ev) + abs(a or 0) + abs(b or 0)
        tol = 1e-12 * sc
        if fn == "uquad":
            # cube root at 0: infinitely ill-conditioned at x = mean; compared where |2Φ(z)-1| >= 1e-3
            mask = np.abs(special.erf(z / np.sqrt(2))) >= 1e-3
    elif fn in ("u2arcsin", "u2uquad"):
        u = np.round(rng.uniform(0, 1, n) * 64) / 64 if rng.rand() < 0.5 else rng.uniform(0, 1, n)
        a, b = [(0.0, 1.0), (-2.0, 3.0), (1.5, 1.75), (3.0, -1.0)][rng.randint(4)]
        op.update(x=fbits(u), a=f2b(a), b=f2b(b))
        info.update(x=_jl(u), a=a, b=b)
        f = A._uniform_to_arcsin if fn == "u2arcsin" else A._uniform_to_uquad
        real = lambda: _real(f, u, a, b)
        tol = 1e-13 * (1 + abs(a) + abs(b))
        if fn == "u2uquad":
            # same floating operations in the same order: y_raw agrees to an ulp of (b-a)^3/8, the cube root amplifies it
            yr = np.abs((b - a) ** 3 * (2 * u - 1) / 8)
            with np.errstate(all="ignore"):
                tol = tol + np.where(yr > 0, 4e-16 * abs(b - a) ** 3 / 8 / (3 * np.maximum(yr, 1e-300) ** (2 / 3)), 0.0)
            tol = np.minimum(tol, 1e-9 * (1 + abs(a) + abs(b)))
    elif fn == "zinnharvey":
        high = bool(rng.rand() < 0.5)
        op.update(high=high)
        info.update(conn="high" if high else "low")
        real = lambda: _real(A.array_zinnharvey, x, "high" if high else "low", mean, var)
        w = special.ndtri(np.clip(special.erf(np.abs(z) / np.sqrt(2)), 1e-300, 1 - 1e-17))
        mask = np.abs(w) <= 4.0
        # w = Φ⁻¹(p), p known to ~6e-16: |δw| <= 6e-16 / φ(w)
        tol = (1e-12 * (1 + np.abs(w)) + 4 * 6e-16 * np.sqrt(2 * np.pi) * np.exp(np.minimum(w * w / 2, 50))) * np.sqrt(ev) + 1e-13 * abs(em)
    elif fn == "force_moments":
        tm = float(rng.choice([0.0, 1.0, -3.0]))
        tv = float(rng.choice([1.0, 0.5, 4.0, 0.0, -1.0]))
        op.update(tmean=f2b(tm), tvar=f2b(tv))
        info.update(tmean=tm, tvar=tv)
        real = lambda: _real(A.array_force_moments, x, tm, tv)
        tol = 1e-12 * (1 + abs(tm) + 6 * np.sqrt(abs(tv)))
        if np.var(x) < 1e-6:
            mask = np.zeros(n, dtype=bool) | (np.var(x) == 0)
    elif fn == "boxcox":
        l = float(rng.choice([1.0, 2.0, 0.5, -0.5, -1.0, 0.3, 0.0, 1e-9, -5e-9, 1e-7, 3.0]))
        sh = float(rng.choice([0.0, 1.0, -0.5, 3.0]))
        op.update(lmbda=f2b(l), shift=f2b(sh))
        info.update(lmbda=l, shift=sh)
        real = lambda: _real(A.array_boxcox, x, l, sh)
        extra = "warn"
        tol = None  # relative, set below
    elif fn in ("bc_normalize", "bc_denormalize"):
        import gstools as gs
        l = float(rng.choice([1.0, 2.0, 0.5, -0.5, -1.0, 0.3, 0.0, 1e-9]))
        nrm = gs.normalizer.BoxCox(lmbda=l)
        if fn == "bc_normalize":
            d = np.exp(rng.randn(n))
            real = lambda: _real(nrm.normalize, d)
        else:
            y = nrm.normalize(np.exp(rng.randn(n) * 0.7))
            d = y
            real = lambda: _real(nrm.denormalize, d)
        op.update(x=fbits(d), lmbda=f2b(l))
        info.update(x=_jl(d), lmbda=l)
        tol = None
    else:  # discrete
        vals, mode, thr, kw, kind = gen_discrete(rng, x, em, ev)
        if kind == "equal" and len(vals) > 1:
            # entries next to the exact thresholds: robust to 1e-13 in the threshold, sharp on its position
            q = em + np.sqrt(ev) * special.ndtri(np.arange(1, len(vals)) / len(vals))
            x = np.concatenate([x, q * (1 + 1e-9) + 1e-9, q * (1 - 1e-9) - 1e-9])
        elif kind.startswith("explicit") and len(np.atleast_1d(unbits(mode["thr"]))) > 0:
            x = np.concatenate([x, unbits(mode["thr"])])     # entries exactly on the thresholds
        elif kind == "arithmetic" and len(vals) > 1:
            sv = np.sort(vals)
            x = np.concatenate([x, (sv[1:] + sv[:-1]) / 2])
        if "mean" not in kw and kind == "equal":
            mode.update(tmean=None, tvar=None)
        op.update(x=fbits(x), vals=fbits(vals), **mode)
        info.update(x=_jl(x), vals=_jl(vals), kind=kind, thresholds=(thr if isinstance(thr, str) else _jl(thr)))
        info["fn"] = "discrete:" + kind.split(":")[0]
        mask = np.ones(len(x), dtype=bool)
        real = lambda: _real(A.array_discrete, x, vals, thr, **kw)
        tol = 0.0
    if x.size % 2 == 0 and x.size > 2 and rng.rand() < 0.3:
        x = x.reshape(2, -1)          # the closures see the reshaped array: n-d inputs, compared flattened
        info["shape"] = list(x.shape)
    return op, real, info, tol, mask, extra


def corr_arrays(ctx, out):
    rng = np.random.RandomState(ctx.seed + 1901)
    n = ctx.scale(6000, 40000)
    cases = [gen_array_case(rng) for _ in range(n)]
    res = run_driver([c[0] for c in cases])
    seen = set()
    for (op, real, info, tol, mask, extra), r in zip(cases, res):
        rr = real()
        if rr[0] == "ok":
            rr = ("ok", rr[1].ravel(), rr[2])
        out["evaluations"] += 1
        warn_model = None
        if extra == "warn" and isinstance(r, list) and len(r) == 2 and isinstance(r[1], bool):
            warn_model, r = r[1], r[0]
        mk = _dec(r)
        kind = info["fn"]
        out["distribution"][kind] = out["distribution"].get(kind, 0) + 1
        out["distribution"]["result:" + (rr[1] if rr[0] == "exc" else "ok")] = \
            out["distribution"].get("result:" + (rr[1] if rr[0] == "exc" else "ok"), 0) + 1
        if len(out["samples"]) < 5 and kind not in seen:
            out["samples"].append({"case": info, "real": _jl(rr[1]) if rr[0] == "ok" else rr[1]})
        seen.add((kind, rr[0] if rr[0] == "exc" else "ok", info.get("lmbda"), info.get("a"), info.get("low"), info.get("kind")))
        bad = None
        if mk[0] == "driver":
            bad = f"driver error {mk[1]}"
        elif rr[0] == "exc" or mk[0] == "exc":
            if rr[0] != mk[0] or rr[1] != mk[1]:
                bad = f"real {rr[:2]} vs model {mk}"
        else:
            a, b = rr[1], mk[1]
            if tol is None:
                with np.errstate(all="ignore"):
                    tol = 1e-12 * (1 + 1 / max(abs(info["lmbda"]), 1e-8) if abs(info["lmbda"]) > 1e-8 else 2.0) * (1 + np.abs(a))
                    tol = np.where(np.isfinite(tol), tol, 0.0)
            ok = _close(a, b, tol)
            if a.shape == b.shape:
                ok = ok | ~mask
                out["distribution"]["skipped_ill_conditioned_entries"] = \
                    out["distribution"].get("skipped_ill_conditioned_entries", 0) + int((~mask).sum())
            if not ok.all():
                i = int(np.where(~ok)[0][0]) if a.shape == b.shape else -1
                bad = f"entry {i}: real {a[i] if i >= 0 else a.shape} vs model {b[i] if i >= 0 else b.shape}"
            elif extra == "warn" and warn_model is not None and (CUT in rr[2]) != warn_model:
                bad = f"cut-off warning: real {CUT in rr[2]} vs model {warn_model}"
        if bad:
            out["disagreements"].append({"what": f"array:{kind}: {bad}", "case": info})
    out["_distinct"] |= seen


# ------------------------------------------------------------------------------------------------ Field.transform wrappers
METHOD_NAMES = {"binary": ["binary"], "discrete": ["discrete"], "boxcox": ["boxcox"], "zinnharvey": ["zinnharvey"],
                "force_moments": ["force_moments", "normal_force_moments"],
                "lognormal": ["lognormal", "normal_to_lognormal"], "uniform": ["uniform", "normal_to_uniform"],
                "arcsin": ["arcsin", "normal_to_arcsin"], "uquad": ["uquad", "normal_to_uquad"]}


def gen_field(rng):
    import gstools as gs
    var = float(rng.choice([1.0, 0.5, 2.0]))
    nug = float(rng.choice([0.0, 0.0, 0.25]))
    mean = float(rng.choice([0.0, 1.5, -2.0]))
    nk = str(rng.choice(["none", "none", "none", "lognormal", "boxcox"]))
    lm = float(rng.choice([0.5, 1.0, 2.0, -0.5, 0.0]))
    norm = {"none": None, "lognormal": gs.normalizer.LogNormal(), "boxcox": gs.normalizer.BoxCox(lmbda=lm)}[nk]
    trend = None if rng.rand() < 0.65 else float(rng.choice([0.0, 0.75, -1.0]))
    mesh = str(rng.choice(["unstructured", "unstructured", "structured2d", "unstructured2d"]))
    dim = 1 if mesh == "unstructured" else 2
    model = gs.Gaussian(dim=dim, var=var, len_scale=2.0, nugget=nug)
    srf = gs.SRF(model, mean=mean, normalizer=norm, trend=trend, seed=int(rng.randint(1 << 30)))
    if mesh == "structured2d":
        nx, ny = int(rng.choice([1, 2, 3])), int(rng.choice([2, 3]))
        n = nx * ny
        srf.set_pos((np.linspace(0.0, 4.0, nx), np.linspace(0.0, 3.0, ny)), "structured")
    else:
        n = int(rng.choice([1, 2, 4, 7]))
        srf.set_pos(np.linspace(0.0, 10.0, n) if dim == 1 else rng.rand(2, n) * 5, "unstructured")
    raw = np.sqrt(model.sill) * rng.randn(n)
    if nk == "boxcox" and abs(lm) > 1e-8:
        # keep mean + raw inside the open denormalize range most of the time
        lim = -1.0 / lm
        y = mean + raw
        y = np.where((y > lim) if lm > 0 else (y < lim), y, lim + (0.5 if lm > 0 else -0.5) * (1 + rng.rand(n)))
        raw = y - mean
    with warnings.catch_warnings():
        warnings.simplefilter("ignore")
        srf.post_field(raw.reshape(srf.field_shape), "field", process=True)
    cfg = {"cmean": f2b(mean), "sill": f2b(model.sill), "trend": _ob(trend), "norm": nk, "norm_lmbda": f2b(lm)}
    desc = {"mean": mean, "sill": float(model.sill), "trend": trend, "normalizer": nk, "lmbda": lm if nk == "boxcox" else None,
            "mesh": mesh, "shape": list(srf.field_shape)}
    return srf, cfg, desc


def gen_call(rng, srf, desc):
    """one transform call: (model call dict, real kwargs, method key)"""
    mk = str(rng.choice(list(METHOD_NAMES)))
    name = str(rng.choice(METHOD_NAMES[mk]))
    call, kw = {"method": mk}, {}
    m, s = desc["mean"], np.sqrt(desc["sill"])
    if mk == "binary":
        for key, v in (("divide", m + 0.3), ("upper", 5.0), ("lower", -5.0)):
            if rng.rand() < 0.5:
                kw[key] = v
                call[key] = f2b(v)
    elif mk == "discrete":
        k = int(rng.choice([1, 2, 3, 4]))
        vals = [float(v) for v in rng.choice(VALUE_POOL, size=k, replace=False)]
        kind = str(rng.choice(["arithmetic", "equal", "explicit"]))
        kw["values"] = vals if rng.rand() < 0.5 else np.array(vals)
        call["vals"] = fbits(vals)
        if kind == "explicit":
            base = m + s * np.sort(rng.choice(np.arange(-6, 7) / 4.0, size=max(k - 1, 0) if rng.rand() < 0.9 else k, replace=False))
            kw["thresholds"] = [list, tuple, np.array][rng.randint(3)](base)
            call.update(mode="explicit", thr=fbits(base))
        else:
            kw["thresholds"] = kind
            call.update(mode=kind)
    elif mk == "boxcox":
        l = float(rng.choice([1.0, 0.5, 2.0, -0.5, 0.0]))
        sh = float(rng.choice([0.0, 1.0]))
        if rng.rand() < 0.7:
            kw.update(lmbda=l, shift=sh)
        else:
            l, sh = 1.0, 0.0
        call.update(lmbda=f2b(l), shift=f2b(sh))
    elif mk == "zinnharvey":
        high = bool(rng.rand() < 0.5)
        if not high or rng.rand() < 0.5:
            kw["conn"] = "high" if high else "low"
        call["high"] = high
    elif mk == "uniform":
        low, high = [(0.0, 1.0), (-2.0, 3.0), (5.0, 5.5)][rng.randint(3)]
        if (low, high) != (0.0, 1.0) or rng.rand() < 0.5:
            kw.update(low=low, high=high)
        call.update(low=f2b(low), high=f2b(high))
    elif mk in ("arcsin", "uquad"):
        a, b = [(None, None), (None, None), (0.0, 1.0), (-2.0, 3.0), (None, 20.0)][rng.randint(5)]
        if a is not None:
            kw["a"] = a
        if b is not None:
            kw["b"] = b
        call.update(a=_ob(a), b=_ob(b))
    return call, kw, mk, name


STORE_NAMES = ["field", "f2", "out", "_x1", "f2", "out", "field", "f3", "2bad", "mean", "has space", "transform"]


def corr_fields(ctx, out):
    """histories of fld.transform calls; the model is re-synchronised with the real stored state before every call,
    so each step is compared on its own (no error accumulation), together with field_names and all stored arrays"""
    from gstools.transform.field import _pre_process
    rng = np.random.RandomState(ctx.seed + 1902)
    nh = ctx.scale(1500, 8000)
    ops, metas = [], []
    for h in range(nh):
        srf, cfg, desc = gen_field(rng)
        steps = int(rng.choice([1, 2, 3, 5]))
        for t in range(steps):
            names = list(srf.field_names)
            state = [np.array(srf[nm], dtype=float).ravel() for nm in names]
            reserved = [a for a in dir(srf) if a not in names]
            call, kw, mk, mname = gen_call(rng, srf, desc)
            fsel = str(rng.choice(names)) if rng.rand() < 0.93 else "missing"
            r = rng.rand()
            store = True if r < 0.35 else False if r < 0.5 else str(rng.choice(STORE_NAMES))
            process = bool(rng.rand() < 0.5)
            keep = bool(rng.rand() < 0.5)
            kws = dict(kw)
            if rng.rand() < 0.8 or not keep:
                kws["keep_mean"] = keep
            call.update(field=fsel, store=store, process=process, keep_mean=keep)
            # conditioning information from the real pre-processing
            z = None
            if fsel in names:
                d = state[names.index(fsel)]
                with warnings.catch_warnings():
                    warnings.simplefilter("ignore")
                    with np.errstate(all="ignore"):
                        pre = np.asarray(_pre_process(srf, d.reshape(srf.field_shape), keep)).ravel() if process else d
                um = 0.0 if (process and not keep) else desc["mean"]
                z = (pre - um) / np.sqrt(desc["sill"])
            rr = _real(srf.transform, mname, field=fsel, store=store, process=process, **kws)
            if rr[0] == "ok":
                if list(rr[1].shape) != list(srf.field_shape):
                    rr = ("exc", f"shape{rr[1].shape}", [])
                else:
                    rr = ("ok", rr[1].ravel(), rr[2])
            after_names = list(srf.field_names)
            after = [np.array(srf[nm], dtype=float).ravel() for nm in after_names]
            op = dict(op="c19_history", reserved=reserved, names=names, fields=[fbits(a) for a in state], calls=[call])
            op.update(cfg)
            ops.append(op)
            metas.append(dict(desc=desc, method=mk, name=mname, kw={k: (_jl(v) if not isinstance(v, (str, bool)) else v) for k, v in kws.items()},
                              field=fsel, store=store, process=process, keep_mean=keep, names=names, state=[_jl(a) for a in state],
                              real=rr, after_names=after_names, after=after, z=z))
            if rr[0] == "ok" and np.isnan(rr[1]).any():
                break   # NaN entries (outside the property): discrete leaves uninitialised memory behind
    res = run_driver(ops)
    for meta, r in zip(metas, res):
        out["evaluations"] += 1
        rr = meta["real"]
        desc = meta["desc"]
        mk = meta["method"]
        key = (mk, meta["process"], meta["keep_mean"], desc["normalizer"], desc["trend"] is not None,
               "ok" if rr[0] == "ok" else rr[1], meta["store"] if isinstance(meta["store"], bool) else "name")
        out["_distinct"].add(("field",) + key)
        d = out["distribution"]
        for k2 in ("field:" + mk, f"field:process={meta['process']},keep_mean={meta['keep_mean']}",
                   "field:normalizer=" + desc["normalizer"], "field:mesh=" + desc["mesh"], "field:result:" + ("ok" if rr[0] == "ok" else rr[1]),
                   "field:store=" + (str(meta["store"]) if isinstance(meta["store"], bool) else "name")):
            d[k2] = d.get(k2, 0) + 1
        case = {k: meta[k] for k in ("desc", "method", "name", "kw", "field", "store", "process", "keep_mean", "names", "state")}
        if not (isinstance(r, list) and len(r) == 1 and isinstance(r[0], dict)):
            out["disagreements"].append({"what": f"field:{mk}: driver error {r}", "case": case})
            continue
        step = r[0]
        mret = _dec(step["ret"])
        bad = None
        if mret[0] == "driver":
            bad = "driver error " + mret[1]
        elif rr[0] == "exc" or mret[0] == "exc":
            if rr[0] != mret[0] or rr[1] != mret[1]:
                bad = f"real {rr[:2]} vs model {mret}"
        if bad is None and step["names"] != meta["after_names"]:
            bad = f"field_names: real {meta['after_names']} vs model {step['names']}"
        if bad is None:
            # tolerance: conditioning of the array function and of the post-processing
            z = meta["z"]
            n = len(meta["state"][0])
            mask = np.ones(n, dtype=bool)
            amp = np.ones(n)
            if z is not None:
                with np.errstate(all="ignore"):
                    if mk == "zinnharvey":
                        mask &= (np.abs(z) >= 1e-4) & (np.abs(z) <= 4.2)
                        amp = amp * (1 + 1e3 * np.exp(np.minimum(z * z / 2, 20)) / 2981)
                    if mk == "uquad":
                        mask &= np.abs(z) >= 2.5e-3
                    mask &= ~np.isnan(z)

            def tol_for(a):
                with np.errstate(all="ignore"):
                    t = 1e-11 * (1 + np.abs(a)) * amp
                    if meta["process"] and desc["normalizer"] == "lognormal":
                        t = t * (1 + np.abs(np.log(np.abs(a - (desc["trend"] or 0.0)))))
                    if meta["process"] and desc["normalizer"] == "boxcox" and abs(desc["lmbda"]) > 1e-8:
                        o = np.abs(a - (desc["trend"] or 0.0))
                        l = desc["lmbda"]
                        y = (o ** l - 1) / l
                        t = t * (1 + (1 + np.abs(y)) / o ** l)
                    if mk == "boxcox":
                        t = t * 10
                    return np.where(np.isfinite(t), t, 0.0)

            pairs = []
            if rr[0] == "ok":
                pairs.append(("return value", rr[1], mret[1]))
            for nm, arr, marr in zip(meta["after_names"], meta["after"], step["fields"]):
                pairs.append((f"stored field {nm!r}", arr, unbits(marr) if marr else np.zeros(0)))
            for what, a, b in pairs:
                ok = _close(a, b, tol_for(a))
                if a.shape == b.shape and what == "return value" or (a.shape == b.shape and not np.array_equal(a, b, equal_nan=True)):
                    ok = ok | ~mask
                    if mk in ("discrete", "binary"):
                        ok = ok | np.isnan(b)       # never-written entries (NaN input) hold arbitrary memory
                if not ok.all():
                    i = int(np.where(~ok)[0][0])
                    bad = f"{what} entry {i}: real {a[i] if a.shape == b.shape else a.shape} vs model {b[i] if a.shape == b.shape else b.shape}"
                    break
            d["field:skipped_ill_conditioned_entries"] = d.get("field:skipped_ill_conditioned_entries", 0) + int((~mask).sum())
        if bad:
            out["disagreements"].append({"what": f"field:{mk}: {bad}", "case": case,
                                         "real": rr[1] if rr[0] == "exc" else _jl(rr[1])})
        elif len(out["samples"]) < 8 and rr[0] == "ok" and meta["process"]:
            out["samples"].append({"case": case, "real": _jl(rr[1])})


def correspondence(ctx):
    out = {"evaluations": 0, "distinct_nontrivial": 0, "samples": [], "disagreements": [], "distribution": {},
           "_distinct": set(),
           "rule": "Φ/Φ⁻¹ of the driver vs scipy on random + boundary points; random calls of the 8 array functions "
                   "(+ the two ppf helpers and the Box-Cox normalizer) over sample size, mean/var given or defaulted, "
                   "bounds, λ/shift, values and thresholds as list/tuple/ndarray incl. malformed ones, entries on the "
                   "thresholds; histories of Field.transform calls over 9 wrappers x process x keep_mean x normalizer "
                   "(none/LogNormal/BoxCox) x trend x store (True/False/new/existing/invalid name) x missing field. "
                   "distinct = distinct (function, parameters class, outcome) / (wrapper, process, keep_mean, normalizer, "
                   "trend, outcome, store kind) tuples; all cases are non-trivial (sample size >= 1, real code executed)"}
    corr_phi(ctx, out)
    corr_arrays(ctx, out)
    corr_fields(ctx, out)
    out["distinct_nontrivial"] = len(out.pop("_distinct"))
    out["disagreements"] = out["disagreements"][:20]
    return out


# ------------------------------------------------------------------------------------------------ search
def ks_stat(sample, cdf):
    s = np.sort(np.asarray(sample, dtype=float))
    n = len(s)
    F = cdf(s)
    return float(max(np.max(np.arange(1, n + 1) / n - F), np.max(F - np.arange(0, n) / n)))


def cdf_uniform(low, high):
    return lambda y: np.clip((y - low) / (high - low), 0, 1)


def cdf_arcsin(a, b):
    return lambda y: 2 / np.pi * np.arcsin(np.sqrt(np.clip((y - a) / (b - a), 0, 1)))


def cdf_uquad(a, b):
    be = (a + b) / 2
    return lambda y: np.clip(4 * (y - be) ** 3 / (b - a) ** 3 + 0.5, 0, 1)


def cdf_norm(m, s):
    return lambda y: special.ndtr((y - m) / s)


def cdf_lognorm(m, s):
    return lambda y: special.ndtr((np.log(np.maximum(y, 1e-300)) - m) / s)


def search(ctx, deep=False):
    import gstools as gs
    from gstools.transform import array as A
    rng = np.random.RandomState(ctx.seed + 1950)
    N = ctx.scale(400000, 1000000) * (2 if deep else 1)
    ALPHA = 1e-9                                  # per-test false-alarm probability
    ks_thr = float(stats.kstwo.isf(ALPHA, N))
    SIG = 6.5
    viol, ev = [], 0

    def ks(key, what, sample, cdf, case):
        nonlocal ev
        ev += 1
        d = ks_stat(sample, cdf)
        if not (d <= ks_thr):
            viol.append({"key": key, "what": f"{what}: KS distance {d:.5f} > {ks_thr:.5f} (N={N}, alpha={ALPHA})", "case": case})

    def moment(key, what, sample, m, v, kurt_bound, case):
        """sample mean / variance within SIG standard errors of m / v"""
        nonlocal ev
        ev += 1
        n = len(sample)
        sm, sv = float(np.mean(sample)), float(np.var(sample))
        if abs(sm - m) > SIG * np.sqrt(v / n) or abs(sv - v) > SIG * v * np.sqrt(kurt_bound / n):
            viol.append({"key": key, "what": f"{what}: sample mean/var {sm:.5f}/{sv:.5f} vs {m}/{v}", "case": case})

    configs = [(0.0, 1.0), (1.5, 0.25), (-2.0, 4.0), (10.0, 2.5)]
    reps = 1 if ctx.quick else 2
    for rep in range(reps):
        for (m, v) in configs:
            s = np.sqrt(v)
            x = m + s * rng.randn(N)
            case = {"mean": m, "var": v, "N": N, "seed": ctx.seed}
            # --- array functions with the true mean / variance
            ks("ks:lognormal", "array_to_lognormal", A.array_to_lognormal(x), cdf_lognorm(m, s), case)
            for low, high in [(0.0, 1.0), (-2.0, 3.0)]:
                ks("ks:uniform", f"array_to_uniform[{low},{high}]", A.array_to_uniform(x, m, v, low, high),
                   cdf_uniform(low, high), dict(case, low=low, high=high))
            for a, b in [(None, None), (-2.0, 3.0), (None, m + 7.0)]:
                aa = m - np.sqrt(2 * v) if a is None else a
                bb = m + np.sqrt(2 * v) if b is None else b
                y = A.array_to_arcsin(x, m, v, a, b)
                ks("ks:arcsin", f"array_to_arcsin a={a} b={b}", y, cdf_arcsin(aa, bb), dict(case, a=a, b=b))
                if a is None and b is None:
                    moment("moments:arcsin-default-bounds", "arcsine default bounds keep mean and variance", y, m, v, 1.0, case)
                aa = m - np.sqrt(5 / 3 * v) if a is None else a
                bb = m + np.sqrt(5 / 3 * v) if b is None else b
                y = A.array_to_uquad(x, m, v, a, b)
                ks("ks:uquad", f"array_to_uquad a={a} b={b}", y, cdf_uquad(aa, bb), dict(case, a=a, b=b))
                if a is None and b is None:
                    moment("moments:uquad-default-bounds", "U-quadratic default bounds keep mean and variance", y, m, v, 1.0, case)
            for conn in ("high", "low"):
                y = A.array_zinnharvey(x, conn, m, v)
                ks("ks:zinnharvey", f"array_zinnharvey conn={conn} keeps the normal marginal", y[np.isfinite(y)], cdf_norm(m, s), dict(case, conn=conn))
                # order reversal: conn='high' is strictly decreasing in |x-mean|, 'low' increasing
                ev += 1
                o = np.argsort(np.abs(x - m))
                yy = y[o][np.abs(x - m)[o] < 5 * s]
                dd = np.diff(yy)
                if (conn == "high" and np.any(dd > 1e-9)) or (conn == "low" and np.any(dd < -1e-9)):
                    viol.append({"key": "zinnharvey:order", "what": f"array_zinnharvey conn={conn} is not monotone in |x-mean|", "case": case})
            # --- defaults: mean / var estimated from the sample
            ks("ks:uniform-sample-moments", "array_to_uniform with sample moments", A.array_to_uniform(x), cdf_uniform(0, 1), case)
            # --- Box-Cox: normalising the output again gives the (shifted) normal sample
            for lm, sh in [(0.5, 0.0), (1.0, 1.0), (0.0, 0.0), (2.0, 0.5), (-0.5, 0.0)]:
                ev += 1
                with warnings.catch_warnings(record=True) as ws:
                    warnings.simplefilter("always")
                    with np.errstate(all="ignore"):
                        y = A.array_boxcox(x, lm, sh)
                warned = any(CUT in str(w.message) for w in ws)
                r = x + sh
                cut = (abs(lm) > 1e-8) and bool(np.any(lm * r + 1 < 0))
                if warned != cut:
                    viol.append({"key": "boxcox:cutoff-warning:" + ("negative-lmbda" if lm < 0 else "positive-lmbda"),
                                 "what": f"array_boxcox lmbda={lm}: cut-off warning {warned} but values cut off: {cut}",
                                 "case": dict(case, lmbda=lm, shift=sh)})
                inside = (lm * r + 1 > 1e-6) if abs(lm) > 1e-8 else np.ones(N, dtype=bool)
                with warnings.catch_warnings():
                    warnings.simplefilter("ignore")
                    with np.errstate(all="ignore"):
                        back = gs.normalizer.BoxCox(lmbda=lm).normalize(y[inside])
                err = np.abs(back - r[inside]) / (1 + np.abs(r[inside]))
                if not np.all(err < 1e-7):
                    viol.append({"key": "boxcox:inverse", "what": f"BoxCox({lm}).normalize(array_boxcox(x)) != x + shift (max rel err {np.nanmax(err):.2e})",
                                 "case": dict(case, lmbda=lm, shift=sh)})
            # --- force moments: exact sample moments, still normal
            for tm, tv in [(0.0, 1.0), (3.0, 0.5)]:
                ev += 1
                y = A.array_force_moments(x, tm, tv)
                if abs(np.mean(y) - tm) > 1e-11 * (1 + abs(tm)) or abs(np.var(y) - tv) > 1e-11 * tv:
                    viol.append({"key": "force_moments:exact", "what": f"array_force_moments: mean/var {np.mean(y)!r}/{np.var(y)!r} requested {tm}/{tv}",
                                 "case": dict(case, tmean=tm, tvar=tv)})
                ks("ks:force_moments", "array_force_moments stays normal", y, cdf_norm(tm, np.sqrt(tv)), dict(case, tmean=tm, tvar=tv))
            # --- discrete: partition oracle and class frequencies
            for k in (2, 3, 5, 8):
                vals = rng.permutation(np.arange(k) * 1.5 - 2.0)
                ev += 1
                y = A.array_discrete(x, vals, "equal", mean=m, var=v)
                cnt = np.array([(y == vv).sum() for vv in vals])
                sd = np.sqrt(N * (1 / k) * (1 - 1 / k))
                if not np.isin(y, vals).all() or np.any(np.abs(cnt - N / k) > SIG * sd):
                    viol.append({"key": "discrete:equal-classes", "what": f"'equal' thresholds: class counts {cnt.tolist()} expected {N / k:.0f}±{SIG * sd:.0f}",
                                 "case": dict(case, values=vals.tolist())})
                thr_ref = m + s * special.ndtri(np.arange(1, k) / k)
                if not np.array_equal(y, np.asarray(vals)[np.searchsorted(thr_ref, x, side="left")]):
                    bad = np.where(y != np.asarray(vals)[np.searchsorted(thr_ref, x, side="left")])[0]
                    # only entries within 1e-12 of a quantile may differ
                    if np.min(np.abs(x[bad][:, None] - thr_ref[None, :])) > 1e-12 * (1 + abs(m) + s):
                        viol.append({"key": "discrete:equal-thresholds", "what": "'equal' classes differ from the normal quantile partition",
                                     "case": dict(case, values=vals.tolist(), x=float(x[bad[0]]))})
                for cont in (list, tuple, np.array):
                    ev += 1
                    thr = np.sort(m + s * rng.choice(np.arange(-10, 11) / 5.0, size=k - 1, replace=False))
                    xx = np.concatenate([x[:2000], thr])
                    r = _real(A.array_discrete, xx, cont(vals), cont(thr))
                    ref = np.asarray(vals)[np.searchsorted(thr, xx, side="left")]
                    if r[0] != "ok" or not np.array_equal(r[1], ref):
                        viol.append({"key": f"discrete:explicit:{cont.__name__}", "what": f"explicit thresholds as {cont.__name__}: {r[1] if r[0] == 'exc' else 'wrong partition'}",
                                     "case": dict(case, values=vals.tolist(), thresholds=thr.tolist())})
                ev += 1
                y = A.array_discrete(x[:5000], vals)
                sv = np.sort(vals)
                ref = sv[np.argmin(np.abs(x[:5000, None] - sv[None, :]), axis=1)]   # nearest value
                if not np.array_equal(y, ref):
                    viol.append({"key": "discrete:arithmetic", "what": "'arithmetic' thresholds do not select the nearest value",
                                 "case": dict(case, values=vals.tolist())})
        # --- Field.transform wrappers: process / keep_mean with mean, normalizer, trend
        for (mean, normname, trend) in [(1.5, "none", None), (0.7, "lognormal", None), (-1.0, "none", 0.5), (0.5, "lognormal", 2.0)]:
            model = gs.Gaussian(dim=1, var=2.0, len_scale=1.0, nugget=0.5)
            sill = float(model.sill)
            sd = np.sqrt(sill)
            norm = None if normname == "none" else gs.normalizer.LogNormal()
            raw = sd * rng.randn(N)
            for process, keep in [(False, True), (True, True), (True, False)]:
                if not process and (norm is not None or trend is not None):
                    continue
                um = 0.0 if (process and not keep) else mean
                case = {"mean": mean, "sill": sill, "normalizer": normname, "trend": trend, "process": process, "keep_mean": keep, "N": N}

                def fresh():
                    srf = gs.SRF(model, mean=mean, normalizer=norm, trend=trend, seed=1)
                    srf.set_pos(np.arange(float(N)), "unstructured")
                    srf.post_field(raw, "field", process=True)
                    return srf

                def inner(srf, y):
                    """undo the post-processing: the variable whose law the array function determines"""
                    y = np.asarray(y) - (trend or 0.0)
                    with np.errstate(all="ignore"):
                        y = srf.normalizer.normalize(y)
                    return y - (0.0 if keep or not process else mean) if process else np.asarray(y)

                kws = dict(process=process, keep_mean=keep)
                tests = [
                    ("uniform", dict(low=-1.0, high=2.0), cdf_uniform(-1.0, 2.0)),
                    ("arcsin", {}, cdf_arcsin(um - np.sqrt(2 * sill), um + np.sqrt(2 * sill))),
                    ("uquad", {}, cdf_uquad(um - np.sqrt(5 / 3 * sill), um + np.sqrt(5 / 3 * sill))),
                    ("zinnharvey", dict(conn="low"), cdf_norm(um, sd)),
                    ("force_moments", {}, cdf_norm(um, sd)),
                    ("lognormal", {}, cdf_lognorm(um, sd)),
                ]
                for meth, kw, cdf in tests:
                    if meth == "lognormal" and norm is not None:
                        continue      # exp(exp(x)) overflows for z > 3.7: not a property of the transformation
                    srf = fresh()
                    with warnings.catch_warnings():
                        warnings.simplefilter("ignore")
                        y = srf.transform(meth, store="t", **kws, **kw)
                        yi = np.asarray(inner(srf, y) if process else y, dtype=float)
                    ks(f"ks:field:{meth}", f"Field.transform({meth!r}, process={process}, keep_mean={keep})", yi, cdf, case)
                    ev += 1
                    if not np.array_equal(srf["t"], y) or not np.array_equal(srf["field"], fresh()["field"]):
                        viol.append({"key": "field:store", "what": f"transform({meth!r}, store='t') did not store the result under 't' or changed 'field'", "case": case})
                # binary defaults: two values mean ± sqrt(sill), split at the mean, probability 1/2 each
                srf = fresh()
                ev += 1
                with warnings.catch_warnings():
                    warnings.simplefilter("ignore")
                    try:
                        y = srf.transform("binary", store=False, **kws)
                        yi = np.asarray(inner(srf, y) if process else y, dtype=float)
                        up = np.isclose(yi, um + sd, rtol=1e-9, atol=1e-9)
                        lo = np.isclose(yi, um - sd, rtol=1e-9, atol=1e-9)
                        if not np.all(up | lo) or abs(up.sum() - N / 2) > SIG * np.sqrt(N) / 2:
                            viol.append({"key": "binary:default", "what": f"binary defaults: {up.sum()} upper / {lo.sum()} lower of {N}", "case": case})
                    except Exception as e:
                        viol.append({"key": "binary:exception", "what": f"{type(e).__name__}: {e}", "case": case})
    return {"evaluations": ev, "violations": viol[:8],
            "summary": f"KS tests (N={N}, exact kstwo threshold at alpha={ALPHA}) of array functions and Field.transform wrappers "
                       f"(process/keep_mean x mean/normalizer/trend) against the documented cdfs; default-bound moments; "
                       f"force_moments exact to 1e-11; 'equal' class counts within {SIG} sigma and against normal quantiles; "
                       f"explicit (list/tuple/ndarray) and arithmetic partitions against searchsorted / nearest value; "
                       f"Box-Cox round trip and cut-off warning oracle; Zinn-Harvey order reversal in |x-mean|"}
