"""C18 — Normalizers are invertible monotone maps; the mean/norm/trend pipeline is exact.

correspondence (tie B): the real gstools normalizers / pipeline against the Lean model GSV.Model.Norm run on Float.
search: real-API round trips, monotonicity, derivative vs finite differences and an mpmath oracle of the documented
formulas, likelihood vs independent Gaussian formula, fit sanity, Field/SRF/Krige pipelines.
"""
import warnings

import numpy as np

import proto
from proto import run_driver, f2b, fbits, unbits

ASSUMPTIONS = [
    "the formula layer of GSV/Model/Norm.lean (normRaw / denormRaw / derivRaw / normRange / denormRange of the six "
    "classes) is proved equal to definitions regenerated from normalizer/methods.py by vlib/pyexpr2lean.py (tie A, "
    "GSV/Props/GenTieNorm.lean); the rest of the model (masking, likelihoods, pipeline, identity base class) is "
    "hand-written from normalizer/{base,tools}.py and tied to the code only by this differential execution",
    "vlib/pyexpr2lean.py and GSV/PyExpr.lean define what an element-wise numpy expression means",
    "np.log1p(x)/np.expm1(x) are modelled as log(1+x)/exp(x)-1 (same real functions); Float results are compared "
    "within a condition-aware tolerance 5e-13*(|a|+|b|) + 2e-14*(1+1/|lmbda_eff|)",
    "theorems are over the reals; IEEE effects (saturation of exp/pow, e.g. Manly(lmbda<0).normalize(50) landing "
    "exactly on the range boundary) are outside the model and excluded from the search by conditioning guards",
    "Normalizer.fit (scipy minimiser) is not modelled; only sanity-checked as a local maximum of loglikelihood",
    "eval_func / shape handling of callable mean and trend is re-derived by the harness (callable evaluated on "
    "the position tuple resp. the 'ij' meshgrid), not modelled in Lean",
]

KINDS = ["Normalizer", "LogNormal", "BoxCox", "BoxCoxShift", "YeoJohnson", "Modulus", "Manly"]
HAS_LMBDA = {"BoxCox", "BoxCoxShift", "YeoJohnson", "Modulus", "Manly"}
EPS = np.finfo(float).eps


def make(kind, lmbda, shift):
    import gstools.normalizer as N
    cls = getattr(N, kind)
    if kind == "BoxCoxShift":
        return cls(lmbda=lmbda, shift=shift)
    if kind in HAS_LMBDA:
        return cls(lmbda=lmbda)
    return cls()


def special_lambdas():
    b0 = 1e-8
    b2 = 1e-8 + 2e-5
    out = [0.0, 2.0, 1.0, -1.0, 0.5, -0.5, -2.0, 3.0, 1.5, 2.5, 1e-9, -1e-9, b0, -b0,
           np.nextafter(b0, 1), -np.nextafter(b0, 1), 1.0000001e-8, -1.0000001e-8, 1e-6, -1e-6, 1e-3, -1e-3,
           2 + 1e-5, 2 - 1e-5, 2 + b2 * 0.999, 2 - b2 * 0.999, 2 + b2 * 1.001, 2 - b2 * 1.001, 2 + 1e-3, 2 - 1e-3,
           -1.0 / 3, 0.25, -4.0]
    return [float(v) for v in out]


def lam_grid(rng, nrand):
    return special_lambdas() + [float(v) for v in rng.uniform(-3, 4, size=nrand)]


def param_grid(rng, kind, nrand):
    if kind not in HAS_LMBDA:
        return [(1.0, 0.0)] * max(2, nrand // 8)   # parameter-free: several data batches
    if kind == "BoxCoxShift":
        lams = lam_grid(rng, nrand)
        return [(l, float(s)) for l in lams for s in rng.choice([0.0, 1.5, -2.0, 0.1], size=2, replace=False)]
    return [(l, 0.0) for l in lam_grid(rng, nrand)]


def lam_eff(kind, l):
    """smallest |exponent| by which the code divides (1 when it takes an isclose branch)"""
    if kind not in HAS_LMBDA:
        return 1.0
    v = []
    if not np.isclose(l, 0):
        v.append(abs(l))
    if kind == "YeoJohnson" and not np.isclose(l, 2):
        v.append(abs(2 - l))
    return min(v + [1.0])


def tol_for(kind, l, a, b):
    return 5e-13 * (np.abs(a) + np.abs(b)) + 2e-14 * (1.0 + 1.0 / lam_eff(kind, l))


def cmp_arrays(kind, l, real, model):
    """elementwise: same NaN mask and values within the condition-aware tolerance; returns list of bad indices"""
    real = np.asarray(real, dtype=float).ravel()
    model = np.asarray(model, dtype=float).ravel()
    if real.shape != model.shape:
        return ["shape"]
    bad = []
    nr, nm = np.isnan(real), np.isnan(model)
    with np.errstate(all="ignore"):
        t = tol_for(kind, l, np.where(np.isfinite(real), real, 0), np.where(np.isfinite(model), model, 0))
        for i in range(real.size):
            if nr[i] or nm[i]:
                if nr[i] != nm[i]:
                    bad.append(i)
            elif np.isinf(real[i]) or np.isinf(model[i]):
                if real[i] != model[i]:
                    bad.append(i)
            elif abs(real[i] - model[i]) > t[i]:
                bad.append(i)
    return bad


def call_real(fn, data):
    """returns (array, warned_out_of_range)"""
    with warnings.catch_warnings(record=True) as w:
        warnings.simplefilter("always")
        with np.errstate(all="ignore"):
            out = fn(data)
    warned = any("out of range" in str(x.message) for x in w)
    return np.asarray(out, dtype=float), warned


def gen_data(rng, rng_tuple, n):
    """structured data for a range (lo, hi): inside, on and around the boundaries, far outside, NaN, inf, zeros"""
    lo, hi = float(rng_tuple[0]), float(rng_tuple[1])
    pts = [np.nan, 0.0, -0.0, 1.0, -1.0, 1e-300, -1e-300, 1e-9, -1e-9, np.inf, -np.inf, 0.5, 2.0, 7.25, -3.5]
    for b in (lo, hi):
        if np.isfinite(b):
            pts += [b, np.nextafter(b, np.inf), np.nextafter(b, -np.inf), b + 1e-9 * (1 + abs(b)), b - 1e-9 * (1 + abs(b)),
                    b + 0.5, b - 0.5, b + 3.0, b - 3.0, b * 0.5, b * 2.0]
    pts += list(rng.uniform(-4, 4, size=n))
    pts += list(np.exp(rng.uniform(-6, 4, size=n // 2)))
    pts += list(-np.exp(rng.uniform(-6, 3, size=n // 2)))
    if np.isfinite(lo) and not np.isfinite(hi):
        pts += list(lo + np.exp(rng.uniform(-8, 3, size=n)))
    if np.isfinite(hi) and not np.isfinite(lo):
        pts += list(hi - np.exp(rng.uniform(-8, 3, size=n)))
    return np.array(pts, dtype=float)


# ------------------------------------------------------------------------------------------ correspondence
def corr_normalizers(ctx, rng, out):
    nrand = ctx.scale(60, 400)
    ndata = ctx.scale(40, 80)
    ops, meta = [], []
    for kind in KINDS:
        for (l, s) in param_grid(rng, kind, nrand):
            nz = make(kind, l, s)
            base = dict(kind=kind, lmbda=f2b(l), shift=f2b(s))
            # ranges and isclose flags
            ops.append(dict(op="norm_ranges", **base))
            meta.append(("ranges", kind, l, s, None, nz))
            xn = gen_data(rng, nz.normalize_range, ndata)
            xd = gen_data(rng, nz.denormalize_range, ndata)
            if kind in HAS_LMBDA and not np.isclose(l, 0):
                # values spread over the image scale 1/|lmbda|
                xd = np.concatenate([xd, rng.uniform(-2, 2, size=ndata) / abs(l)])
            for what, x in (("normalize", xn), ("denormalize", xd), ("derivative", xn)):
                ops.append(dict(op="norm_eval", what=what, data=fbits(x), **base))
                meta.append((what, kind, l, s, x, nz))
            # likelihood on mostly valid data with some NaN / out-of-range entries
            lo = nz.normalize_range[0]
            lo = lo if np.isfinite(lo) else -2.0
            xl = lo + np.exp(rng.uniform(-2, 1.5, size=int(rng.randint(3, 25))))
            if rng.rand() < 0.5:
                xl = np.concatenate([xl, [np.nan, lo - 1.0]])
            if kind in ("YeoJohnson", "Modulus", "Manly", "Normalizer"):
                xl = np.concatenate([xl, rng.uniform(-2, 2, size=4)])
            ops.append(dict(op="norm_loglik", data=fbits(xl), **base))
            meta.append(("loglik", kind, l, s, xl, nz))
    res = run_driver(ops)
    dis, dist = out["disagreements"], out["distribution"]
    for (what, kind, l, s, x, nz), r in zip(meta, res):
        case = dict(kind=kind, lmbda=l, shift=s, op=what)
        if isinstance(r, dict) and "error" in r:
            dis.append(dict(what=f"driver error {what}", detail=r["error"], **case))
            continue
        out["evaluations"] += 1
        dist[f"{kind}:{what}"] = dist.get(f"{kind}:{what}", 0) + 1
        if what == "ranges":
            rn, rd = unbits(r[0]), unbits(r[1])
            with np.errstate(all="ignore"):
                wn = np.array(nz.normalize_range, dtype=float)
                wd = np.array(nz.denormalize_range, dtype=float)
            c0 = bool(np.isclose(l, 0)) if kind in HAS_LMBDA else None
            c2 = bool(np.isclose(l, 2)) if kind in HAS_LMBDA else None
            ok = np.array_equal(rn, wn) and np.array_equal(rd, wd)
            if c0 is not None:
                ok = ok and (r[2] == c0) and (r[3] == c2)
            out["keys"].add((kind, "ranges", l, s))
            if not ok:
                dis.append(dict(what=f"ranges:{kind}", real=[wn.tolist(), wd.tolist(), c0, c2],
                                model=[rn.tolist(), rd.tolist(), r[2], r[3]], **case))
            if len(out["samples"]) < 2:
                out["samples"].append(dict(case=case, real=[wn.tolist(), wd.tolist()], model=[rn.tolist(), rd.tolist()]))
        elif what == "loglik":
            with warnings.catch_warnings():
                warnings.simplefilter("ignore")
                with np.errstate(all="ignore"):
                    kll = float(nz.kernel_loglikelihood(x))
                    ll = float(nz.loglikelihood(x))
                    d = nz._check_input(x, nz.normalize_range, False)
                    scale = d.size * (abs(np.log(np.var(nz._normalize(d)))) + np.max(np.abs(np.log(np.maximum(1e-16, nz._derivative(d))))) + 3.0)
            m = unbits(r[0])
            n_model = int(r[1])
            t = 1e-12 * scale * (1 + 1 / lam_eff(kind, l))
            ok = n_model == d.size
            for a, b in ((kll, m[0]), (ll, m[1])):
                if np.isnan(a) or np.isnan(b) or np.isinf(a) or np.isinf(b):
                    ok = ok and ((np.isnan(a) and np.isnan(b)) or a == b)
                else:
                    ok = ok and abs(a - b) <= t
            out["keys"].add((kind, "loglik", l, s))
            if not ok:
                dis.append(dict(what=f"loglik:{kind}", real=[kll, ll, int(d.size)], model=[float(m[0]), float(m[1]), n_model],
                                data=x.tolist(), **case))
        else:
            fn = getattr(nz, what)
            real, warned = call_real(fn, x)
            model = unbits(r[0])
            bad = cmp_arrays(kind, l, real, model)
            nn = int(np.sum(~np.isnan(real)))
            dist[f"{kind}:{what}:masked"] = dist.get(f"{kind}:{what}:masked", 0) + int(real.size - nn)
            out["elements"] += real.size
            for i in range(real.size):
                out["keys"].add((kind, what, l, s, float(x[i]) if not np.isnan(x[i]) else "nan"))
            if bad:
                i = bad[0]
                dis.append(dict(what=f"{what}:{kind}", index=i if isinstance(i, str) else int(i),
                                x=None if isinstance(i, str) else float(x[i]),
                                real=None if isinstance(i, str) else float(real[i]),
                                model=None if isinstance(i, str) else float(model[i]), nbad=len(bad), **case))
            if warned != bool(r[1]):
                dis.append(dict(what=f"warning:{what}:{kind}", real=warned, model=bool(r[1]), **case))
            if len(out["samples"]) < 5 and kind == "YeoJohnson":
                out["samples"].append(dict(case=case, x=x[:6].tolist(), real=real[:6].tolist(), model=model[:6].tolist()))


def mean_trend_choices(rng, dim):
    """(label, value passed to gstools, evaluator on a list of coordinate arrays)"""
    c = float(rng.choice([0.5, -1.25, 2.0, 0.0]))
    a = rng.uniform(-0.5, 0.5, size=dim)
    def lin(*pos):
        return c + sum(ai * np.asarray(p, dtype=float) for ai, p in zip(a, pos))
    return [("none", None, lambda *pos: 0.0 * np.asarray(pos[0], dtype=float)),
            ("const", c, lambda *pos: c + 0.0 * np.asarray(pos[0], dtype=float)),
            ("callable", lin, lin)]


def corr_pipeline(ctx, rng, out):
    """apply_mean_norm_trend / remove_trend_norm_mean, Field.__call__(field=raw), SRF post_process, Krige._krige_cond"""
    import gstools as gs
    from gstools.normalizer import apply_mean_norm_trend, remove_trend_norm_mean
    n = ctx.scale(800, 6000)
    ops, meta = [], []
    for t in range(n):
        kind = KINDS[t % len(KINDS)]
        l = float(rng.choice(special_lambdas())) if rng.rand() < 0.5 else float(rng.uniform(-2, 3))
        s = float(rng.choice([0.0, 1.5, -2.0]))
        nz = make(kind, l, s)
        dim = int(rng.randint(1, 4))
        mesh = str(rng.choice(["unstructured", "structured"]))
        vt = "vector" if (dim > 1 and rng.rand() < 0.3) else "scalar"
        if mesh == "structured":
            # distinct axis lengths: format_struct_pos_shape mis-reads equal-length axes as a stacked 1-D field
            lens = rng.permutation([2, 3, 4])[:dim]
            axes = [np.sort(rng.uniform(-2, 2, size=int(k))) for k in lens]
            grid = np.meshgrid(*axes, indexing="ij")
            pos = axes
            shp = tuple(len(a) for a in axes)
        else:
            npts = int(rng.randint(2, 9))
            pos = [rng.uniform(-2, 2, size=npts) for _ in range(dim)]
            grid = pos
            shp = (npts,)
        ch = mean_trend_choices(rng, dim)
        mlab, mval, mfun = ch[int(rng.randint(0, 3))]
        tlab, tval, tfun = ch[int(rng.randint(0, 3))]
        fshape = ((dim,) + shp) if vt == "vector" else shp
        mcell = np.broadcast_to(mfun(*grid), shp)
        tcell = np.broadcast_to(tfun(*grid), shp)
        if vt == "vector":
            # callable must return (dim, ...) for vector fields; constants broadcast
            if callable(mval):
                f0 = mval
                mval = (lambda f0: lambda *p: np.stack([f0(*p)] * len(p)))(f0)
            if callable(tval):
                f1 = tval
                tval = (lambda f1: lambda *p: np.stack([f1(*p)] * len(p)))(f1)
            mcell = np.broadcast_to(mcell, fshape)
            tcell = np.broadcast_to(tcell, fshape)
        raw = rng.uniform(-1.5, 1.5, size=fshape)
        if rng.rand() < 0.3:
            raw.ravel()[int(rng.randint(0, raw.size))] = np.nan
        route = str(rng.choice(["tools", "field", "srf", "krige"]))
        if vt == "vector" and route in ("srf", "krige"):
            route = "field"
        base = dict(kind=kind, lmbda=f2b(l), shift=f2b(s))
        case = dict(kind=kind, lmbda=l, shift=s, dim=dim, mesh=mesh, value_type=vt, mean=mlab, trend=tlab, route=route)
        try:
            with warnings.catch_warnings():
                warnings.simplefilter("ignore")
                with np.errstate(all="ignore"):
                    if route == "tools":
                        # check_shape=True does not know vector fields; post_field also calls with check_shape=False
                        kw = dict(mean=mval, normalizer=nz, trend=tval, mesh_type=mesh, value_type=vt,
                                  check_shape=(vt == "scalar"))
                        app = apply_mean_norm_trend(pos, raw, **kw)
                        rem = remove_trend_norm_mean(pos, raw, **kw)
                        back = remove_trend_norm_mean(pos, app, **kw)
                    elif route == "field":
                        fld = gs.field.Field(dim=dim, value_type=vt, mean=mval, normalizer=nz, trend=tval)
                        app = fld(pos, field=raw, mesh_type=mesh)
                        unp = fld(pos, field=raw, mesh_type=mesh, post_process=False)
                        if not np.array_equal(unp, raw, equal_nan=True):
                            out["disagreements"].append(dict(what="field:post_process=False changes the field", **case))
                        rem = back = None
                    elif route == "srf":
                        model = gs.Gaussian(dim=dim, var=0.5, len_scale=1.0)
                        srf = gs.SRF(model, mean=mval, normalizer=nz, trend=tval, seed=int(rng.randint(1, 10**6)), mode_no=16)
                        raw = np.array(srf(pos, mesh_type=mesh, post_process=False, store=False))
                        app = np.array(srf(pos, mesh_type=mesh, post_process=True, store=False))
                        rem = back = None
                    else:  # krige conditions: normalize(cond_val - cond_trend) - cond_mean
                        model = gs.Gaussian(dim=dim, var=0.5, len_scale=1.0)
                        cpos = [rng.uniform(-2, 2, size=raw.size) for _ in range(dim)]
                        grid, shp, fshape = cpos, (raw.size,), (raw.size,)
                        raw = np.nan_to_num(raw.ravel(), nan=0.7)
                        mcell, tcell = mfun(*cpos) + 0 * raw, tfun(*cpos) + 0 * raw
                        kr = gs.krige.Krige(model, cpos, raw, mean=mval, normalizer=nz, trend=tval, unbiased=False)
                        rem = np.array(kr._krige_cond)[: raw.size]
                        app = back = None
        except Exception as ex:  # pipelines must not raise on these inputs (NaN conditions are replaced above)
            out["disagreements"].append(dict(what=f"pipeline:{route}:exception", detail=f"{type(ex).__name__}: {ex}", **case))
            continue
        ops.append(dict(op="norm_pipeline", raw=fbits(raw), mean=fbits(np.ascontiguousarray(mcell)),
                        trend=fbits(np.ascontiguousarray(tcell)), **base))
        meta.append((case, kind, l, raw, app, back, rem))
    res = run_driver(ops)
    for (case, kind, l, raw, app, back, rem), r in zip(meta, res):
        if isinstance(r, dict) and "error" in r:
            out["disagreements"].append(dict(what="driver error pipeline", detail=r["error"], **case))
            continue
        out["evaluations"] += 1
        key = f"pipeline:{case['route']}:{case['mean']}/{case['trend']}:{case['value_type']}:{case['mesh']}"
        out["distribution"][key] = out["distribution"].get(key, 0) + 1
        out["keys"].add((key, kind, l))
        for name, real, mod in (("apply", app, r[0]), ("remove(apply)", back, r[1]), ("remove", rem, r[2])):
            if real is None:
                continue
            bad = cmp_arrays(kind, l, np.asarray(real).ravel(), unbits(mod))
            if bad:
                i = bad[0]
                out["disagreements"].append(dict(what=f"pipeline:{name}:{case['route']}", index=i,
                                                 real=None if isinstance(i, str) else float(np.asarray(real).ravel()[i]),
                                                 model=None if isinstance(i, str) else float(unbits(mod)[i]), **case))
        if len(out["samples"]) < 5 and case["route"] == "srf":
            out["samples"].append(dict(case=case, raw=np.asarray(raw).ravel()[:3].tolist(),
                                       real=np.asarray(app).ravel()[:3].tolist(), model=unbits(r[0])[:3].tolist()))


def corr_isclose(ctx, rng, out):
    vals = special_lambdas() + [float(v) for v in rng.uniform(-1e-7, 1e-7, size=20)] + \
        [float(2 + v) for v in rng.uniform(-5e-5, 5e-5, size=20)] + [np.nan, np.inf, -np.inf]
    ops = [dict(op="norm_isclose", a=f2b(a), b=f2b(b)) for a in vals for b in (0.0, 2.0)]
    res = run_driver(ops)
    i = 0
    for a in vals:
        for b in (0.0, 2.0):
            real = bool(np.isclose(a, b))
            out["evaluations"] += 1
            out["keys"].add(("isclose", a if not np.isnan(a) else "nan", b))
            if real != res[i]:
                out["disagreements"].append(dict(what="isclose", a=a, b=b, real=real, model=res[i]))
            i += 1
    out["distribution"]["isclose"] = len(ops)


def correspondence(ctx):
    rng = np.random.RandomState(ctx.seed + 1800)
    out = dict(evaluations=0, elements=0, samples=[], disagreements=[], distribution={}, keys=set())
    corr_isclose(ctx, rng, out)
    corr_normalizers(ctx, rng, out)
    corr_pipeline(ctx, np.random.RandomState(ctx.seed + 1801), out)
    keys = out.pop("keys")
    out["distribution"]["driver_ops"] = out["evaluations"]
    out["evaluations"] = max(out["evaluations"], out["elements"])   # one evaluation = one compared array element / scalar op
    out["distinct_nontrivial"] = min(len(keys), out["evaluations"])
    out["rule"] = ("7 classes x parameter grid (0, 2, both signs, values inside / on / just outside the isclose bands, random) "
                   "x {ranges+isclose flags (exact), normalize, denormalize, derivative (elementwise incl. NaN mask, +-inf, "
                   "boundaries, nextafter(boundary), out-of-range; warning flag), loglikelihood+kernel}; pipelines through "
                   "apply_mean_norm_trend/remove_trend_norm_mean, Field(field=raw), SRF post_process on/off, Krige._krige_cond "
                   "with none/const/callable mean and trend, scalar/vector, structured/unstructured.  distinct = distinct "
                   "(class, op, lmbda, shift, datum) resp. (route, mean/trend kind, value type, mesh, class, lmbda); "
                   f"{out.pop('elements')} array elements compared")
    out["disagreements"] = out["disagreements"][:20]
    return out


# ------------------------------------------------------------------------------------------ search
def mp_oracle(kind, l, s):
    """the documented transformation (docstring formulas) in 40-digit arithmetic; the limit form is used exactly
    when the class says it does (np.isclose), which is part of its documented parameter handling"""
    import mpmath as mp
    mp.mp.dps = 40
    L = mp.mpf(l)
    S = mp.mpf(s)
    z0 = bool(np.isclose(l, 0))
    z2 = bool(np.isclose(l, 2))

    def bc(u, lam, lim):
        return mp.log(u) if lim else (mp.power(u, lam) - 1) / lam

    def f(x):
        x = mp.mpf(x)
        if kind == "Normalizer":
            return x
        if kind == "LogNormal":
            return mp.log(x)
        if kind == "BoxCox":
            return bc(x, L, z0)
        if kind == "BoxCoxShift":
            return bc(x + S, L, z0)
        if kind == "YeoJohnson":
            return bc(x + 1, L, z0) if x >= 0 else -bc(1 - x, 2 - L, z2)
        if kind == "Modulus":
            return mp.sign(x) * bc(abs(x) + 1, L, z0)
        if kind == "Manly":
            return x if z0 else (mp.exp(L * x) - 1) / L
        raise ValueError(kind)
    return f, mp


def in_image_guard(kind, l, s, x, y, d):
    """well-conditioned for a Float round trip: no saturation, derivative and values of moderate size"""
    return np.isfinite(y) and np.isfinite(d) and 1e-6 < d < 1e6 and abs(y) < 1e6 and abs(x) < 1e6


def search(ctx, deep=False):
    import gstools as gs
    rng = np.random.RandomState(ctx.seed + 18)
    viol, ev = [], 0
    obs = {"declared_range_wider_than_image": 0}
    nrand = ctx.scale(60, 400) * (3 if deep else 1)
    npts = ctx.scale(100, 300)
    n_mp = ctx.scale(8, 25)

    def add(key, what, case):
        if sum(1 for v in viol if v["key"] == key) < 3:
            viol.append(dict(key=key, what=what, case=case))

    for kind in KINDS[1:]:
        for (l, s) in param_grid(rng, kind, nrand):
            nz = make(kind, l, s)
            case0 = dict(kind=kind, lmbda=l, shift=s)
            lo, hi = [float(v) for v in nz.normalize_range]
            base = lo if np.isfinite(lo) else 0.0
            if np.isfinite(lo):
                x = np.sort(base + np.exp(rng.uniform(-5, 3, size=npts)))
            else:
                x = np.sort(np.concatenate([rng.uniform(-6, 6, size=npts - 3), [0.0, 1e-7, -1e-7]]))
            x = np.unique(x)
            with warnings.catch_warnings(record=True) as w:
                warnings.simplefilter("always")
                with np.errstate(all="ignore"):
                    y = nz.normalize(x)
                    d = nz.derivative(x)
                    rt = nz.denormalize(y)
            ev += 3
            if np.isnan(y).any() or np.isnan(d).any():
                add(f"api:{kind}:normalize-nan-on-valid-input", "normalize/derivative gives NaN inside normalize_range",
                    dict(x=float(x[np.isnan(y) | np.isnan(d)][0]), **case0))
                continue
            # --- round trip denormalize(normalize(x)) == x where Float arithmetic is well conditioned
            le = lam_eff(kind, l)
            good = np.array([in_image_guard(kind, l, s, a, b, c) for a, b, c in zip(x, y, d)])
            tol = 200 * EPS * ((np.abs(y) + 1 / le) / np.where(good, d, 1.0) + np.abs(x) + 1)
            bad = good & ~(np.abs(rt - x) <= tol)
            if bad.any():
                i = int(np.argmax(bad))
                k = f"api:{kind}:roundtrip" + (":lmbda<0" if l < 0 else "")
                add(k, "denormalize(normalize(x)) != x on the valid input range",
                    dict(x=float(x[i]), y=float(y[i]), back=float(rt[i]), tol=float(tol[i]), **case0))
            # --- range image: normalised values lie strictly inside denormalize_range (no masking, no warning)
            dlo, dhi = [float(v) for v in nz.denormalize_range]
            outside = good & ~((y > dlo) & (y < dhi))
            if outside.any():
                i = int(np.argmax(outside))
                add(f"api:{kind}:range-image", "normalize(x) falls outside denormalize_range",
                    dict(x=float(x[i]), y=float(y[i]), denormalize_range=[dlo, dhi], **case0))
            # --- strict monotonicity on the sorted grid (where the step is resolvable)
            dy = np.diff(y)
            res_ok = good[1:] & good[:-1] & (np.diff(x) * np.minimum(d[1:], d[:-1]) > 1e3 * EPS * (np.abs(y[1:]) + 1 / le + 1))
            if (dy < 0).any() or (res_ok & ~(dy > 0)).any():
                i = int(np.argmax((dy < 0) | (res_ok & ~(dy > 0))))
                add(f"api:{kind}:monotone", "normalize is not strictly increasing",
                    dict(x=[float(x[i]), float(x[i + 1])], y=[float(y[i]), float(y[i + 1])], **case0))
            if (d[good] <= 0).any():
                add(f"api:{kind}:derivative-sign", "derivative not positive", case0)
            # --- derivative against central differences of the real normalize (sanity, O(h^2))
            inband = kind in HAS_LMBDA and (bool(np.isclose(l, 0)) and l != 0 or
                                            (kind == "YeoJohnson" and bool(np.isclose(l, 2)) and l != 2))
            # step relative to the distance from the singularity of the transform
            h = 1e-5 * ((x - lo) if np.isfinite(lo) else (1 + np.abs(x)))
            xi = x[good]
            hi_ = h[good]
            if kind in ("YeoJohnson", "Modulus"):
                keep = np.abs(xi) > 2 * hi_  # the second derivative jumps at 0
                xi, hi_ = xi[keep], hi_[keep]
            if xi.size:
                with np.errstate(all="ignore"), warnings.catch_warnings():
                    warnings.simplefilter("ignore")
                    fd = (nz.normalize(xi + hi_) - nz.normalize(xi - hi_)) / (2 * hi_)
                    dd = nz.derivative(xi)
                    yi = nz.normalize(xi)
                ev += 2
                # truncation h^2 f'''/6: relative (h/dist)^2 * |(l-1)(l-2)| (power family) resp. (l h)^2 (Manly);
                # rounding: eps * (|y| + 1/lmbda_eff) / h
                curv = (1 + abs(l - 1)) * (1 + abs(l - 2)) * (1 + abs(l)) ** 2
                tfd = 1e-9 * curv * np.abs(dd) + 20 * EPS * (np.abs(yi) + 1 / le + 1) / hi_
                badfd = ~(np.abs(fd - dd) <= tfd)
                if badfd.any() and not inband:
                    i = int(np.argmax(badfd))
                    add(f"api:{kind}:derivative-fd", "derivative differs from the central difference of normalize",
                        dict(x=float(xi[i]), derivative=float(dd[i]), fd=float(fd[i]), **case0))
            # --- mpmath oracle of the documented formulas: values and derivative (tight)
            f, mp = mp_oracle(kind, l, s)
            idx = rng.choice(np.flatnonzero(good), size=min(n_mp, int(good.sum())), replace=False) if good.any() else []
            for i in idx:
                xv = float(x[i])
                want = f(xv)
                ev += 1
                t = 50 * EPS * (abs(float(want)) + 1 / le + 1)
                if not abs(float(want - mp.mpf(float(y[i])))) <= t:
                    add(f"api:{kind}:normalize-vs-formula", "normalize differs from the documented formula",
                        dict(x=xv, got=float(y[i]), want=float(want), **case0))
                if not inband and not (kind in ("YeoJohnson", "Modulus") and abs(xv) < 1e-3):
                    dw = mp.diff(f, xv, h=mp.mpf(10) ** -12)
                    if not abs(float(dw - mp.mpf(float(d[i])))) <= 1e-10 * (abs(float(dw)) + 1):
                        add(f"api:{kind}:derivative-vs-formula", "derivative differs from d/dx of the documented formula",
                            dict(x=xv, got=float(d[i]), want=float(dw), **case0))
            # --- NaN, boundaries and out-of-range inputs give NaN
            probes = [np.nan]
            if np.isfinite(lo):
                probes += [lo, lo - 1.0, np.nextafter(lo, -np.inf)]
            with np.errstate(all="ignore"), warnings.catch_warnings():
                warnings.simplefilter("ignore")
                pn = nz.normalize(np.array(probes))
                pdv = nz.derivative(np.array(probes))
                dprobes = [np.nan] + [b for b in (dlo, dhi) if np.isfinite(b)] + \
                    [b + sg for b, sg in ((dlo, -1.0), (dhi, 1.0)) if np.isfinite(b)]
                pd_ = nz.denormalize(np.array(dprobes))
            ev += 3
            if not (np.isnan(pn).all() and np.isnan(pdv).all() and np.isnan(pd_).all()):
                add(f"api:{kind}:masking", "NaN / boundary / out-of-range input does not give NaN",
                    dict(probes=[float(v) for v in probes], normalize=pn.tolist(), dprobes=[float(v) for v in dprobes],
                         denormalize=pd_.tolist(), **case0))
            # --- normalize(denormalize(y)) == y inside denormalize_range (the image for the BoxCox family / Manly)
            if kind in ("BoxCox", "BoxCoxShift", "Manly", "LogNormal"):
                if np.isfinite(dlo):
                    yy = dlo + np.exp(rng.uniform(-3, 2, size=20)) * min(1.0, 1 / max(abs(l), 1e-3))
                elif np.isfinite(dhi):
                    yy = dhi - np.exp(rng.uniform(-3, 2, size=20)) * min(1.0, 1 / max(abs(l), 1e-3))
                else:
                    yy = rng.uniform(-3, 3, size=20)
                with np.errstate(all="ignore"), warnings.catch_warnings():
                    warnings.simplefilter("ignore")
                    xx = nz.denormalize(yy)
                    dx = nz.derivative(xx)
                    y2 = nz.normalize(xx)
                ev += 2
                g = np.isfinite(xx) & np.isfinite(dx) & (dx > 1e-6) & (dx < 1e6) & (np.abs(xx) < 1e6)
                t2 = 200 * EPS * (np.abs(yy) + 1 / le + np.abs(xx) * np.where(g, dx, 1) + 1)
                if np.isnan(xx).any():
                    add(f"api:{kind}:denormalize-nan-inside-range", "denormalize gives NaN inside denormalize_range",
                        dict(y=float(yy[np.isnan(xx)][0]), **case0))
                elif (g & ~(np.abs(y2 - yy) <= t2)).any():
                    i = int(np.argmax(g & ~(np.abs(y2 - yy) <= t2)))
                    add(f"api:{kind}:roundtrip-normalize-denormalize", "normalize(denormalize(y)) != y inside denormalize_range",
                        dict(y=float(yy[i]), x=float(xx[i]), back=float(y2[i]), **case0))
            elif l < 0 or (kind == "YeoJohnson" and l > 2):
                # observation (not part of the property text): YeoJohnson / Modulus declare (-inf, inf) although the image
                # is bounded; outside the image denormalize returns NaN without warning or, when 1/lmbda is an integer,
                # a finite value that does not normalise back
                obs["declared_range_wider_than_image"] += 1
            # --- likelihood against the independent Gaussian formula
            m = int(rng.randint(4, 30))
            dat = x[good][rng.permutation(int(good.sum()))[:m]] if good.sum() >= 4 else None
            if dat is not None and np.ptp(dat) > 0:
                from scipy.stats import norm as gauss
                with np.errstate(all="ignore"), warnings.catch_warnings():
                    warnings.simplefilter("ignore")
                    ll = float(nz.loglikelihood(dat))
                    kll = float(nz.kernel_loglikelihood(dat))
                    lik = float(nz.likelihood(dat))
                    yv = nz.normalize(dat)
                    dv = nz.derivative(dat)
                ev += 3
                mu, sd = float(np.mean(yv)), float(np.sqrt(np.mean((yv - np.mean(yv)) ** 2)))
                if sd > 1e-9 and (dv >= 1e-16).all():
                    want = float(np.sum(gauss.logpdf(yv, mu, sd)) + np.sum(np.log(dv)))
                    sc = dat.size * (abs(np.log(sd)) + np.max(np.abs(np.log(dv))) + 3)
                    if not abs(ll - want) <= 1e-11 * sc:
                        add(f"api:{kind}:loglikelihood", "loglikelihood differs from sum log N(y; mean, var) + sum log derivative",
                            dict(data=dat.tolist(), got=ll, want=want, **case0))
                    if not abs(kll - (ll + 0.5 * dat.size * (np.log(2 * np.pi) + 1))) <= 1e-11 * sc:
                        add(f"api:{kind}:kernel-loglikelihood", "kernel_loglikelihood is not loglikelihood minus its constant",
                            dict(data=dat.tolist(), kernel=kll, full=ll, **case0))
                    if np.isfinite(lik) and not abs(lik - np.exp(ll)) <= 1e-12 * abs(lik):
                        add(f"api:{kind}:likelihood", "likelihood != exp(loglikelihood)", dict(data=dat.tolist(), **case0))
                    # profile property: no other Gaussian (mu, sigma) gives a larger likelihood
                    for _ in range(3):
                        mu2, sd2 = mu + rng.uniform(-1, 1) * sd, sd * np.exp(rng.uniform(-1, 1))
                        other = float(np.sum(gauss.logpdf(yv, mu2, sd2)) + np.sum(np.log(dv)))
                        if other > ll + 1e-10 * sc:
                            add(f"api:{kind}:loglikelihood-not-profile-max", "another (mu, sigma) beats the reported loglikelihood",
                                dict(data=dat.tolist(), ll=ll, other=other, mu=mu2, sd=sd2, **case0))
    # --- fit: result is a local maximum of the log-likelihood (sanity only)
    nfit = ctx.scale(4, 25)
    for kind in ("BoxCox", "YeoJohnson", "Modulus", "Manly"):
        for t in range(nfit):
            dat = np.exp(rng.normal(0.3, 0.5, size=40)) if kind == "BoxCox" else rng.gamma(2.0, 1.0, size=40) - 1.0
            if kind == "Manly":
                dat = dat / 2
            nz = make(kind, 1.0, 0.0)
            with warnings.catch_warnings():
                warnings.simplefilter("ignore")
                with np.errstate(all="ignore"):
                    par = nz.fit(dat)
                    lh = par["lmbda"]
                    l0 = nz.loglikelihood(dat)
                    around = []
                    for dl in (-1e-2, 1e-2, -1e-3, 1e-3):
                        around.append(make(kind, lh + dl, 0.0).loglikelihood(dat))
            ev += 1
            if not all(l0 >= a - 1e-7 * (1 + abs(l0)) for a in around):
                add(f"api:{kind}:fit-not-local-max", "fitted lmbda is not a local maximum of loglikelihood",
                    dict(kind=kind, lmbda=float(lh), ll=float(l0), around=[float(a) for a in around], data=dat.tolist()))
            if nz.lmbda != lh:
                add(f"api:{kind}:fit-state", "fit() result differs from the stored parameter", dict(kind=kind))
    # --- field pipelines on the real API (independent numpy oracle for the transforms via normalizer instance of a
    #     *fresh* object + explicit composition)
    npipe = ctx.scale(120, 1200) * (2 if deep else 1)
    from gstools.normalizer import remove_trend_norm_mean
    for t in range(npipe):
        kind = KINDS[int(rng.randint(0, len(KINDS)))]
        l = float(rng.choice([-1.0, -0.5, 0.0, 0.5, 1.0, 2.0, 2.5, float(rng.uniform(-1.5, 3))]))
        s = 4.0
        dim = int(rng.randint(1, 4))
        mesh = str(rng.choice(["unstructured", "structured"]))
        if mesh == "structured":
            # distinct axis lengths (equal lengths are mis-read by format_struct_pos_shape, not a C18 matter)
            pos = [np.linspace(0, 3, int(k)) + 0.1 * j for j, k in enumerate(rng.permutation([2, 3, 4])[:dim])]
            grid = np.meshgrid(*pos, indexing="ij")
        else:
            pos = [rng.uniform(0, 3, size=7) for _ in range(dim)]
            grid = pos
        c = float(rng.uniform(-0.3, 0.3))
        a = rng.uniform(-0.1, 0.1, size=dim)
        lin = lambda *p: c + sum(ai * np.asarray(pi, dtype=float) for ai, pi in zip(a, p))
        mopt = [(None, 0.0), (c, c), (lin, lin(*grid))][int(rng.randint(0, 3))]
        topt = [(None, 0.0), (1.5, 1.5), (lin, lin(*grid))][int(rng.randint(0, 3))]
        model = gs.Exponential(dim=dim, var=0.05, len_scale=1.0)
        case = dict(kind=kind, lmbda=l, shift=s, dim=dim, mesh=mesh, mean=type(mopt[0]).__name__, trend=type(topt[0]).__name__)
        try:
            with warnings.catch_warnings():
                warnings.simplefilter("ignore")
                with np.errstate(all="ignore"):
                    srf = gs.SRF(model, mean=mopt[0], normalizer=make(kind, l, s), trend=topt[0], seed=int(rng.randint(1, 10**6)),
                                 mode_no=32)
                    raw = np.array(srf(pos, mesh_type=mesh, post_process=False, store="raw"))
                    outp = np.array(srf(pos, mesh_type=mesh, post_process=True, store="out"))
                    oracle = make(kind, l, s)   # fresh instance, explicit composition
                    want = topt[1] + oracle.denormalize(mopt[1] + raw)
                    back = remove_trend_norm_mean(pos, outp, mean=mopt[0], normalizer=make(kind, l, s), trend=topt[0],
                                                  mesh_type=mesh)
            ev += 3
            if not np.allclose(outp, want, rtol=1e-13, atol=1e-13, equal_nan=True):
                add("api:srf:pipeline", "SRF output != trend + denormalize(mean + raw field)", case)
            ok = np.isfinite(outp)
            dd = make(kind, l, s).derivative(np.where(ok, outp - topt[1], 1.0))
            g = ok & np.isfinite(dd) & (dd > 1e-5)
            if not (np.abs(back - raw)[g] <= 1e3 * EPS * (1 + np.abs(raw[g]) + np.abs((mopt[1] + raw)[g]) + np.abs(outp[g]) * dd[g]) *
                    (1 + 1 / lam_eff(kind, l))).all():
                add("api:srf:remove-apply", "remove_trend_norm_mean(SRF output) != raw field", case)
            # kriging through the pipeline: conditions are honoured after post-processing
            cpos = [rng.uniform(0, 3, size=5) for _ in range(dim)]
            cm = (lin(*cpos) if callable(mopt[0]) else mopt[1]) + 0 * cpos[0]
            ct = (lin(*cpos) if callable(topt[0]) else topt[1]) + 0 * cpos[0]
            cval = ct + make(kind, l, s).denormalize(cm + rng.uniform(-0.3, 0.3, size=5))
            if np.isfinite(cval).all():
                with warnings.catch_warnings():
                    warnings.simplefilter("ignore")
                    kr = gs.krige.Krige(model, cpos, cval, mean=mopt[0], normalizer=make(kind, l, s), trend=topt[0], unbiased=False)
                    kf, _ = kr(cpos)
                    kc = np.array(kr._krige_cond)
                ev += 2
                wantc = make(kind, l, s).normalize(cval - ct) - cm
                if not np.allclose(kc, wantc, rtol=1e-13, atol=1e-13, equal_nan=True):
                    add("api:krige:conditions", "Krige._krige_cond != normalize(cond_val - trend) - mean", case)
                if not np.allclose(kf, cval, rtol=1e-7, atol=1e-7):
                    add("api:krige:pipeline", "kriged field at the conditions != conditioning values after post-processing", case)
                # Krige and CondSRF output with post_process on / off on the same target points
                with warnings.catch_warnings():
                    warnings.simplefilter("ignore")
                    with np.errstate(all="ignore"):
                        kraw, _ = kr(pos, mesh_type=mesh, post_process=False, store=False)
                        kout, _ = kr(pos, mesh_type=mesh, post_process=True, store=False)
                        csrf = gs.CondSRF(kr, seed=int(rng.randint(1, 10**6)), mode_no=16)
                        sd = int(rng.randint(1, 10**6))
                        craw = np.array(csrf(pos, mesh_type=mesh, seed=sd, post_process=False, store=False))
                        cout = np.array(csrf(pos, mesh_type=mesh, seed=sd, post_process=True, store=False))
                ev += 4
                if not np.allclose(kout, topt[1] + oracle.denormalize(mopt[1] + np.array(kraw)), rtol=1e-13, atol=1e-13, equal_nan=True):
                    add("api:krige:post-process", "Krige output != trend + denormalize(mean + raw kriging field)", case)
                if not np.allclose(cout, topt[1] + oracle.denormalize(mopt[1] + craw), rtol=1e-13, atol=1e-13, equal_nan=True):
                    add("api:condsrf:post-process", "CondSRF output != trend + denormalize(mean + raw conditioned field)", case)
            # vector SRF (incompressible generator): constant mean / trend broadcast over the components
            if dim > 1 and t % 3 == 0:
                with warnings.catch_warnings():
                    warnings.simplefilter("ignore")
                    with np.errstate(all="ignore"):
                        cm_, ct_ = float(rng.uniform(-0.2, 0.2)), float(rng.uniform(-1, 1))
                        vs = gs.SRF(gs.Gaussian(dim=dim, var=0.05, len_scale=1.0), generator="VectorField", mean=cm_,
                                    normalizer=make(kind, l, s), trend=ct_, seed=int(rng.randint(1, 10**6)), mode_no=16)
                        vraw = np.array(vs(pos, mesh_type=mesh, post_process=False, store=False))
                        vout = np.array(vs(pos, mesh_type=mesh, post_process=True, store=False))
                ev += 2
                if vraw.shape[0] != dim or not np.allclose(vout, ct_ + oracle.denormalize(cm_ + vraw), rtol=1e-13, atol=1e-13, equal_nan=True):
                    add("api:srf:vector-pipeline", "vector SRF output != trend + denormalize(mean + raw field)", case)
        except Exception as ex:
            add("api:pipeline:exception", f"{type(ex).__name__}: {ex}", case)
    # --- replay of the Lean witness `norm_denorm_full_false` on the implementation (observation, see final report)
    with warnings.catch_warnings(), np.errstate(all="ignore"):
        warnings.simplefilter("ignore")
        yj = make("YeoJohnson", -1.0, 0.0)
        w1 = float(yj.denormalize([2.0])[0])
        w2 = float(yj.normalize([w1])[0])
        # witness of `derivative_full_false`: inside the isclose band the reported derivative keeps lmbda
        mb = make("Manly", 1e-9, 0.0)
        w3 = float(mb.derivative([1.0])[0])
        w4 = float((mb.normalize([1.0 + 1e-3])[0] - mb.normalize([1.0 - 1e-3])[0]) / 2e-3)
    ev += 1
    witness_ok = (w1 == -2.0) and abs(w2 + 26.0 / 3.0) < 1e-12 and abs(w3 - np.exp(1e-9)) < 1e-15 and abs(w4 - 1.0) < 1e-12
    if not witness_ok:
        ctx.log("note: a Lean witness (norm_denorm_full_false / derivative_full_false) no longer replays on the implementation:", w1, w2, w3, w4)
    return {"evaluations": ev, "violations": viol,
            "summary": f"{ev} real-API evaluations: round trips, range image, monotone grids, derivative vs FD and mpmath formula, "
                       f"masking probes, likelihood vs scipy.stats Gaussian + profile maximality, fit local max, SRF/Krige pipelines; "
                       f"{len(viol)} violations; observation: {obs['declared_range_wider_than_image']} YeoJohnson/Modulus parameter "
                       f"sets whose declared denormalize_range (-inf, inf) is wider than the image (witness lmbda=-1, y=2 -> "
                       f"{w1}, back {w2:.6g}); in-band derivative witness Manly(1e-9).derivative(1)={w3!r} vs slope {w4!r}; "
                       f"Lean witnesses replay on the implementation: {witness_ok}"}
