"""C18 — Normalizers are invertible monotone maps; the mean/norm/trend pipeline is exact.

correspondence (tie B): the real gstools normalizers / pipeline against the Lean model GSV.Model.Norm run on Float.
search: real-API round trips, monotonicity, derivative vs finite differences and an mpmath oracle of the documented
formulas, likelihood vs independent Gaussian formula, fit sanity, Field/SRF/Krige pipelines.
"""
import warnings

import numpy as np

import proto
from proto import run_driver, f2b, fbits, unbits

ASSUMPTIONS = [
    "the formula layer of GSV/Model/Norm.lean (normRaw / denormRaw / derivRaw / normRange / denormRange of the six "
    "classes) is proved equal to definitions regenerated from normalizer/methods.py by vlib/pyexpr2lean.py (tie A, "
    "GSV/Props/GenTieNorm.lean); the rest of the model (masking, likelihoods, pipeline, identity base class) is "
    "hand-written from normalizer/{base,tools}.py and tied to the code only by this differential execution",
    "vlib/pyexpr2lean.py and GSV/PyExpr.lean define what an element-wise numpy expression means",
    "np.log1p(x)/np.expm1(x) are modelled as log(1+x)/exp(x)-1 (same real functions); Float results are compared "
    "within a condition-aware tolerance 5e-13*(|a|+|b|) + 2e-14*(1+1/|lmbda_eff|)",
    "theorems are over the reals; IEEE effects (saturation of exp/pow, e.g. Manly(lmbda<0).normalize(50) landing "
    "exactly on the range boundary) are outside the model and excluded from the search by conditioning guards",
    "Normalizer.fit / __init__(data=...): the parameter bookkeeping (sorted names, skip, what the objective writes into "
    "the object, what is written back, the returned dict, the default bracket / x0) is modelled with the optimiser as a "
    "parameter (any sequence of trial points and any result x) and tied by replacing scipy.optimize inside "
    "normalizer/base.py with a scripted optimiser; that scipy's minimize_scalar / minimize return a minimiser is NOT "
    "proved: the search compares real fits with an independent brute-force maximisation whenever the optimiser reports "
    "success and no datum is out of range at the fitted parameters",
    "eval_func / shape handling of callable mean and trend is re-derived by the harness (callable evaluated on "
    "the position tuple resp. the 'ij' meshgrid), not modelled in Lean",
    "which constructor argument of a field class becomes which pipeline slot (Model.Norm.slots: Simple / generic Krige / SRF take "
    "mean, normalizer, trend; Ordinary / Universal / ExtDrift take normalizer, trend; Detrended takes the trend only) is written by "
    "hand from krige/methods.py and field/srf.py and tied to the code by comparing outputs and prepared conditioning values of the "
    "real objects with the model evaluated on the caller's arguments",
]

KINDS = ["Normalizer", "LogNormal", "BoxCox", "BoxCoxShift", "YeoJohnson", "Modulus", "Manly"]
HAS_LMBDA = {"BoxCox", "BoxCoxShift", "YeoJohnson", "Modulus", "Manly"}
EPS = np.finfo(float).eps


def make(kind, lmbda, shift):
    import gstools.normalizer as N
    cls = getattr(N, kind)
    if kind == "BoxCoxShift":
        return cls(lmbda=lmbda, shift=shift)
    if kind in HAS_LMBDA:
        return cls(lmbda=lmbda)
    return cls()


def special_lambdas():
    b0 = 1e-8
    b2 = 1e-8 + 2e-5
    out = [0.0, 2.0, 1.0, -1.0, 0.5, -0.5, -2.0, 3.0, 1.5, 2.5, 1e-9, -1e-9, b0, -b0,
           np.nextafter(b0, 1), -np.nextafter(b0, 1), 1.0000001e-8, -1.0000001e-8, 1e-6, -1e-6, 1e-3, -1e-3,
           2 + 1e-5, 2 - 1e-5, 2 + b2 * 0.999, 2 - b2 * 0.999, 2 + b2 * 1.001, 2 - b2 * 1.001, 2 + 1e-3, 2 - 1e-3,
           -1.0 / 3, 0.25, -4.0]
    return [float(v) for v in out]


def lam_grid(rng, nrand):
    return special_lambdas() + [float(v) for v in rng.uniform(-3, 4, size=nrand)]


def param_grid(rng, kind, nrand):
    if kind not in HAS_LMBDA:
        return [(1.0, 0.0)] * max(2, nrand // 8)   # parameter-free: several data batches
    if kind == "BoxCoxShift":
        lams = lam_grid(rng, nrand)
        return [(l, float(s)) for l in lams for s in rng.choice([0.0, 1.5, -2.0, 0.1], size=2, replace=False)]
    return [(l, 0.0) for l in lam_grid(rng, nrand)]


def lam_eff(kind, l):
    """smallest |exponent| by which the code divides (1 when it takes an isclose branch)"""
    if kind not in HAS_LMBDA:
        return 1.0
    v = []
    if not np.isclose(l, 0):
        v.append(abs(l))
    if kind == "YeoJohnson" and not np.isclose(l, 2):
        v.append(abs(2 - l))
    return min(v + [1.0])


def tol_for(kind, l, a, b):
    return 5e-13 * (np.abs(a) + np.abs(b)) + 2e-14 * (1.0 + 1.0 / lam_eff(kind, l))


def cmp_arrays(kind, l, real, model):
    """elementwise: same NaN mask and values within the condition-aware tolerance; returns list of bad indices"""
    real = np.asarray(real, dtype=float).ravel()
    model = np.asarray(model, dtype=float).ravel()
    if real.shape != model.shape:
        return ["shape"]
    bad = []
    nr, nm = np.isnan(real), np.isnan(model)
    with np.errstate(all="ignore"):
        t = tol_for(kind, l, np.where(np.isfinite(real), real, 0), np.where(np.isfinite(model), model, 0))
        for i in range(real.size):
            if nr[i] or nm[i]:
                if nr[i] != nm[i]:
                    bad.append(i)
            elif np.isinf(real[i]) or np.isinf(model[i]):
                if real[i] != model[i]:
                    bad.append(i)
            elif abs(real[i] - model[i]) > t[i]:
                bad.append(i)
    return bad


def call_real(fn, data):
    """returns (array, warned_out_of_range)"""
    with warnings.catch_warnings(record=True) as w:
        warnings.simplefilter("always")
        with np.errstate(all="ignore"):
            out = fn(data)
    warned = any("out of range" in str(x.message) for x in w)
    return np.asarray(out, dtype=float), warned


def gen_data(rng, rng_tuple, n):
    """structured data for a range (lo, hi): inside, on and around the boundaries, far outside, NaN, inf, zeros"""
    lo, hi = float(rng_tuple[0]), float(rng_tuple[1])
    pts = [np.nan, 0.0, -0.0, 1.0, -1.0, 1e-300, -1e-300, 1e-9, -1e-9, np.inf, -np.inf, 0.5, 2.0, 7.25, -3.5]
    for b in (lo, hi):
        if np.isfinite(b):
            pts += [b, np.nextafter(b, np.inf), np.nextafter(b, -np.inf), b + 1e-9 * (1 + abs(b)), b - 1e-9 * (1 + abs(b)),
                    b + 0.5, b - 0.5, b + 3.0, b - 3.0, b * 0.5, b * 2.0]
    pts += list(rng.uniform(-4, 4, size=n))
    pts += list(np.exp(rng.uniform(-6, 4, size=n // 2)))
    pts += list(-np.exp(rng.uniform(-6, 3, size=n // 2)))
    if np.isfinite(lo) and not np.isfinite(hi):
        pts += list(lo + np.exp(rng.uniform(-8, 3, size=n)))
    if np.isfinite(hi) and not np.isfinite(lo):
        pts += list(hi - np.exp(rng.uniform(-8, 3, size=n)))
    return np.array(pts, dtype=float)


# ------------------------------------------------------------------------------------------ correspondence
def corr_normalizers(ctx, rng, out):
    nrand = ctx.scale(60, 400)
    ndata = ctx.scale(40, 80)
    ops, meta = [], []
    for kind in KINDS:
        for (l, s) in param_grid(rng, kind, nrand):
            nz = make(kind, l, s)
            base = dict(kind=kind, lmbda=f2b(l), shift=f2b(s))
            # ranges and isclose flags
            ops.append(dict(op="norm_ranges", **base))
            meta.append(("ranges", kind, l, s, None, nz))
            xn = gen_data(rng, nz.normalize_range, ndata)
            xd = gen_data(rng, nz.denormalize_range, ndata)
            if kind in HAS_LMBDA and not np.isclose(l, 0):
                # values spread over the image scale 1/|lmbda|
                xd = np.concatenate([xd, rng.uniform(-2, 2, size=ndata) / abs(l)])
            for what, x in (("normalize", xn), ("denormalize", xd), ("derivative", xn)):
                ops.append(dict(op="norm_eval", what=what, data=fbits(x), **base))
                meta.append((what, kind, l, s, x, nz))
            # likelihood on mostly valid data with some NaN / out-of-range entries
            lo = nz.normalize_range[0]
            lo = lo if np.isfinite(lo) else -2.0
            xl = lo + np.exp(rng.uniform(-2, 1.5, size=int(rng.randint(3, 25))))
            if rng.rand() < 0.5:
                xl = np.concatenate([xl, [np.nan, lo - 1.0]])
            if kind in ("YeoJohnson", "Modulus", "Manly", "Normalizer"):
                xl = np.concatenate([xl, rng.uniform(-2, 2, size=4)])
            ops.append(dict(op="norm_loglik", data=fbits(xl), **base))
            meta.append(("loglik", kind, l, s, xl, nz))
    res = run_driver(ops)
    dis, dist = out["disagreements"], out["distribution"]
    for (what, kind, l, s, x, nz), r in zip(meta, res):
        case = dict(kind=kind, lmbda=l, shift=s, op=what)
        if isinstance(r, dict) and "error" in r:
            dis.append(dict(what=f"driver error {what}", detail=r["error"], **case))
            continue
        out["evaluations"] += 1
        dist[f"{kind}:{what}"] = dist.get(f"{kind}:{what}", 0) + 1
        if what == "ranges":
            rn, rd = unbits(r[0]), unbits(r[1])
            with np.errstate(all="ignore"):
                wn = np.array(nz.normalize_range, dtype=float)
                wd = np.array(nz.denormalize_range, dtype=float)
            c0 = bool(np.isclose(l, 0)) if kind in HAS_LMBDA else None
            c2 = bool(np.isclose(l, 2)) if kind in HAS_LMBDA else None
            ok = np.array_equal(rn, wn) and np.array_equal(rd, wd)
            if c0 is not None:
                ok = ok and (r[2] == c0) and (r[3] == c2)
            out["keys"].add((kind, "ranges", l, s))
            if not ok:
                dis.append(dict(what=f"ranges:{kind}", real=[wn.tolist(), wd.tolist(), c0, c2],
                                model=[rn.tolist(), rd.tolist(), r[2], r[3]], **case))
            if len(out["samples"]) < 2:
                out["samples"].append(dict(case=case, real=[wn.tolist(), wd.tolist()], model=[rn.tolist(), rd.tolist()]))
        elif what == "loglik":
            with warnings.catch_warnings():
                warnings.simplefilter("ignore")
                with np.errstate(all="ignore"):
                    kll = float(nz.kernel_loglikelihood(x))
                    ll = float(nz.loglikelihood(x))
                    d = nz._check_input(x, nz.normalize_range, False)
                    scale = d.size * (abs(np.log(np.var(nz._normalize(d)))) + np.max(np.abs(np.log(np.maximum(1e-16, nz._derivative(d))))) + 3.0)
            m = unbits(r[0])
            n_model = int(r[1])
            t = 1e-12 * scale * (1 + 1 / lam_eff(kind, l))
            ok = n_model == d.size
            for a, b in ((kll, m[0]), (ll, m[1])):
                if np.isnan(a) or np.isnan(b) or np.isinf(a) or np.isinf(b):
                    ok = ok and ((np.isnan(a) and np.isnan(b)) or a == b)
                else:
                    ok = ok and abs(a - b) <= t
            out["keys"].add((kind, "loglik", l, s))
            if not ok:
                dis.append(dict(what=f"loglik:{kind}", real=[kll, ll, int(d.size)], model=[float(m[0]), float(m[1]), n_model],
                                data=x.tolist(), **case))
        else:
            fn = getattr(nz, what)
            real, warned = call_real(fn, x)
            model = unbits(r[0])
            bad = cmp_arrays(kind, l, real, model)
            nn = int(np.sum(~np.isnan(real)))
            dist[f"{kind}:{what}:masked"] = dist.get(f"{kind}:{what}:masked", 0) + int(real.size - nn)
            out["elements"] += real.size
            for i in range(real.size):
                out["keys"].add((kind, what, l, s, float(x[i]) if not np.isnan(x[i]) else "nan"))
            if bad:
                i = bad[0]
                dis.append(dict(what=f"{what}:{kind}", index=i if isinstance(i, str) else int(i),
                                x=None if isinstance(i, str) else float(x[i]),
                                real=None if isinstance(i, str) else float(real[i]),
                                model=None if isinstance(i, str) else float(model[i]), nbad=len(bad), **case))
            if warned != bool(r[1]):
                dis.append(dict(what=f"warning:{what}:{kind}", real=warned, model=bool(r[1]), **case))
            if len(out["samples"]) < 5 and kind == "YeoJohnson":
                out["samples"].append(dict(case=case, x=x[:6].tolist(), real=real[:6].tolist(), model=model[:6].tolist()))


def mean_trend_choices(rng, dim):
    """(label, value passed to gstools, evaluator on a list of coordinate arrays)"""
    c = float(rng.choice([0.5, -1.25, 2.0, 0.0]))
    a = rng.uniform(-0.5, 0.5, size=dim)
    def lin(*pos):
        return c + sum(ai * np.asarray(p, dtype=float) for ai, p in zip(a, pos))
    return [("none", None, lambda *pos: 0.0 * np.asarray(pos[0], dtype=float)),
            ("const", c, lambda *pos: c + 0.0 * np.asarray(pos[0], dtype=float)),
            ("callable", lin, lin)]


def corr_pipeline(ctx, rng, out):
    """apply_mean_norm_trend / remove_trend_norm_mean, Field.__call__(field=raw), SRF post_process, Krige._krige_cond"""
    import gstools as gs
    from gstools.normalizer import apply_mean_norm_trend, remove_trend_norm_mean
    n = ctx.scale(800, 6000)
    ops, meta = [], []
    for t in range(n):
        kind = KINDS[t % len(KINDS)]
        l = float(rng.choice(special_lambdas())) if rng.rand() < 0.5 else float(rng.uniform(-2, 3))
        s = float(rng.choice([0.0, 1.5, -2.0]))
        nz = make(kind, l, s)
        dim = int(rng.randint(1, 4))
        mesh = str(rng.choice(["unstructured", "structured"]))
        vt = "vector" if (dim > 1 and rng.rand() < 0.3) else "scalar"
        if mesh == "structured":
            # distinct axis lengths: format_struct_pos_shape mis-reads equal-length axes as a stacked 1-D field
            lens = rng.permutation([2, 3, 4])[:dim]
            axes = [np.sort(rng.uniform(-2, 2, size=int(k))) for k in lens]
            grid = np.meshgrid(*axes, indexing="ij")
            pos = axes
            shp = tuple(len(a) for a in axes)
        else:
            npts = int(rng.randint(2, 9))
            pos = [rng.uniform(-2, 2, size=npts) for _ in range(dim)]
            grid = pos
            shp = (npts,)
        ch = mean_trend_choices(rng, dim)
        mlab, mval, mfun = ch[int(rng.randint(0, 3))]
        tlab, tval, tfun = ch[int(rng.randint(0, 3))]
        fshape = ((dim,) + shp) if vt == "vector" else shp
        mcell = np.broadcast_to(mfun(*grid), shp)
        tcell = np.broadcast_to(tfun(*grid), shp)
        if vt == "vector":
            # callable must return (dim, ...) for vector fields; constants broadcast
            if callable(mval):
                f0 = mval
                mval = (lambda f0: lambda *p: np.stack([f0(*p)] * len(p)))(f0)
            if callable(tval):
                f1 = tval
                tval = (lambda f1: lambda *p: np.stack([f1(*p)] * len(p)))(f1)
            mcell = np.broadcast_to(mcell, fshape)
            tcell = np.broadcast_to(tcell, fshape)
        raw = rng.uniform(-1.5, 1.5, size=fshape)
        if rng.rand() < 0.3:
            raw.ravel()[int(rng.randint(0, raw.size))] = np.nan
        route = str(rng.choice(["tools", "field", "srf", "krige"]))
        if vt == "vector" and route in ("srf", "krige"):
            route = "field"
        base = dict(kind=kind, lmbda=f2b(l), shift=f2b(s))
        case = dict(kind=kind, lmbda=l, shift=s, dim=dim, mesh=mesh, value_type=vt, mean=mlab, trend=tlab, route=route)
        try:
            with warnings.catch_warnings():
                warnings.simplefilter("ignore")
                with np.errstate(all="ignore"):
                    if route == "tools":
                        # check_shape=True does not know vector fields; post_field also calls with check_shape=False
                        kw = dict(mean=mval, normalizer=nz, trend=tval, mesh_type=mesh, value_type=vt,
                                  check_shape=(vt == "scalar"))
                        app = apply_mean_norm_trend(pos, raw, **kw)
                        rem = remove_trend_norm_mean(pos, raw, **kw)
                        back = remove_trend_norm_mean(pos, app, **kw)
                    elif route == "field":
                        fld = gs.field.Field(dim=dim, value_type=vt, mean=mval, normalizer=nz, trend=tval)
                        app = fld(pos, field=raw, mesh_type=mesh)
                        unp = fld(pos, field=raw, mesh_type=mesh, post_process=False)
                        if not np.array_equal(unp, raw, equal_nan=True):
                            out["disagreements"].append(dict(what="field:post_process=False changes the field", **case))
                        rem = back = None
                    elif route == "srf":
                        model = gs.Gaussian(dim=dim, var=0.5, len_scale=1.0)
                        srf = gs.SRF(model, mean=mval, normalizer=nz, trend=tval, seed=int(rng.randint(1, 10**6)), mode_no=16)
                        raw = np.array(srf(pos, mesh_type=mesh, post_process=False, store=False))
                        app = np.array(srf(pos, mesh_type=mesh, post_process=True, store=False))
                        rem = back = None
                    else:  # krige conditions: normalize(cond_val - cond_trend) - cond_mean
                        model = gs.Gaussian(dim=dim, var=0.5, len_scale=1.0)
                        cpos = [rng.uniform(-2, 2, size=raw.size) for _ in range(dim)]
                        grid, shp, fshape = cpos, (raw.size,), (raw.size,)
                        raw = np.nan_to_num(raw.ravel(), nan=0.7)
                        mcell, tcell = mfun(*cpos) + 0 * raw, tfun(*cpos) + 0 * raw
                        kr = gs.krige.Krige(model, cpos, raw, mean=mval, normalizer=nz, trend=tval, unbiased=False)
                        rem = np.array(kr._krige_cond)[: raw.size]
                        app = back = None
        except Exception as ex:  # pipelines must not raise on these inputs (NaN conditions are replaced above)
            out["disagreements"].append(dict(what=f"pipeline:{route}:exception", detail=f"{type(ex).__name__}: {ex}", **case))
            continue
        ops.append(dict(op="norm_pipeline", raw=fbits(raw), mean=fbits(np.ascontiguousarray(mcell)),
                        trend=fbits(np.ascontiguousarray(tcell)), **base))
        meta.append((case, kind, l, raw, app, back, rem))
    res = run_driver(ops)
    for (case, kind, l, raw, app, back, rem), r in zip(meta, res):
        if isinstance(r, dict) and "error" in r:
            out["disagreements"].append(dict(what="driver error pipeline", detail=r["error"], **case))
            continue
        out["evaluations"] += 1
        key = f"pipeline:{case['route']}:{case['mean']}/{case['trend']}:{case['value_type']}:{case['mesh']}"
        out["distribution"][key] = out["distribution"].get(key, 0) + 1
        out["keys"].add((key, kind, l))
        for name, real, mod in (("apply", app, r[0]), ("remove(apply)", back, r[1]), ("remove", rem, r[2])):
            if real is None:
                continue
            bad = cmp_arrays(kind, l, np.asarray(real).ravel(), unbits(mod))
            if bad:
                i = bad[0]
                out["disagreements"].append(dict(what=f"pipeline:{name}:{case['route']}", index=i,
                                                 real=None if isinstance(i, str) else float(np.asarray(real).ravel()[i]),
                                                 model=None if isinstance(i, str) else float(unbits(mod)[i]), **case))
        if len(out["samples"]) < 5 and case["route"] == "srf":
            out["samples"].append(dict(case=case, raw=np.asarray(raw).ravel()[:3].tolist(),
                                       real=np.asarray(app).ravel()[:3].tolist(), model=unbits(r[0])[:3].tolist()))


# ------------------------------------------------------------------------------------------ field classes x pipeline
FIELD_CLASSES = ["Simple", "Ordinary", "Universal", "ExtDrift", "Detrended", "Krige", "SRF"]
HAS_MEAN = {"Simple", "Krige", "SRF"}
HAS_NORM = {"Simple", "Ordinary", "Universal", "ExtDrift", "Krige", "SRF"}
FITS_NORM = {"Simple", "Ordinary", "Universal", "ExtDrift", "Krige"}


def _maxdiff(a, b):
    d = np.abs(np.asarray(a, dtype=float) - np.asarray(b, dtype=float))
    d = d[np.isfinite(d)]
    return float(d.max()) if d.size else float("nan")


def _cls_ext(*pos):
    """external drift variable of the class-pipeline cases"""
    return np.cos(np.asarray(pos[0], dtype=float) / 2.0) + 0.2 * np.asarray(pos[-1], dtype=float)


def _cls_drift(*pos):
    return np.sin(np.asarray(pos[0], dtype=float) / 2.0)


def class_setup(rng, cname):
    """one configuration of a field class: normalizer (also fitted) x constant / callable / no mean and trend x dim x mesh.
       Returns None when the conditioning values leave the normalizer's range"""
    import gstools as gs
    kind = KINDS[int(rng.randint(0, len(KINDS)))] if cname in HAS_NORM else "Normalizer"
    l = float(rng.choice([-1.0, -0.5, 0.0, 0.5, 1.0, 2.0, 2.5, float(rng.uniform(-1.5, 3))]))
    s = 4.0
    dim = int(rng.choice([1, 2, 3], p=[0.35, 0.45, 0.2]))
    mesh = str(rng.choice(["unstructured", "structured"]))
    if mesh == "structured":
        pos = [np.linspace(0, 3, int(k)) + 0.1 * j for j, k in enumerate(rng.permutation([2, 3, 4])[:dim])]
        grid = np.meshgrid(*pos, indexing="ij")
    else:
        pos = [rng.uniform(0, 3, size=7) for _ in range(dim)]
        grid = pos
    c = float(rng.uniform(-0.3, 0.3))
    c2_ = float(rng.choice([1.5, -0.75, 0.4]))
    a = rng.uniform(-0.1, 0.1, size=dim)
    b = rng.uniform(-0.2, 0.2, size=dim)
    mfun = lambda *p_: c + sum(ai * np.asarray(pi, dtype=float) for ai, pi in zip(a, p_))          # noqa
    tfun = lambda *p_: c2_ + sum(bi * np.asarray(pi, dtype=float) for bi, pi in zip(b, p_))        # noqa
    zero = lambda *p_: 0.0 * np.asarray(p_[0], dtype=float)                                        # noqa
    mopts = [("none", None, zero), ("const", c, lambda *p_: c + zero(*p_)), ("callable", mfun, mfun)]
    topts = [("none", None, zero), ("const", c2_, lambda *p_: c2_ + zero(*p_)), ("callable", tfun, tfun)]
    mlab, mval, meval = mopts[int(rng.randint(0, 3))] if cname in HAS_MEAN else mopts[0]
    tlab, tval, teval = topts[int(rng.randint(1, 3))] if cname == "Detrended" else topts[int(rng.randint(0, 3))]
    # conditioning points on a jittered grid (well separated), values inside the range of the pipeline
    side = {1: 9, 2: 4, 3: 3}[dim]
    g = np.array(np.meshgrid(*([np.arange(side)] * dim), indexing="ij")).reshape(dim, -1)
    drift = None
    ext = False
    unbiased = True
    if cname == "Universal":
        drift = ["linear", [_cls_drift]][int(rng.randint(0, 2))]
    elif cname == "ExtDrift":
        ext = True
    elif cname == "Krige":
        drift = [None, "linear", [_cls_drift]][int(rng.randint(0, 3))]
        ext = bool(rng.rand() < 0.5)
        unbiased = bool(rng.rand() < 0.6)
    n = int(rng.randint(5, 8)) + (dim if drift == "linear" else (1 if drift else 0)) + int(ext)
    idx = rng.choice(g.shape[1], size=min(n, g.shape[1]), replace=False)
    cpos = [g[d, idx] * (3.0 / (side - 1)) + rng.uniform(-0.1, 0.1, size=len(idx)) for d in range(dim)]
    n = len(idx)
    cm, ct = meval(*cpos) + 0.0 * cpos[0], teval(*cpos) + 0.0 * cpos[0]
    fit = bool(cname in FITS_NORM and kind in ("BoxCox", "YeoJohnson", "Modulus", "Manly") and rng.rand() < 0.25)
    with warnings.catch_warnings(), np.errstate(all="ignore"):
        warnings.simplefilter("ignore")
        cval = ct + make(kind, l, s).denormalize(cm + rng.uniform(-0.3, 0.3, size=n))
    if not np.isfinite(cval).all():
        return None
    model = gs.Exponential(dim=dim, var=0.05, len_scale=1.0)
    case = dict(cls=cname, kind=kind, lmbda=l, shift=s, dim=dim, mesh=mesh, mean=mlab, trend=tlab, fit_normalizer=fit,
                drift=("callable" if isinstance(drift, list) else drift), ext_drift=ext, unbiased=unbiased)
    return dict(cname=cname, kind=kind, l=l, s=s, dim=dim, mesh=mesh, pos=pos, grid=grid, mval=mval, tval=tval,
                tm=np.broadcast_to(meval(*grid), np.shape(grid[0])) + 0.0, tt=np.broadcast_to(teval(*grid), np.shape(grid[0])) + 0.0,
                cm=cm, ct=ct, cpos=cpos, cval=cval, model=model, drift=drift, ext=ext, unbiased=unbiased, fit=fit, case=case,
                seed=int(rng.randint(1, 10**6)))


def class_build(cfg, bare=None, nz=None):
    """the object of the configuration; `bare` = conditioning values for the same class WITHOUT mean / normalizer / trend"""
    import gstools as gs
    cn, model, cpos = cfg["cname"], cfg["model"], cfg["cpos"]
    if cn == "SRF":
        if bare is not None:
            return gs.SRF(model, seed=cfg["seed"], mode_no=16)
        return gs.SRF(model, mean=cfg["mval"], normalizer=nz, trend=cfg["tval"], seed=cfg["seed"], mode_no=16)
    full = bare is None
    val = cfg["cval"] if full else bare
    ext_c = _cls_ext(*cpos) if cfg["ext"] else None
    fitkw = {"fit_normalizer": True} if (full and cfg["fit"]) else {}
    if cn == "Simple":
        return gs.krige.Simple(model, cpos, val, **(dict(mean=cfg["mval"], normalizer=nz, trend=cfg["tval"], **fitkw) if full else {}))
    if cn == "Ordinary":
        return gs.krige.Ordinary(model, cpos, val, **(dict(normalizer=nz, trend=cfg["tval"], **fitkw) if full else {}))
    if cn == "Universal":
        return gs.krige.Universal(model, cpos, val, cfg["drift"], **(dict(normalizer=nz, trend=cfg["tval"], **fitkw) if full else {}))
    if cn == "ExtDrift":
        return gs.krige.ExtDrift(model, cpos, val, ext_c, **(dict(normalizer=nz, trend=cfg["tval"], **fitkw) if full else {}))
    if cn == "Detrended":
        if full:
            return gs.krige.Detrended(model, cpos, val, cfg["tval"])
        return gs.krige.Krige(model, cpos, val, unbiased=False)       # "simple kriging with zero mean" of the detrended data
    return gs.krige.Krige(model, cpos, val, drift_functions=cfg["drift"], ext_drift=ext_c, unbiased=cfg["unbiased"],
                          **(dict(mean=cfg["mval"], normalizer=nz, trend=cfg["tval"], **fitkw) if full else {}))


def class_call_kw(cfg):
    if not cfg["ext"]:
        return {}
    return {"ext_drift": _cls_ext(*cfg["grid"]).reshape(-1)}


def corr_class_pipeline(ctx, rng, out):
    """every field class (Simple, Ordinary, Universal, ExtDrift, Detrended, generic Krige with drift_functions / ext_drift /
       unbiased, SRF, and CondSRF on top of each kriging class): output cells and prepared conditioning values of the REAL
       object against Model.Norm.classOutput / classCond evaluated on the CALLER's mean / trend / normalizer arguments"""
    import gstools as gs
    n = ctx.scale(280, 2100)
    ops, meta = [], []
    for t in range(n):
        cname = FIELD_CLASSES[t % len(FIELD_CLASSES)]
        cfg = class_setup(rng, cname)
        if cfg is None:
            continue
        case = cfg["case"]
        try:
            with warnings.catch_warnings(), np.errstate(all="ignore"):
                warnings.simplefilter("ignore")
                nz = make(cfg["kind"], cfg["l"], cfg["s"]) if cname in HAS_NORM else None
                obj = class_build(cfg, nz=nz)
                kw = class_call_kw(cfg)
                outs = []
                if cname == "SRF":
                    raw = np.array(obj(cfg["pos"], mesh_type=cfg["mesh"], post_process=False, store=False))
                    res = np.array(obj(cfg["pos"], mesh_type=cfg["mesh"], store=False))
                    outs.append(("SRF", raw, res))
                    cond = None
                else:
                    raw = np.array(obj(cfg["pos"], mesh_type=cfg["mesh"], post_process=False, return_var=False, store=False, **kw))
                    res = np.array(obj(cfg["pos"], mesh_type=cfg["mesh"], return_var=False, store=False, **kw))
                    outs.append((cname, raw, res))
                    cond = np.array(obj._krige_cond)[: len(cfg["cval"])]
                    if t % 3 == 0:
                        csrf = gs.CondSRF(obj, seed=cfg["seed"], mode_no=16)
                        craw = np.array(csrf(cfg["pos"], mesh_type=cfg["mesh"], seed=cfg["seed"], post_process=False, store=False, **kw))
                        cres = np.array(csrf(cfg["pos"], mesh_type=cfg["mesh"], seed=cfg["seed"], store=False, **kw))
                        outs.append(("CondSRF(%s)" % cname, craw, cres))
                # the parameters the object ends up with (fit_normalizer=True changes them): public attributes
                l_, s_ = cfg["l"], cfg["s"]
                if cfg["fit"]:
                    l_ = float(getattr(obj.normalizer, "lmbda", l_))
                    s_ = float(getattr(obj.normalizer, "shift", s_))
        except Exception as ex:
            out["disagreements"].append(dict(what=f"class-pipeline:{cname}:exception", detail=f"{type(ex).__name__}: {ex}", **case))
            continue
        for lab, raw, res in outs:
            ops.append(dict(op="norm_class_pipeline", kind=cfg["kind"], lmbda=f2b(l_), shift=f2b(s_), **{"class": cname},
                            raw=fbits(raw.ravel()), mean=fbits(np.ascontiguousarray(cfg["tm"]).ravel()),
                            trend=fbits(np.ascontiguousarray(cfg["tt"]).ravel()),
                            cval=fbits(cfg["cval"] if cond is not None else []), cmean=fbits(cfg["cm"] if cond is not None else []),
                            ctrend=fbits(cfg["ct"] if cond is not None else [])))
            meta.append((dict(case, object=lab), cfg["kind"], l_, res, cond))
    res_ = run_driver(ops)
    for (case, kind, l, real_out, real_cond), r in zip(meta, res_):
        if isinstance(r, dict) and "error" in r:
            out["disagreements"].append(dict(what="driver error class pipeline", detail=r["error"], **case))
            continue
        out["evaluations"] += 1
        key = f"class-pipeline:{case['object']}:{case['mean']}/{case['trend']}:{case['mesh']}" + (":fitted" if case["fit_normalizer"] else "")
        out["distribution"][key] = out["distribution"].get(key, 0) + 1
        out["keys"].add((key, kind, l, case["dim"]))
        out["elements"] += int(np.size(real_out)) + (0 if real_cond is None else int(np.size(real_cond)))
        bad = cmp_arrays(kind, l, np.asarray(real_out).ravel(), unbits(r[0]))
        if bad:
            i = bad[0]
            out["disagreements"].append(dict(what=f"class-pipeline:output:{case['object']}",
                                             detail="output of the object != trend + denormalize(mean + raw) with the caller's arguments in the "
                                                    "slots the class documents", index=i,
                                             real=None if isinstance(i, str) else float(np.asarray(real_out).ravel()[i]),
                                             model=None if isinstance(i, str) else float(unbits(r[0])[i]), **case))
        if real_cond is not None and not case["object"].startswith("CondSRF"):
            bad = cmp_arrays(kind, l, real_cond, unbits(r[1]))
            if bad:
                i = bad[0]
                out["disagreements"].append(dict(what=f"class-pipeline:conditions:{case['object']}",
                                                 detail="prepared conditioning values != normalize(cond_val - trend) - mean with the caller's "
                                                        "arguments", index=i, real=None if isinstance(i, str) else float(real_cond[i]),
                                                 model=None if isinstance(i, str) else float(unbits(r[1])[i]), **case))


def search_class_pipeline(ctx, rng, add, deep):
    """every field class with mean x normalizer (also fitted) x trend against the pipeline done BY HAND around an object of the
       same class built WITHOUT mean / normalizer / trend: conditioning values prepared as normalize(cond_val - trend) - mean,
       output post-processed as trend + denormalize(mean + raw); plus the public slots of the object"""
    import gstools as gs
    n = ctx.scale(175, 1400) * (2 if deep else 1)
    ev = 0
    for t in range(n):
        cname = FIELD_CLASSES[t % len(FIELD_CLASSES)]
        cfg = class_setup(rng, cname)
        if cfg is None:
            continue
        case = dict(cfg["case"], cond_pos=[c_.tolist() for c_ in cfg["cpos"]], cond_val=cfg["cval"].tolist(),
                    pos=[np.asarray(p_).tolist() for p_ in cfg["pos"]], seed=cfg["seed"])
        try:
            with warnings.catch_warnings(), np.errstate(all="ignore"):
                warnings.simplefilter("ignore")
                nz = make(cfg["kind"], cfg["l"], cfg["s"]) if cname in HAS_NORM else None
                full = class_build(cfg, nz=nz)
                oracle = make(cfg["kind"], cfg["l"], cfg["s"])      # a second instance, explicit composition
                if cfg["fit"]:
                    oracle.fit(cfg["cval"] - cfg["ct"])
                prep = oracle.normalize(cfg["cval"] - cfg["ct"]) - cfg["cm"]
                bare = class_build(cfg, bare=prep)
                kw = class_call_kw(cfg)
                call = dict(mesh_type=cfg["mesh"], store=False)
                if cname == "SRF":
                    got = np.array(full(cfg["pos"], **call))
                    braw = np.array(bare(cfg["pos"], **call))
                    gvar = bvar = None
                else:
                    got, gvar = full(cfg["pos"], **call, **kw)
                    braw, bvar = bare(cfg["pos"], **call, **kw)
                    got, braw = np.array(got), np.array(braw)
                want = cfg["tt"] + oracle.denormalize(cfg["tm"] + braw)
            ev += 2
            tol = dict(rtol=1e-10, atol=1e-10, equal_nan=True)
            if not np.allclose(got, want, **tol):
                add(f"api:{cname}:pipeline-by-hand", f"{cname} output != trend + denormalize(mean + raw) with raw from the same class built "
                    "WITHOUT mean / normalizer / trend on conditioning values prepared by hand as normalize(cond_val - trend) - mean",
                    dict(case, max_abs_diff=_maxdiff(got, want)))
            if gvar is not None and not np.allclose(np.array(gvar), np.array(bvar), **tol):
                add(f"api:{cname}:variance-by-hand", f"{cname} kriging variance depends on mean / normalizer / trend", case)
            if cname != "SRF":
                ev += 1
                if not np.allclose(np.array(full._krige_cond)[: len(prep)], prep, rtol=1e-13, atol=1e-13, equal_nan=True):
                    add(f"api:{cname}:conditions-by-hand", f"{cname}: prepared conditioning values != normalize(cond_val - trend) - mean "
                        "(caller's arguments)", case)
                # CondSRF on top: conditioning happens on the prepared values, the pipeline around it
                if t % 2 == 0:
                    with warnings.catch_warnings(), np.errstate(all="ignore"):
                        warnings.simplefilter("ignore")
                        cgot = np.array(gs.CondSRF(full, seed=cfg["seed"], mode_no=16)(cfg["pos"], **call, **kw))
                        craw = np.array(gs.CondSRF(bare, seed=cfg["seed"], mode_no=16)(cfg["pos"], **call, **kw))
                        cwant = cfg["tt"] + oracle.denormalize(cfg["tm"] + craw)
                    ev += 2
                    if not np.allclose(cgot, cwant, **tol):
                        add(f"api:CondSRF({cname}):pipeline-by-hand", f"CondSRF on {cname}: output != trend + denormalize(mean + conditioned "
                            "field of the object without mean / normalizer / trend)", dict(case, max_abs_diff=_maxdiff(cgot, cwant)))
            # public slots: the caller's arguments sit where the class documents them
            slots_ok = True
            for name, given, has in (("mean", cfg["mval"], cname in HAS_MEAN), ("trend", cfg["tval"], True)):
                attr = getattr(full, name)
                exp = given if has else None
                if callable(exp) or exp is None:
                    slots_ok = slots_ok and (attr is exp)
                else:
                    slots_ok = slots_ok and (not callable(attr)) and attr is not None and float(attr) == float(exp)
            if cname in HAS_NORM:
                slots_ok = slots_ok and (full.normalizer is nz)
            ev += 1
            if not slots_ok:
                add(f"api:{cname}:slots", f"{cname}: the mean / trend / normalizer attributes of the object are not the caller's arguments",
                    dict(case, mean_attr=repr(full.mean), trend_attr=repr(full.trend), normalizer_attr=repr(full.normalizer)))
        except Exception as ex:
            add(f"api:{cname}:pipeline-by-hand:exception", f"{type(ex).__name__}: {ex}", case)
    return ev


# ------------------------------------------------------------------------------------------ fit bookkeeping
DOC_PARAMS = {"Normalizer": {}, "LogNormal": {}, "BoxCox": {"lmbda": 1}, "BoxCoxShift": {"shift": 0, "lmbda": 1},
              "YeoJohnson": {"lmbda": 1}, "Modulus": {"lmbda": 1}, "Manly": {"lmbda": 1}}


class ScriptedOptimiser:
    """stands in for `scipy.optimize` inside normalizer/base.py: evaluates the objective at the scripted trial points,
    records what it was handed / what the objective returned / the object's parameters after every evaluation, and
    returns a result object with the prescribed `x`"""

    def __init__(self):
        self.calls = []
        self.script = None      # (trials, x, observer)

    def _run(self, route, fun, args, kw):
        trials, x, observe = self.script
        rec = dict(route=route, kw=dict(kw), args=args, values=[], states=[])
        self.calls.append(rec)
        for t in trials:
            par = float(t[0]) if route == 1 else np.array(t, dtype=float)
            with warnings.catch_warnings():
                warnings.simplefilter("ignore")
                with np.errstate(all="ignore"):
                    rec["values"].append(float(fun(par, *args)))
            rec["states"].append(observe())
        import types
        out = types.SimpleNamespace(x=(float(x[0]) if route == 1 else np.array(x, dtype=float)), success=True, fun=0.0)
        rec["out"] = out
        return out

    def minimize_scalar(self, fun, args=(), **kw):
        return self._run(1, fun, args, kw)

    def minimize(self, fun, args=(), **kw):
        return self._run(2, fun, args, kw)


def user_class(names, defaults):
    """a user-defined normalizer (documented extension point: subclass with `default_parameter`)"""
    from gstools.normalizer import Normalizer

    class UserNorm(Normalizer):
        default_parameter = dict(zip(names, defaults))

        def _normalize(self, data):
            return data * 1.0

        def _denormalize(self, data):
            return data * 1.0
    return UserNorm


def rand_names(rng, k):
    pool = ["a", "b", "B", "_c", "a1", "ab", "lmbda", "shift", "Z", "z", "a_", "A", "beta", "alpha", "x0", "k2", "k10"]
    return [str(v) for v in rng.choice(pool, size=k, replace=False)]


def skip_variants(rng, names):
    """every subset of the names; some with unknown names, duplicates, a tuple instead of a list, None for empty"""
    out = []
    for m in range(2 ** len(names)):
        sub = [n for i, n in enumerate(names) if m >> i & 1]
        out.append(sub)
        r = rng.rand()
        if r < 0.3:
            out.append(sub + ["nope"])
        elif r < 0.5 and sub:
            out.append(tuple(sub[::-1] + sub[:1]))
    out.append(None)
    return out


def fit_values(rng, kind, name, xmin):
    """a plausible value for a parameter (keeps most data in range, sometimes not)"""
    if name == "shift":
        return float(-xmin + rng.choice([0.25, 1.0, 3.5])) if rng.rand() < 0.85 else float(-xmin - 0.5)
    if rng.rand() < 0.3:
        return float(rng.choice([0.0, 2.0, 1.0, -1.0, 1e-9, 0.5]))
    return float(rng.uniform(-2, 3))


def corr_fit(ctx, rng, out):
    """Normalizer.fit / __init__(data=...) / remove_trend_norm_mean(fit_normalizer=True) / Krige(fit_normalizer=True)
    with `scipy.optimize` of normalizer/base.py replaced by a scripted optimiser, against Model.Norm.fit"""
    import gstools as gs
    import gstools.normalizer as N
    import gstools.normalizer.base as nb
    from gstools.normalizer import remove_trend_norm_mean
    dis, dist = out["disagreements"], out["distribution"]
    for kind, want in DOC_PARAMS.items():
        got = dict(getattr(N, kind).default_parameter)
        if got != want or list(got) != list(want):
            dis.append(dict(what=f"fit:default_parameter:{kind}", real=got, model=want))
    cases = []
    reps = ctx.scale(6, 20)
    for rep in range(reps):
        for kind in KINDS:
            names = sorted(DOC_PARAMS[kind])
            for skip in skip_variants(rng, names):
                for route in ("fit", "init", "tools", "krige"):
                    if route != "fit" and (skip is not None or rng.rand() < 0.5):
                        continue            # the other entry points have no `skip`
                    cases.append((kind, skip, route))
    nuser = ctx.scale(200, 1000)
    for t in range(nuser):
        cases.append(("user", None, "fit" if t % 4 else "init"))
    stub = ScriptedOptimiser()
    orig = nb.spo
    ops, meta = [], []
    nb.spo = stub
    try:
        for (kind, skip, route) in cases:
            n = int(rng.randint(3, 14))
            if kind == "user":
                decl = rand_names(rng, int(rng.randint(1, 5)))
                defaults = [float(v) for v in rng.choice([0.0, 1.0, -1.5, 2.25, 0.5], size=len(decl))]
                cls = user_class(decl, defaults)
                sk = skip_variants(rng, sorted(decl))
                skip = sk[int(rng.randint(0, len(sk)))] if route == "fit" else None
                data = rng.uniform(-2, 2, size=n)
                xmin = float(data.min())
            else:
                cls = getattr(N, kind)
                decl = list(DOC_PARAMS[kind])
                defaults = [float(DOC_PARAMS[kind][k]) for k in decl]
                if kind in ("LogNormal", "BoxCox", "BoxCoxShift"):
                    data = np.exp(rng.uniform(-2, 1.5, size=n)) - (float(rng.choice([0.0, 1.5, -2.0])) if kind == "BoxCoxShift" else 0.0)
                else:
                    data = rng.uniform(-2, 2, size=n)
                xmin = float(data.min())
            allnames = sorted(decl)
            sk_list = [] if skip is None else list(skip)
            free = [k for k in allnames if k not in sk_list]
            # start parameters: given by keyword (constructor) or not
            given = {k: fit_values(rng, kind, k, xmin) for k in decl if rng.rand() < 0.7}
            if rng.rand() < 0.3:
                given["not_a_parameter"] = 3.0
            nfree = len(free)
            ntr = int(rng.randint(0, 5))
            def vec():
                m = nfree
                if nfree > 1 and rng.rand() < 0.1:
                    m = int(rng.randint(1, nfree + 2))      # zip() truncation of a vector of the wrong length
                return [fit_values(rng, kind, free[i] if i < nfree else "", xmin) for i in range(max(m, 1))]
            trials = [vec() for _ in range(ntr)]
            x = vec()
            if route in ("tools", "krige"):
                # the pipeline normalises with the fitted parameters afterwards: keep them benign
                x = [fit_values(rng, kind, k, xmin) if k != "shift" else float(-xmin + 1.0) for k in free] or [0.0]
            kw = {}
            if route == "fit":
                if nfree == 1 and rng.rand() < 0.4:
                    kw["bracket"] = (float(rng.uniform(-1, 0)), float(rng.uniform(0.5, 3)))
                if nfree > 1 and rng.rand() < 0.4:
                    kw["x0"] = [float(v) for v in rng.uniform(-1, 2, size=nfree)]
                if rng.rand() < 0.3:
                    kw["tol"] = 1e-6
            trend = np.zeros(n)
            case = dict(kind=kind, names=decl, skip=None if skip is None else list(skip), route=route, given=given,
                        trials=trials, x=x, kwargs={k: v for k, v in kw.items()})
            stub.calls.clear()
            holder = {}
            stub.script = (trials, x, lambda: [float(getattr(holder["nz"], k)) for k in allnames])
            real = dict(exc=None)
            try:
                with warnings.catch_warnings(record=True) as wlist:
                    warnings.simplefilter("always")
                    with np.errstate(all="ignore"):
                        if route == "fit":
                            nz = cls(**given)
                            holder["nz"] = nz
                            ret = nz.fit(data, **({} if skip is None else {"skip": skip}), **kw)
                            real["opti_is_out"] = (nz._opti is stub.calls[-1]["out"]) if stub.calls else (nz._opti is None)
                        elif route == "init":
                            # __init__ calls fit() before it returns: the observer reaches the object through the bound objective
                            holder["nz"] = None
                            orig_fit = cls.fit
                            def spy(self, *a, **k):
                                holder["nz"] = self
                                holder["ret"] = orig_fit(self, *a, **k)
                                return holder["ret"]
                            own = "fit" in cls.__dict__
                            cls.fit = spy
                            try:
                                nz = cls(data, **given)
                            finally:
                                if own:
                                    cls.fit = orig_fit
                                else:
                                    del cls.fit
                            ret = holder.get("ret")
                            real["opti_is_out"] = nz._opti is None
                        elif route == "tools":
                            dim = int(rng.randint(1, 3))
                            pos = [rng.uniform(-1, 1, size=n) for _ in range(dim)]
                            c = float(rng.choice([0.0, 0.25, -0.5]))
                            a = rng.uniform(-0.2, 0.2, size=dim)
                            tfun = lambda *p_: c + sum(ai * np.asarray(pi, dtype=float) for ai, pi in zip(a, p_))
                            tval = [None, c, tfun][int(rng.randint(0, 3))]
                            trend = np.zeros(n) if tval is None else (np.full(n, c) if not callable(tval) else tfun(*pos))
                            mean = float(rng.choice([0.0, 0.5]))
                            nz = cls(**given)
                            holder["nz"] = nz
                            fld = data + trend
                            data_in = fld - trend     # what the code computes: field -= trend
                            res = remove_trend_norm_mean(pos, fld, mean=mean, normalizer=nz, trend=tval, fit_normalizer=True)
                            real["returned_same_object"] = res[1] is nz
                            real["field"] = np.array(res[0], dtype=float)
                            real["mean"], real["fld"] = mean, fld
                            ret = None
                            data = data_in
                            real["opti_is_out"] = (nz._opti is stub.calls[-1]["out"]) if stub.calls else True
                        else:
                            dim = int(rng.randint(1, 3))
                            pos = [rng.uniform(-1, 1, size=n) for _ in range(dim)]
                            c = float(rng.choice([0.0, 0.25, -0.5]))
                            tval = [None, c][int(rng.randint(0, 2))]
                            trend = np.zeros(n) if tval is None else np.full(n, c)
                            mean = float(rng.choice([0.0, 0.5]))
                            nz = cls(**given)
                            holder["nz"] = nz
                            fld = data + trend
                            data = fld - trend
                            kr = gs.krige.Krige(gs.Gaussian(dim=dim, var=0.5, len_scale=1.0), pos, fld, mean=mean,
                                                normalizer=nz, trend=tval, unbiased=False, fit_normalizer=True)
                            real["returned_same_object"] = kr.normalizer is nz
                            real["field"] = np.array(kr._krige_cond, dtype=float)[:n]
                            real["mean"], real["fld"] = mean, fld
                            ret = None
                            real["opti_is_out"] = (nz._opti is stub.calls[-1]["out"]) if stub.calls else True
                real["warned"] = any("no parameters" in str(w.message) for w in wlist)
            except Exception as ex:
                dis.append(dict(what=f"fit:{route}:exception", detail=f"{type(ex).__name__}: {ex}", **case))
                continue
            real["ret"] = ret
            real["attrs"] = [float(getattr(nz, k)) for k in allnames]
            real["calls"] = [dict(c_) for c_ in stub.calls]
            real["nz"] = nz
            op = dict(op="norm_fit", names=decl, values=fbits(defaults), skip=sk_list,
                      given_names=[k for k in given], given_values=fbits([given[k] for k in given]),
                      trials=[fbits(t) for t in trials], x=fbits(x))
            if "bracket" in kw:
                op["bracket"] = fbits(kw["bracket"])
            if "x0" in kw:
                op["x0"] = fbits(kw["x0"])
            if kind != "user":
                op.update(kind=kind, data=fbits(data + trend if route in ("tools", "krige") else data), trend=fbits(trend))
            ops.append(op)
            meta.append((case, kind, allnames, free, data, kw, real))
    finally:
        nb.spo = orig
    res = run_driver(ops)
    pipe_ops, pipe_meta = [], []
    for (case, kind, allnames, free, data, kw, real), r in zip(meta, res):
        if isinstance(r, dict) and "error" in r:
            dis.append(dict(what="driver error fit", detail=r["error"], **case))
            continue
        out["evaluations"] += 1
        route = case["route"]
        key = f"fit:{route}:{kind}:free={len(free)}/{len(allnames)}"
        dist[key] = dist.get(key, 0) + 1
        out["keys"].add((key, tuple(case["skip"] or ()), tuple(case["names"]), tuple(sorted(case["given"])), len(case["trials"]),
                         tuple(sorted(kw))))
        bad = []
        if r["all"] != allnames:
            bad.append(("sorted names", allnames, r["all"]))
        m_attrs = unbits(r["attrs"])
        if fbits(real["attrs"]) != r["attrs"]:
            bad.append(("parameters after the call", real["attrs"], m_attrs.tolist()))
        calls = real["calls"]
        m_route = int(r["route"])
        if (calls[0]["route"] if calls else 0) != m_route or len(calls) > 1:
            bad.append(("optimiser called", [c_["route"] for c_ in calls], m_route))
        if route in ("fit", "init"):
            ret = real["ret"]
            if not isinstance(ret, dict):
                bad.append(("returned value", repr(ret), "dict"))
            else:
                if list(ret) != r["ret_names"]:
                    bad.append(("returned names", list(ret), r["ret_names"]))
                elif fbits([float(ret[k]) for k in ret]) != r["ret_values"]:
                    bad.append(("returned values", [float(ret[k]) for k in ret], unbits(r["ret_values"]).tolist()))
        if real["warned"] != bool(r["warned"]):
            bad.append(("'no parameters' warning", real["warned"], bool(r["warned"])))
        if not real["opti_is_out"]:
            bad.append(("_opti", "not the optimiser's result", "the optimiser's result (None after __init__)"))
        if real.get("returned_same_object") is False:
            bad.append(("fitted normalizer", "another object", "the object handed in"))
        if calls and m_route == calls[0]["route"]:
            c_ = calls[0]
            k_ = dict(c_["kw"])
            if m_route == 1:
                br = k_.pop("bracket", None)
                if br is None or fbits(br) != r["bracket"]:
                    bad.append(("bracket handed to minimize_scalar", br, None if r["bracket"] is None else unbits(r["bracket"]).tolist()))
            else:
                x0 = k_.pop("x0", None)
                if x0 is None or fbits(x0) != r["x0"]:
                    bad.append(("x0 handed to minimize", x0, None if r["x0"] is None else unbits(r["x0"]).tolist()))
            want_kw = {k: v for k, v in kw.items() if k not in ("bracket", "x0")}
            if k_ != want_kw:
                bad.append(("other keyword arguments handed to the optimiser", k_, want_kw))
            a_ = c_["args"]
            if not (isinstance(a_, tuple) and len(a_) == 1 and np.asarray(a_[0]).size == data.size
                    and np.array_equal(np.asarray(a_[0], dtype=float).ravel(), data.ravel(), equal_nan=True)):
                bad.append(("data handed to the objective", "differs", "the (detrended) data"))
            seen_real = [fbits(s_) for s_ in c_["states"]]
            if seen_real != r["seen"]:
                bad.append(("parameters at the objective evaluations", c_["states"], [unbits(s_).tolist() for s_ in r["seen"]]))
            elif kind != "user":
                mobj = unbits(r["objective"])
                for st, a, b in zip(c_["states"], c_["values"], mobj):
                    par = dict(zip(allnames, st))
                    l, sft = par.get("lmbda", 1.0), par.get("shift", 0.0)
                    with warnings.catch_warnings(), np.errstate(all="ignore"):
                        warnings.simplefilter("ignore")
                        nz2 = make(kind, l, sft)
                        d = nz2._check_input(data, nz2.normalize_range, False)
                        scale = d.size * (abs(np.log(np.var(nz2._normalize(d)))) + np.max(np.abs(np.log(np.maximum(1e-16, nz2._derivative(d)))), initial=0.0) + 3.0) if d.size else 1.0
                    t = 1e-12 * (scale if np.isfinite(scale) else 1.0) * (1 + 1 / lam_eff(kind, l))
                    if np.isnan(a) or np.isnan(b) or np.isinf(a) or np.isinf(b):
                        ok = (np.isnan(a) and np.isnan(b)) or a == b
                    else:
                        ok = abs(a - b) <= t
                    out["elements"] += 1
                    if not ok:
                        bad.append(("objective value (-kernel_loglikelihood at the trial parameters)", a, float(b)))
                        break
        for (what, a, b) in bad[:2]:
            dis.append(dict(what=f"fit:{route}:{what}", real=a, model=b, **case))
        if len(out["samples"]) < 8 and kind == "BoxCoxShift" and route == "fit" and 0 < len(free) < 2 and case["trials"]:
            out["samples"].append(dict(case=case, real=dict(attrs=real["attrs"], ret={k: float(v) for k, v in real["ret"].items()}),
                                       model=dict(attrs=m_attrs.tolist(), ret=dict(zip(r["ret_names"], unbits(r["ret_values"]).tolist())))))
        if route in ("tools", "krige") and kind != "user":
            par = dict(zip(allnames, real["attrs"]))
            l, sft = par.get("lmbda", 1.0), par.get("shift", 0.0)
            pipe_ops.append(dict(op="norm_pipeline", kind=kind, lmbda=f2b(l), shift=f2b(sft), raw=fbits(real["fld"]),
                                 mean=fbits(np.full(data.size, real["mean"])), trend=fbits(real["fld"] - data)))
            pipe_meta.append((case, kind, l, real["field"]))
    for (case, kind, l, fld), r in zip(pipe_meta, run_driver(pipe_ops)):
        if isinstance(r, dict) and "error" in r:
            dis.append(dict(what="driver error fit pipeline", detail=r["error"], **case))
            continue
        out["evaluations"] += 1
        badi = cmp_arrays(kind, l, fld, unbits(r[2]))
        if badi:
            dis.append(dict(what=f"fit:{case['route']}:field normalised with the fitted parameters", index=badi[0], **case))


def corr_isclose(ctx, rng, out):
    vals = special_lambdas() + [float(v) for v in rng.uniform(-1e-7, 1e-7, size=20)] + \
        [float(2 + v) for v in rng.uniform(-5e-5, 5e-5, size=20)] + [np.nan, np.inf, -np.inf]
    ops = [dict(op="norm_isclose", a=f2b(a), b=f2b(b)) for a in vals for b in (0.0, 2.0)]
    res = run_driver(ops)
    i = 0
    for a in vals:
        for b in (0.0, 2.0):
            real = bool(np.isclose(a, b))
            out["evaluations"] += 1
            out["keys"].add(("isclose", a if not np.isnan(a) else "nan", b))
            if real != res[i]:
                out["disagreements"].append(dict(what="isclose", a=a, b=b, real=real, model=res[i]))
            i += 1
    out["distribution"]["isclose"] = len(ops)


def correspondence(ctx):
    rng = np.random.RandomState(ctx.seed + 1800)
    out = dict(evaluations=0, elements=0, samples=[], disagreements=[], distribution={}, keys=set())
    corr_isclose(ctx, rng, out)
    corr_normalizers(ctx, rng, out)
    corr_pipeline(ctx, np.random.RandomState(ctx.seed + 1801), out)
    corr_fit(ctx, np.random.RandomState(ctx.seed + 1802), out)
    corr_class_pipeline(ctx, np.random.RandomState(ctx.seed + 1803), out)
    keys = out.pop("keys")
    out["distribution"]["driver_ops"] = out["evaluations"]
    out["evaluations"] = max(out["evaluations"], out["elements"])   # one evaluation = one compared array element / scalar op
    out["distinct_nontrivial"] = min(len(keys), out["evaluations"])
    out["rule"] = ("7 classes x parameter grid (0, 2, both signs, values inside / on / just outside the isclose bands, random) "
                   "x {ranges+isclose flags (exact), normalize, denormalize, derivative (elementwise incl. NaN mask, +-inf, "
                   "boundaries, nextafter(boundary), out-of-range; warning flag), loglikelihood+kernel}; pipelines through "
                   "apply_mean_norm_trend/remove_trend_norm_mean, Field(field=raw), SRF post_process on/off, Krige._krige_cond "
                   "with none/const/callable mean and trend, scalar/vector, structured/unstructured; every field class (Simple, Ordinary, "
                   "Universal with linear / callable drift, ExtDrift, Detrended, generic Krige with drift_functions / ext_drift / unbiased "
                   "on and off, SRF, and CondSRF on top of every kriging class) x normalizer (also fit_normalizer=True) x none/const/callable "
                   "mean and trend x dim 1-3 x structured/unstructured: output cells and prepared conditioning values of the real object == "
                   "Model.Norm.classOutput / classCond on the CALLER's arguments; Normalizer.fit / __init__(data=) / "
                   "remove_trend_norm_mean(fit_normalizer=True) / Krige(fit_normalizer=True) with scipy.optimize of normalizer/base.py "
                   "replaced by a scripted optimiser: 7 classes + user-defined subclasses with 1-4 arbitrarily named parameters x every "
                   "subset of skipped names (+ unknown names, duplicates, tuple, None) x constructor keywords x caller bracket / x0 / tol "
                   "x scripted trial vectors and result (sorted names, routine, kwargs and data handed over, parameters and objective "
                   "value at every evaluation, parameters after the call, returned dict incl. order, warning, _opti: bit for bit).  "
                   "distinct = distinct "
                   "(class, op, lmbda, shift, datum) resp. (route, mean/trend kind, value type, mesh, class, lmbda); "
                   f"{out.pop('elements')} array elements compared")
    out["disagreements"] = out["disagreements"][:20]
    return out


# ------------------------------------------------------------------------------------------ search
def mp_oracle(kind, l, s):
    """the documented transformation (docstring formulas) in 40-digit arithmetic; the limit form is used exactly
    when the class says it does (np.isclose), which is part of its documented parameter handling"""
    import mpmath as mp
    mp.mp.dps = 40
    L = mp.mpf(l)
    S = mp.mpf(s)
    z0 = bool(np.isclose(l, 0))
    z2 = bool(np.isclose(l, 2))

    def bc(u, lam, lim):
        return mp.log(u) if lim else (mp.power(u, lam) - 1) / lam

    def f(x):
        x = mp.mpf(x)
        if kind == "Normalizer":
            return x
        if kind == "LogNormal":
            return mp.log(x)
        if kind == "BoxCox":
            return bc(x, L, z0)
        if kind == "BoxCoxShift":
            return bc(x + S, L, z0)
        if kind == "YeoJohnson":
            return bc(x + 1, L, z0) if x >= 0 else -bc(1 - x, 2 - L, z2)
        if kind == "Modulus":
            return mp.sign(x) * bc(abs(x) + 1, L, z0)
        if kind == "Manly":
            return x if z0 else (mp.exp(L * x) - 1) / L
        raise ValueError(kind)
    return f, mp


def in_image_guard(kind, l, s, x, y, d):
    """well-conditioned for a Float round trip: no saturation, derivative and values of moderate size"""
    return np.isfinite(y) and np.isfinite(d) and 1e-6 < d < 1e6 and abs(y) < 1e6 and abs(x) < 1e6


# ------------------------------------------------------------------------------------------ search: fitting
LOG2PI = float(np.log(2 * np.pi))


def ml_oracle(kind, par, x):
    """independent re-implementation of the maximum-likelihood definition: Gaussian log-likelihood of the transformed
    data with mean and (population) variance profiled out, plus the log-Jacobian, from the documented formulas
    (plain log / power / exp; the limit form exactly where the class documents it, np.isclose).  -inf when a datum
    is outside the domain of the transformation."""
    x = np.asarray(x, dtype=float)
    lam, sh = float(par.get("lmbda", 1.0)), float(par.get("shift", 0.0))
    z0, z2 = bool(np.isclose(lam, 0)), bool(np.isclose(lam, 2))

    def bc(u, lm, lim):
        return np.log(u) if lim else (np.power(u, lm) - 1.0) / lm
    with np.errstate(all="ignore"):
        if kind == "Normalizer":
            y, lj = x, np.zeros_like(x)
        elif kind == "LogNormal":
            if (x <= 0).any():
                return -np.inf
            y, lj = np.log(x), -np.log(x)
        elif kind in ("BoxCox", "BoxCoxShift"):
            u = x + (sh if kind == "BoxCoxShift" else 0.0)
            if (u <= 0).any():
                return -np.inf
            y, lj = bc(u, lam, z0), (lam - 1) * np.log(u)
        elif kind == "YeoJohnson":
            pos = x >= 0
            y, lj = np.empty_like(x), np.empty_like(x)
            y[pos], lj[pos] = bc(x[pos] + 1, lam, z0), (lam - 1) * np.log(x[pos] + 1)
            y[~pos], lj[~pos] = -bc(1 - x[~pos], 2 - lam, z2), (1 - lam) * np.log(1 - x[~pos])
        elif kind == "Modulus":
            y, lj = np.sign(x) * bc(np.abs(x) + 1, lam, z0), (lam - 1) * np.log(np.abs(x) + 1)
        elif kind == "Manly":
            y, lj = (x.copy() if z0 else (np.exp(lam * x) - 1) / lam), lam * x
        else:
            raise ValueError(kind)
        v = np.mean((y - np.mean(y)) ** 2)
        out = float(-0.5 * x.size * (LOG2PI + np.log(v) + 1) + np.sum(lj))
    return out if np.isfinite(out) else -np.inf


def ml_class(kind, par, x):
    """the same definition evaluated with the class's own public normalize / derivative on a fresh instance"""
    from scipy.stats import norm as gauss
    nz = make(kind, par.get("lmbda", 1.0), par.get("shift", 0.0))
    with warnings.catch_warnings(), np.errstate(all="ignore"):
        warnings.simplefilter("ignore")
        y, d = nz.normalize(x), nz.derivative(x)
        if np.isnan(y).any() or np.isnan(d).any():
            return -np.inf
        mu = float(np.mean(y))
        sd = float(np.sqrt(np.mean((y - mu) ** 2)))
        out = float(np.sum(gauss.logpdf(y, mu, sd)) + np.sum(np.log(d)))
    return out if np.isfinite(out) else -np.inf


def golden_max(f, a, b, iters=60):
    g = (np.sqrt(5.0) - 1) / 2
    c, d = b - g * (b - a), a + g * (b - a)
    fc, fd = f(c), f(d)
    for _ in range(iters):
        if fc > fd:
            b, d, fd = d, c, fc
            c = b - g * (b - a)
            fc = f(c)
        else:
            a, c, fc = c, d, fd
            d = a + g * (b - a)
            fd = f(d)
    return (c, fc) if fc > fd else (d, fd)


def brute_max(f, lo, hi, n):
    """dense grid + golden-section refinement around the best grid point; returns (argmax, max, best is at an end)"""
    g = np.linspace(lo, hi, n)
    v = np.array([f(t) for t in g])
    i = int(np.argmax(v))
    t, ft = golden_max(f, g[max(i - 1, 0)], g[min(i + 1, n - 1)])
    if not ft >= v[i]:
        t, ft = float(g[i]), float(v[i])
    return float(t), float(ft), i in (0, n - 1)


def fit_data(rng, kind):
    """samples whose maximum-likelihood transformation is not trivial: several shapes per class"""
    n = int(rng.choice([25, 40, 80, 150]))
    c = int(rng.randint(0, 5))
    if kind in ("BoxCox", "LogNormal", "BoxCoxShift"):
        x = [np.exp(rng.normal(0.3, 0.5, n)), rng.gamma(2.0, 1.0, n) + 0.05, rng.weibull(1.5, n) + 0.1,
             3 + rng.normal(0, 0.6, n).clip(-2.5), rng.uniform(0.5, 4, n) ** 2][c]
        if kind == "BoxCoxShift":
            x = x - float(rng.choice([0.0, 1.5, -2.0]))
    elif kind == "Manly":
        x = [rng.gamma(2.0, 1.0, n) / 2 - 0.5, rng.normal(0, 0.7, n), np.log(rng.gamma(3, 1, n)),
             rng.uniform(-1, 1, n) ** 3 * 2, -rng.weibull(1.5, n) + 0.5][c]
    else:
        x = [rng.gamma(2.0, 1.0, n) - 1.0, rng.normal(0.5, 1.5, n), np.exp(rng.normal(0, 0.7, n)) - 1.5,
             -rng.gamma(2, 1.5, n) + 1, rng.standard_t(5, n)][c]
    return np.asarray(x, dtype=float)


def check_fit_result(kind, names, before, nz, ret, skip, x, add, case, stats, rng, n_grid=221):
    """(a) skipped parameters untouched, (b) returned dict == object, the object holds the optimiser's result,
    (c) the fitted parameters maximise the documented log-likelihood over the free parameters"""
    sk = [] if skip is None else list(skip)
    free = [k for k in names if k not in sk]
    tag = "free-" + ("+".join(free) if free else "none")
    after = {k: getattr(nz, k) for k in names}
    for k in names:
        if k not in free and f2b(after[k]) != f2b(before[k]):
            add(f"api:{kind}:fit:skipped-parameter-changed", f"fit(skip={sk}) changed the skipped parameter {k}",
                dict(before=float(before[k]), after=float(after[k]), **case))
    if not free:
        if ret != {}:
            add(f"api:{kind}:fit:return-without-free-parameters", "fit() without free parameters does not return {}", case)
        return
    if not isinstance(ret, dict) or list(ret) != names or any(f2b(ret[k]) != f2b(after[k]) for k in names):
        add(f"api:{kind}:fit:returned-dict", "fit() does not return the object's parameters by name",
            dict(returned={k: float(v) for k, v in ret.items()} if isinstance(ret, dict) else repr(ret),
                 object={k: float(v) for k, v in after.items()}, **case))
    op = nz._opti
    if op is None or fbits(np.atleast_1d(op.x)) != fbits([after[k] for k in free]):
        add(f"api:{kind}:fit:result-not-stored", "the fitted parameters are not the optimiser's result x",
            dict(opti_x=None if op is None else np.atleast_1d(op.x).tolist(), object={k: float(v) for k, v in after.items()}, **case))
    par = {k: float(after[k]) for k in names}
    fin = all(np.isfinite(v) for v in par.values())
    stats["fits"] += 1
    if not fin:
        stats["nonfinite"] += 1
        add(f"api:{kind}:fit:{tag}:nonfinite-parameter", "fit() returned without error and left a non-finite parameter in the object",
            dict(fitted=par, **case))
        return
    lo, _ = [float(v) for v in nz.normalize_range]
    if np.isfinite(lo) and not (x > lo).all():
        stats["data_out_of_range"] += 1
        add(f"api:{kind}:fit:{tag}:data-out-of-range-at-optimum", "at the fitted parameters part of the data is outside "
            "normalize_range (the objective silently drops such data: the 'optimum' is that of a subset)",
            dict(fitted=par, n_out=int((x <= lo).sum()), **case))
        return
    if not bool(getattr(op, "success", True)):
        stats["optimiser_failed"] += 1       # reported by scipy in the result object; maximality is not claimed then
        return
    # guard: the comparison needs a regime in which a maximum-likelihood estimate can exist and double arithmetic
    # resolves the likelihood: exponents as in the brute-force window, shift at a distance from the singular end
    # -min(x) comparable with the spread of the data (three-parameter families have their supremum at infinity /
    # at the singular end for many samples; an optimiser run that wanders there is not a statement about fit())
    xmin, spread = float(np.min(x)), float(np.ptp(x))
    if ("lmbda" in free and not abs(par["lmbda"]) <= 6.0) or \
            ("shift" in free and not 1e-4 * spread <= par["shift"] + xmin <= 1e3 * spread):
        stats["outside_window"] += 1
        return
    checked = False
    for oname, orc in (("definition", ml_oracle), ("class-formulas", ml_class)):
        l_fit = orc(kind, par, x)
        tol = 1e-9 * (1 + abs(l_fit)) if len(free) == 1 else 1e-6 * (1 + abs(l_fit))
        # global along a single free parameter: dense grid + golden section
        if len(free) == 1:
            k = free[0]
            if k == "lmbda":
                rlo, rhi = -6.0, 8.0
            else:
                dist = par[k] + xmin
                rlo, rhi = -xmin + 1e-3 * dist, par[k] + 4 * dist
            f = lambda t: orc(kind, dict(par, **{k: float(t)}), x)
            t_ref, l_ref, at_end = brute_max(f, rlo, rhi, n_grid)
            if k == "shift" and (at_end or f(rhi) >= l_ref - 100 * tol):
                # no maximum-likelihood shift exists: the likelihood keeps growing (or is flat to rounding) towards
                # shift -> inf (the transformation degenerates to an affine map) or towards the singular end
                stats["no_interior_maximum"] += 1
                continue
            checked = True
            if l_ref > l_fit + tol:
                add(f"api:{kind}:fit:{tag}:not-maximum-likelihood", f"the fitted {k} does not maximise the log-likelihood ({oname}): "
                    "brute force finds a larger value", dict(fitted=par, loglik=l_fit, ref=t_ref, ref_loglik=l_ref, **case))
                continue
        # local: no neighbour along the free coordinates (and diagonals) is better
        checked = True
        steps = []
        for d in (1e-3, 1e-2):
            for sg in ([(1,), (-1,)] if len(free) == 1 else [(1, 0), (-1, 0), (0, 1), (0, -1), (1, 1), (1, -1), (-1, 1), (-1, -1)]):
                steps.append([d * v for v in sg])
        best, arg = l_fit, None
        for st in steps:
            q = dict(par)
            for k, dv in zip(free, st):
                q[k] = par[k] + dv * ((par[k] + xmin) if k == "shift" else 1.0)
            v = orc(kind, q, x)
            if v > best:
                best, arg = v, q
        if best > l_fit + tol:
            add(f"api:{kind}:fit:{tag}:not-a-local-maximum", f"a neighbouring parameter value has a larger log-likelihood ({oname})",
                dict(fitted=par, loglik=l_fit, better=arg, better_loglik=best, **case))
    stats["ml_checked"] += int(checked)
    if checked:
        stats["ml_checked:" + tag] = stats.get("ml_checked:" + tag, 0) + 1


def search_vector_pipeline(ctx, rng, add):
    """vector-valued fields (generator 'VectorField') with per-component mean / trend and a normalizer: the output is
    trend_c + denormalize(raw_c + mean_c) per component c, and a transformation applied with process=True acts on
    normalize(field - trend) - mean (mean kept inside when keep_mean=True) and is mapped back the same way — structured and unstructured."""
    import gstools as gs
    ev = 0
    f = lambda x: 0.3 * x ** 3 + x            # noqa: E731  (strictly increasing, not the identity)
    for t in range(ctx.scale(16, 120)):
        dim = int(rng.randint(2, 4))
        model = gs.Gaussian(dim=dim, var=1.2, len_scale=2.0)
        mkind, tkind = ["none", "scalar", "vector"][int(rng.randint(3))], ["none", "scalar", "vector"][int(rng.randint(3))]
        mean = {"none": None, "scalar": 0.7, "vector": tuple(float(v) for v in rng.uniform(-2, 2, dim))}[mkind]
        trend = {"none": None, "scalar": -0.4, "vector": tuple(float(v) for v in rng.uniform(-2, 2, dim))}[tkind]
        nkind = ["none", "YeoJohnson", "Modulus"][int(rng.randint(3))]
        mk_norm = lambda: None if nkind == "none" else getattr(gs.normalizer, nkind)(lmbda=0.6)   # noqa: E731
        seed = int(rng.randint(1, 10 ** 6))
        mesh = "structured" if rng.rand() < 0.4 else "unstructured"
        pos = [np.sort(rng.uniform(0, 6, int(rng.randint(2, 4)))) for _ in range(dim)] if mesh == "structured" else rng.uniform(0, 6, size=(dim, 6))
        case = dict(dim=dim, mean=mean, trend=trend, normalizer=nkind, seed=seed, mesh_type=mesh)
        try:
            with warnings.catch_warnings():
                warnings.simplefilter("ignore")
                kw = dict(generator="VectorField", seed=seed, mode_no=16)
                srf = gs.SRF(model, mean=mean, trend=trend, normalizer=mk_norm(), **kw)
                out = np.asarray(srf(pos, mesh_type=mesh), dtype=float)
                raw = np.asarray(gs.SRF(model, **kw)(pos, mesh_type=mesh), dtype=float)      # plain raw field: mean 0, no trend, no normalizer
                shp = (dim,) + (1,) * (raw.ndim - 1)
                mv = np.zeros(shp) if mean is None else np.reshape(np.broadcast_to(np.asarray(mean, dtype=float), (dim,)), shp)
                tv = np.zeros(shp) if trend is None else np.reshape(np.broadcast_to(np.asarray(trend, dtype=float), (dim,)), shp)
                den = (lambda a: a) if nkind == "none" else mk_norm().denormalize
                want = tv + den(raw + mv)
                ev += 1
                if out.shape != want.shape or not np.allclose(out, want, rtol=1e-12, atol=1e-12, equal_nan=True):
                    add("api:vector-field:pipeline", "vector SRF output != trend_c + denormalize(raw_c + mean_c) per component", case)
                    continue
                for keep in (True, False):
                    got = np.asarray(srf.transform("function", function=f, process=True, keep_mean=keep, store="t_keep" if keep else "t_drop"), dtype=float)
                    want_t = tv + den(f(raw + mv)) if keep else tv + den(f(raw) + mv)
                    ev += 1
                    if got.shape != want_t.shape or not np.allclose(got, want_t, rtol=1e-11, atol=1e-11, equal_nan=True):
                        add("api:vector-field:processed-transform",
                            f"Field.transform(function, process=True, keep_mean={keep}) on a vector field is not trend_c + denormalize(f(normalize(field_c - trend_c)"
                            + (")" if keep else " - mean_c) + mean_c") + ") per component", dict(case, keep_mean=keep))
                        break
                if not np.allclose(np.asarray(srf["field"], dtype=float), want, rtol=1e-12, atol=1e-12, equal_nan=True):
                    add("api:vector-field:source-changed", "the stored source field changed when a processed transformation was stored under another name", case)
        except Exception as ex:
            add("api:vector-field:exception", f"{type(ex).__name__}: {ex}", case)
    return ev


def search_fit(ctx, rng, add, deep):
    """real optimiser: every class x every subset of skipped names x start parameters x optimiser keyword arguments,
    plus the constructor (`data=`), remove_trend_norm_mean(fit_normalizer=True) and Krige(fit_normalizer=True)"""
    import gstools as gs
    import gstools.normalizer as N
    from gstools.normalizer import remove_trend_norm_mean
    stats = dict(fits=0, ml_checked=0, optimiser_failed=0, nonfinite=0, data_out_of_range=0, no_interior_maximum=0, outside_window=0)
    ev = 0
    reps = ctx.scale(3, 20) * (2 if deep else 1)

    def run(fn):
        with warnings.catch_warnings(record=True) as w:
            warnings.simplefilter("always")
            with np.errstate(all="ignore"):
                r = fn()
        return r, [str(m.message) for m in w]

    for rep in range(reps):
        for kind in KINDS:
            cls = getattr(N, kind)
            names = sorted(DOC_PARAMS[kind])
            x = fit_data(rng, kind if kind != "Normalizer" else "YeoJohnson")
            subsets = [[n for i, n in enumerate(names) if m >> i & 1] for m in range(2 ** len(names))]
            variants = [(sub, {}) for sub in subsets] + [(None, {})]
            for sub in subsets:
                free = [k for k in names if k not in sub]
                if free == ["shift"]:
                    d0 = float(rng.choice([0.3, 1.0, 3.0]))
                    variants.append((sub, dict(bracket=(-float(x.min()) + d0, -float(x.min()) + 1.5 * d0))))
                elif free == ["lmbda"]:
                    variants.append((sub + ["unknown"], dict(bracket=(0.0, 1.0))))
                    variants.append((tuple(sub), dict(method="bounded", bounds=(-3.0, 4.0))))
                elif len(free) == 2:
                    variants.append((sub, dict(method="Nelder-Mead")))
            for skip, kw in variants:
                start = {}
                if "lmbda" in names:
                    start["lmbda"] = float(rng.choice([1.0, 0.0, 0.5, -0.5, 2.0, float(rng.uniform(-1, 2.5))]))
                if "shift" in names:
                    start["shift"] = float(-x.min() + rng.choice([0.3, 1.0, 3.0]))
                nz = cls(**start)
                before = {k: getattr(nz, k) for k in names}
                case = dict(kind=kind, start=start, skip=None if skip is None else list(skip), kwargs={k: (list(v) if isinstance(v, tuple) else v) for k, v in kw.items()},
                            data=x.tolist())
                try:
                    ret, msgs = run(lambda: nz.fit(x, **({} if skip is None else {"skip": skip}), **kw))
                except Exception as ex:
                    add(f"api:{kind}:fit:exception", f"{type(ex).__name__}: {ex}", case)
                    continue
                ev += 1
                free = [k for k in names if k not in (skip or [])]
                if (not free) != any("no parameters" in m for m in msgs):
                    add(f"api:{kind}:fit:no-parameters-warning", "the 'no parameters' warning does not match the set of free parameters", case)
                check_fit_result(kind, names, before, nz, ret, skip, x, add, case, stats, rng)
        # --- three-parameter samples with an interior maximum: x = denormalize(N(mu, sd)) of a BoxCoxShift, exponent fixed
        #     at the truth and the shift fitted from a bracket near it / both fitted from a start near the truth
        for _ in range(2):
            lam = float(rng.choice([0.0, 2.0, -0.5, 0.5, 1.5, float(rng.uniform(-0.7, 2))]))
            sh = float(rng.choice([1.5, 1.0, 0.0, -2.0]))
            sd = min(float(rng.uniform(0.2, 0.7)), 0.25 if lam < 0 else 1.0)
            mu = 1.0 if lam == 0 else (3.0 if lam > 0 else 0.5)
            z = rng.normal(mu, sd, int(rng.choice([200, 500])))
            x, _ = run(lambda: N.BoxCoxShift(lmbda=lam, shift=sh).denormalize(z))
            if not np.isfinite(x).all():
                continue
            names = ["lmbda", "shift"]
            for mode in ("shift", "both", "both-nm", "lmbda"):
                if mode == "shift":
                    start, skip, kw = dict(lmbda=lam, shift=0.3 - float(x.min())), ["lmbda"], dict(bracket=(sh + 0.5, sh + 1.0))
                elif mode == "lmbda":
                    start, skip, kw = dict(lmbda=1.0, shift=sh), ["shift"], {}
                else:
                    start = dict(lmbda=lam + float(rng.uniform(-0.2, 0.2)), shift=sh + float(rng.uniform(-0.1, 0.3)))
                    skip, kw = [], (dict(method="Nelder-Mead") if mode == "both-nm" else {})
                nz = N.BoxCoxShift(**start)
                case = dict(kind="BoxCoxShift", start=start, skip=skip, kwargs={k: (list(v) if isinstance(v, tuple) else v) for k, v in kw.items()},
                            truth=dict(lmbda=lam, shift=sh, mu=mu, sd=sd), data=x.tolist())
                try:
                    ret, msgs = run(lambda: nz.fit(x, skip=skip, **kw))
                except Exception as ex:
                    add("api:BoxCoxShift:fit:exception", f"{type(ex).__name__}: {ex}", case)
                    continue
                ev += 1
                check_fit_result("BoxCoxShift", names, start, nz, ret, skip, x, add, case, stats, rng)
        # --- the other entry points: same result as fit() on a fresh object with the detrended data
        for kind in KINDS[1:]:
            if kind == "BoxCoxShift" and rep % 2:
                continue
            cls = getattr(N, kind)
            names = sorted(DOC_PARAMS[kind])
            x = fit_data(rng, kind)
            n = x.size
            start = {}
            if "lmbda" in names:
                start["lmbda"] = float(rng.choice([1.0, 0.5, 0.0]))
            if "shift" in names:
                start["shift"] = float(-x.min() + 1.0)
            dim = int(rng.randint(1, 3))
            pos = [rng.uniform(0, 3, size=n) for _ in range(dim)]
            c = float(rng.uniform(-0.3, 0.3))
            a = rng.uniform(-0.1, 0.1, size=dim)
            lin = lambda *p_: c + sum(ai * np.asarray(pi, dtype=float) for ai, pi in zip(a, p_))
            tval, tcell = [(None, np.zeros(n)), (c, np.full(n, c)), (lin, lin(*pos))][int(rng.randint(0, 3))]
            mean = float(rng.choice([0.0, 0.4]))
            fld = x + tcell
            det = fld - tcell
            case = dict(kind=kind, start=start, dim=dim, trend=type(tval).__name__, mean=mean, data=fld.tolist())
            try:
                ref = cls(**start)
                ref_ret, _ = run(lambda: ref.fit(det))
                want = {k: getattr(ref, k) for k in names}
                # constructor
                (nz0, msgs) = run(lambda: cls(det, **start))
                got0 = {k: getattr(nz0, k) for k in names}
                # tools
                nz1 = cls(**start)
                (res1, _) = run(lambda: remove_trend_norm_mean(pos, fld, mean=mean, normalizer=nz1, trend=tval, fit_normalizer=True))
                got1 = {k: getattr(nz1, k) for k in names}
                # krige
                nz2 = cls(**start)
                (kr, _) = run(lambda: gs.krige.Krige(gs.Exponential(dim=dim, var=0.3, len_scale=1.0), pos, fld, mean=mean,
                                                     normalizer=nz2, trend=tval, unbiased=False, fit_normalizer=True))
                got2 = {k: getattr(nz2, k) for k in names}
                # class handed over instead of an instance: fitted from the defaults
                (kr3, _) = run(lambda: gs.krige.Krige(gs.Exponential(dim=dim, var=0.3, len_scale=1.0), pos, fld, mean=mean,
                                                      normalizer=cls, trend=tval, unbiased=False, fit_normalizer=True))
                ref3 = cls()
                run(lambda: ref3.fit(det))
                got3 = {k: getattr(kr3.normalizer, k) for k in names}
                want3 = {k: getattr(ref3, k) for k in names}
            except Exception as ex:
                add(f"api:{kind}:fit-entry-points:exception", f"{type(ex).__name__}: {ex}", case)
                continue
            ev += 6
            for label, got, w_ in (("constructor-data", got0, want), ("remove_trend_norm_mean", got1, want), ("Krige", got2, want),
                                   ("Krige-class", got3, want3)):
                if any(f2b(got[k]) != f2b(w_[k]) for k in names):
                    add(f"api:{kind}:fit-normalizer:{label}", f"{label}: parameters differ from fit() on the detrended data with the same start",
                        dict(got={k: float(v) for k, v in got.items()}, want={k: float(v) for k, v in w_.items()}, **case))
            if res1[1] is not nz1 or kr.normalizer is not nz2:
                add(f"api:{kind}:fit-normalizer:object", "the fitted normalizer is not the object handed in", case)
            with warnings.catch_warnings(), np.errstate(all="ignore"):
                warnings.simplefilter("ignore")
                oracle = make(kind, want.get("lmbda", 1.0), want.get("shift", 0.0))
                wantf = oracle.normalize(det) - mean
            if not np.allclose(res1[0], wantf, rtol=1e-13, atol=1e-13, equal_nan=True):
                add(f"api:{kind}:fit-normalizer:field", "remove_trend_norm_mean(fit_normalizer=True) field != normalize(field - trend) - mean "
                    "with the fitted parameters", case)
            with warnings.catch_warnings(), np.errstate(all="ignore"):
                warnings.simplefilter("ignore")
                kcond = np.array(kr._krige_cond)[:n]
            if not np.allclose(kcond, wantf, rtol=1e-13, atol=1e-13, equal_nan=True):
                add(f"api:{kind}:fit-normalizer:krige-cond", "Krige(fit_normalizer=True) conditions != normalize(cond - trend) - mean "
                    "with the fitted parameters", case)
            check_fit_result(kind, names, start, ref, ref_ret, None, det, add, dict(case, entry="reference fit"), stats, rng)
    return ev, stats


def search(ctx, deep=False):
    import gstools as gs
    rng = np.random.RandomState(ctx.seed + 18)
    viol, ev = [], 0
    obs = {"declared_range_wider_than_image": 0}
    nrand = ctx.scale(60, 400) * (3 if deep else 1)
    npts = ctx.scale(100, 300)
    n_mp = ctx.scale(8, 25)

    def add(key, what, case):
        if sum(1 for v in viol if v["key"] == key) < 3:
            viol.append(dict(key=key, what=what, case=case))

    for kind in KINDS[1:]:
        for (l, s) in param_grid(rng, kind, nrand):
            nz = make(kind, l, s)
            case0 = dict(kind=kind, lmbda=l, shift=s)
            lo, hi = [float(v) for v in nz.normalize_range]
            base = lo if np.isfinite(lo) else 0.0
            if np.isfinite(lo):
                x = np.sort(base + np.exp(rng.uniform(-5, 3, size=npts)))
            else:
                x = np.sort(np.concatenate([rng.uniform(-6, 6, size=npts - 3), [0.0, 1e-7, -1e-7]]))
            x = np.unique(x)
            with warnings.catch_warnings(record=True) as w:
                warnings.simplefilter("always")
                with np.errstate(all="ignore"):
                    y = nz.normalize(x)
                    d = nz.derivative(x)
                    rt = nz.denormalize(y)
            ev += 3
            if np.isnan(y).any() or np.isnan(d).any():
                add(f"api:{kind}:normalize-nan-on-valid-input", "normalize/derivative gives NaN inside normalize_range",
                    dict(x=float(x[np.isnan(y) | np.isnan(d)][0]), **case0))
                continue
            # --- round trip denormalize(normalize(x)) == x where Float arithmetic is well conditioned
            le = lam_eff(kind, l)
            good = np.array([in_image_guard(kind, l, s, a, b, c) for a, b, c in zip(x, y, d)])
            tol = 200 * EPS * ((np.abs(y) + 1 / le) / np.where(good, d, 1.0) + np.abs(x) + 1)
            bad = good & ~(np.abs(rt - x) <= tol)
            if bad.any():
                i = int(np.argmax(bad))
                k = f"api:{kind}:roundtrip" + (":lmbda<0" if l < 0 else "")
                add(k, "denormalize(normalize(x)) != x on the valid input range",
                    dict(x=float(x[i]), y=float(y[i]), back=float(rt[i]), tol=float(tol[i]), **case0))
            # --- range image: normalised values lie strictly inside denormalize_range (no masking, no warning)
            dlo, dhi = [float(v) for v in nz.denormalize_range]
            outside = good & ~((y > dlo) & (y < dhi))
            if outside.any():
                i = int(np.argmax(outside))
                add(f"api:{kind}:range-image", "normalize(x) falls outside denormalize_range",
                    dict(x=float(x[i]), y=float(y[i]), denormalize_range=[dlo, dhi], **case0))
            # --- strict monotonicity on the sorted grid (where the step is resolvable)
            dy = np.diff(y)
            res_ok = good[1:] & good[:-1] & (np.diff(x) * np.minimum(d[1:], d[:-1]) > 1e3 * EPS * (np.abs(y[1:]) + 1 / le + 1))
            if (dy < 0).any() or (res_ok & ~(dy > 0)).any():
                i = int(np.argmax((dy < 0) | (res_ok & ~(dy > 0))))
                add(f"api:{kind}:monotone", "normalize is not strictly increasing",
                    dict(x=[float(x[i]), float(x[i + 1])], y=[float(y[i]), float(y[i + 1])], **case0))
            if (d[good] <= 0).any():
                add(f"api:{kind}:derivative-sign", "derivative not positive", case0)
            # --- derivative against central differences of the real normalize (sanity, O(h^2))
            inband = kind in HAS_LMBDA and (bool(np.isclose(l, 0)) and l != 0 or
                                            (kind == "YeoJohnson" and bool(np.isclose(l, 2)) and l != 2))
            # step relative to the distance from the singularity of the transform
            h = 1e-5 * ((x - lo) if np.isfinite(lo) else (1 + np.abs(x)))
            xi = x[good]
            hi_ = h[good]
            if kind in ("YeoJohnson", "Modulus"):
                keep = np.abs(xi) > 2 * hi_  # the second derivative jumps at 0
                xi, hi_ = xi[keep], hi_[keep]
            if xi.size:
                with np.errstate(all="ignore"), warnings.catch_warnings():
                    warnings.simplefilter("ignore")
                    fd = (nz.normalize(xi + hi_) - nz.normalize(xi - hi_)) / (2 * hi_)
                    dd = nz.derivative(xi)
                    yi = nz.normalize(xi)
                ev += 2
                # truncation h^2 f'''/6: relative (h/dist)^2 * |(l-1)(l-2)| (power family) resp. (l h)^2 (Manly);
                # rounding: eps * (|y| + 1/lmbda_eff) / h
                curv = (1 + abs(l - 1)) * (1 + abs(l - 2)) * (1 + abs(l)) ** 2
                tfd = 1e-9 * curv * np.abs(dd) + 20 * EPS * (np.abs(yi) + 1 / le + 1) / hi_
                badfd = ~(np.abs(fd - dd) <= tfd)
                if badfd.any() and not inband:
                    i = int(np.argmax(badfd))
                    add(f"api:{kind}:derivative-fd", "derivative differs from the central difference of normalize",
                        dict(x=float(xi[i]), derivative=float(dd[i]), fd=float(fd[i]), **case0))
            # --- mpmath oracle of the documented formulas: values and derivative (tight)
            f, mp = mp_oracle(kind, l, s)
            idx = rng.choice(np.flatnonzero(good), size=min(n_mp, int(good.sum())), replace=False) if good.any() else []
            for i in idx:
                xv = float(x[i])
                want = f(xv)
                ev += 1
                t = 50 * EPS * (abs(float(want)) + 1 / le + 1)
                if not abs(float(want - mp.mpf(float(y[i])))) <= t:
                    add(f"api:{kind}:normalize-vs-formula", "normalize differs from the documented formula",
                        dict(x=xv, got=float(y[i]), want=float(want), **case0))
                if not inband and not (kind in ("YeoJohnson", "Modulus") and abs(xv) < 1e-3):
                    dw = mp.diff(f, xv, h=mp.mpf(10) ** -12)
                    if not abs(float(dw - mp.mpf(float(d[i])))) <= 1e-10 * (abs(float(dw)) + 1):
                        add(f"api:{kind}:derivative-vs-formula", "derivative differs from d/dx of the documented formula",
                            dict(x=xv, got=float(d[i]), want=float(dw), **case0))
            # --- NaN, boundaries and out-of-range inputs give NaN
            probes = [np.nan]
            if np.isfinite(lo):
                probes += [lo, lo - 1.0, np.nextafter(lo, -np.inf)]
            with np.errstate(all="ignore"), warnings.catch_warnings():
                warnings.simplefilter("ignore")
                pn = nz.normalize(np.array(probes))
                pdv = nz.derivative(np.array(probes))
                dprobes = [np.nan] + [b for b in (dlo, dhi) if np.isfinite(b)] + \
                    [b + sg for b, sg in ((dlo, -1.0), (dhi, 1.0)) if np.isfinite(b)]
                pd_ = nz.denormalize(np.array(dprobes))
            ev += 3
            if not (np.isnan(pn).all() and np.isnan(pdv).all() and np.isnan(pd_).all()):
                add(f"api:{kind}:masking", "NaN / boundary / out-of-range input does not give NaN",
                    dict(probes=[float(v) for v in probes], normalize=pn.tolist(), dprobes=[float(v) for v in dprobes],
                         denormalize=pd_.tolist(), **case0))
            # --- normalize(denormalize(y)) == y inside denormalize_range (the image for the BoxCox family / Manly)
            if kind in ("BoxCox", "BoxCoxShift", "Manly", "LogNormal"):
                if np.isfinite(dlo):
                    yy = dlo + np.exp(rng.uniform(-3, 2, size=20)) * min(1.0, 1 / max(abs(l), 1e-3))
                elif np.isfinite(dhi):
                    yy = dhi - np.exp(rng.uniform(-3, 2, size=20)) * min(1.0, 1 / max(abs(l), 1e-3))
                else:
                    yy = rng.uniform(-3, 3, size=20)
                with np.errstate(all="ignore"), warnings.catch_warnings():
                    warnings.simplefilter("ignore")
                    xx = nz.denormalize(yy)
                    dx = nz.derivative(xx)
                    y2 = nz.normalize(xx)
                ev += 2
                g = np.isfinite(xx) & np.isfinite(dx) & (dx > 1e-6) & (dx < 1e6) & (np.abs(xx) < 1e6)
                t2 = 200 * EPS * (np.abs(yy) + 1 / le + np.abs(xx) * np.where(g, dx, 1) + 1)
                if np.isnan(xx).any():
                    add(f"api:{kind}:denormalize-nan-inside-range", "denormalize gives NaN inside denormalize_range",
                        dict(y=float(yy[np.isnan(xx)][0]), **case0))
                elif (g & ~(np.abs(y2 - yy) <= t2)).any():
                    i = int(np.argmax(g & ~(np.abs(y2 - yy) <= t2)))
                    add(f"api:{kind}:roundtrip-normalize-denormalize", "normalize(denormalize(y)) != y inside denormalize_range",
                        dict(y=float(yy[i]), x=float(xx[i]), back=float(y2[i]), **case0))
            elif l < 0 or (kind == "YeoJohnson" and l > 2):
                # observation (not part of the property text): YeoJohnson / Modulus declare (-inf, inf) although the image
                # is bounded; outside the image denormalize returns NaN without warning or, when 1/lmbda is an integer,
                # a finite value that does not normalise back
                obs["declared_range_wider_than_image"] += 1
            # --- likelihood against the independent Gaussian formula
            m = int(rng.randint(4, 30))
            dat = x[good][rng.permutation(int(good.sum()))[:m]] if good.sum() >= 4 else None
            if dat is not None and np.ptp(dat) > 0:
                from scipy.stats import norm as gauss
                with np.errstate(all="ignore"), warnings.catch_warnings():
                    warnings.simplefilter("ignore")
                    ll = float(nz.loglikelihood(dat))
                    kll = float(nz.kernel_loglikelihood(dat))
                    lik = float(nz.likelihood(dat))
                    yv = nz.normalize(dat)
                    dv = nz.derivative(dat)
                ev += 3
                mu, sd = float(np.mean(yv)), float(np.sqrt(np.mean((yv - np.mean(yv)) ** 2)))
                if sd > 1e-9 and (dv >= 1e-16).all():
                    want = float(np.sum(gauss.logpdf(yv, mu, sd)) + np.sum(np.log(dv)))
                    sc = dat.size * (abs(np.log(sd)) + np.max(np.abs(np.log(dv))) + 3)
                    if not abs(ll - want) <= 1e-11 * sc:
                        add(f"api:{kind}:loglikelihood", "loglikelihood differs from sum log N(y; mean, var) + sum log derivative",
                            dict(data=dat.tolist(), got=ll, want=want, **case0))
                    if not abs(kll - (ll + 0.5 * dat.size * (np.log(2 * np.pi) + 1))) <= 1e-11 * sc:
                        add(f"api:{kind}:kernel-loglikelihood", "kernel_loglikelihood is not loglikelihood minus its constant",
                            dict(data=dat.tolist(), kernel=kll, full=ll, **case0))
                    if np.isfinite(lik) and not abs(lik - np.exp(ll)) <= 1e-12 * abs(lik):
                        add(f"api:{kind}:likelihood", "likelihood != exp(loglikelihood)", dict(data=dat.tolist(), **case0))
                    # profile property: no other Gaussian (mu, sigma) gives a larger likelihood
                    for _ in range(3):
                        mu2, sd2 = mu + rng.uniform(-1, 1) * sd, sd * np.exp(rng.uniform(-1, 1))
                        other = float(np.sum(gauss.logpdf(yv, mu2, sd2)) + np.sum(np.log(dv)))
                        if other > ll + 1e-10 * sc:
                            add(f"api:{kind}:loglikelihood-not-profile-max", "another (mu, sigma) beats the reported loglikelihood",
                                dict(data=dat.tolist(), ll=ll, other=other, mu=mu2, sd=sd2, **case0))
    # --- fit: bookkeeping (skip, returned dict, stored result) and maximum likelihood against two independent oracles
    ev_fit, fit_stats = search_fit(ctx, np.random.RandomState(ctx.seed + 1810), add, deep)
    ev += ev_fit
    # --- fit: result is a local maximum of the log-likelihood (sanity only)
    nfit = ctx.scale(4, 25)
    for kind in ("BoxCox", "YeoJohnson", "Modulus", "Manly"):
        for t in range(nfit):
            dat = np.exp(rng.normal(0.3, 0.5, size=40)) if kind == "BoxCox" else rng.gamma(2.0, 1.0, size=40) - 1.0
            if kind == "Manly":
                dat = dat / 2
            nz = make(kind, 1.0, 0.0)
            with warnings.catch_warnings():
                warnings.simplefilter("ignore")
                with np.errstate(all="ignore"):
                    par = nz.fit(dat)
                    lh = par["lmbda"]
                    l0 = nz.loglikelihood(dat)
                    around = []
                    for dl in (-1e-2, 1e-2, -1e-3, 1e-3):
                        around.append(make(kind, lh + dl, 0.0).loglikelihood(dat))
            ev += 1
            if not all(l0 >= a - 1e-7 * (1 + abs(l0)) for a in around):
                add(f"api:{kind}:fit-not-local-max", "fitted lmbda is not a local maximum of loglikelihood",
                    dict(kind=kind, lmbda=float(lh), ll=float(l0), around=[float(a) for a in around], data=dat.tolist()))
            if nz.lmbda != lh:
                add(f"api:{kind}:fit-state", "fit() result differs from the stored parameter", dict(kind=kind))
    # --- field pipelines on the real API (independent numpy oracle for the transforms via normalizer instance of a
    #     *fresh* object + explicit composition)
    npipe = ctx.scale(120, 1200) * (2 if deep else 1)
    from gstools.normalizer import remove_trend_norm_mean
    for t in range(npipe):
        kind = KINDS[int(rng.randint(0, len(KINDS)))]
        l = float(rng.choice([-1.0, -0.5, 0.0, 0.5, 1.0, 2.0, 2.5, float(rng.uniform(-1.5, 3))]))
        s = 4.0
        dim = int(rng.randint(1, 4))
        mesh = str(rng.choice(["unstructured", "structured"]))
        if mesh == "structured":
            # distinct axis lengths (equal lengths are mis-read by format_struct_pos_shape, not a C18 matter)
            pos = [np.linspace(0, 3, int(k)) + 0.1 * j for j, k in enumerate(rng.permutation([2, 3, 4])[:dim])]
            grid = np.meshgrid(*pos, indexing="ij")
        else:
            pos = [rng.uniform(0, 3, size=7) for _ in range(dim)]
            grid = pos
        c = float(rng.uniform(-0.3, 0.3))
        a = rng.uniform(-0.1, 0.1, size=dim)
        lin = lambda *p: c + sum(ai * np.asarray(pi, dtype=float) for ai, pi in zip(a, p))
        mopt = [(None, 0.0), (c, c), (lin, lin(*grid))][int(rng.randint(0, 3))]
        topt = [(None, 0.0), (1.5, 1.5), (lin, lin(*grid))][int(rng.randint(0, 3))]
        model = gs.Exponential(dim=dim, var=0.05, len_scale=1.0)
        case = dict(kind=kind, lmbda=l, shift=s, dim=dim, mesh=mesh, mean=type(mopt[0]).__name__, trend=type(topt[0]).__name__)
        try:
            with warnings.catch_warnings():
                warnings.simplefilter("ignore")
                with np.errstate(all="ignore"):
                    srf = gs.SRF(model, mean=mopt[0], normalizer=make(kind, l, s), trend=topt[0], seed=int(rng.randint(1, 10**6)),
                                 mode_no=32)
                    raw = np.array(srf(pos, mesh_type=mesh, post_process=False, store="raw"))
                    outp = np.array(srf(pos, mesh_type=mesh, post_process=True, store="out"))
                    oracle = make(kind, l, s)   # fresh instance, explicit composition
                    want = topt[1] + oracle.denormalize(mopt[1] + raw)
                    back = remove_trend_norm_mean(pos, outp, mean=mopt[0], normalizer=make(kind, l, s), trend=topt[0],
                                                  mesh_type=mesh)
            ev += 3
            if not np.allclose(outp, want, rtol=1e-13, atol=1e-13, equal_nan=True):
                add("api:srf:pipeline", "SRF output != trend + denormalize(mean + raw field)", case)
            ok = np.isfinite(outp)
            dd = make(kind, l, s).derivative(np.where(ok, outp - topt[1], 1.0))
            g = ok & np.isfinite(dd) & (dd > 1e-5)
            if not (np.abs(back - raw)[g] <= 1e3 * EPS * (1 + np.abs(raw[g]) + np.abs((mopt[1] + raw)[g]) + np.abs(outp[g]) * dd[g]) *
                    (1 + 1 / lam_eff(kind, l))).all():
                add("api:srf:remove-apply", "remove_trend_norm_mean(SRF output) != raw field", case)
            # kriging through the pipeline: conditions are honoured after post-processing
            cpos = [rng.uniform(0, 3, size=5) for _ in range(dim)]
            cm = (lin(*cpos) if callable(mopt[0]) else mopt[1]) + 0 * cpos[0]
            ct = (lin(*cpos) if callable(topt[0]) else topt[1]) + 0 * cpos[0]
            cval = ct + make(kind, l, s).denormalize(cm + rng.uniform(-0.3, 0.3, size=5))
            if np.isfinite(cval).all():
                with warnings.catch_warnings():
                    warnings.simplefilter("ignore")
                    kr = gs.krige.Krige(model, cpos, cval, mean=mopt[0], normalizer=make(kind, l, s), trend=topt[0], unbiased=False)
                    kf, _ = kr(cpos)
                    kc = np.array(kr._krige_cond)
                ev += 2
                wantc = make(kind, l, s).normalize(cval - ct) - cm
                if not np.allclose(kc, wantc, rtol=1e-13, atol=1e-13, equal_nan=True):
                    add("api:krige:conditions", "Krige._krige_cond != normalize(cond_val - trend) - mean", case)
                if not np.allclose(kf, cval, rtol=1e-7, atol=1e-7):
                    add("api:krige:pipeline", "kriged field at the conditions != conditioning values after post-processing", case)
                # Krige and CondSRF output with post_process on / off on the same target points
                with warnings.catch_warnings():
                    warnings.simplefilter("ignore")
                    with np.errstate(all="ignore"):
                        kraw, _ = kr(pos, mesh_type=mesh, post_process=False, store=False)
                        kout, _ = kr(pos, mesh_type=mesh, post_process=True, store=False)
                        csrf = gs.CondSRF(kr, seed=int(rng.randint(1, 10**6)), mode_no=16)
                        sd = int(rng.randint(1, 10**6))
                        craw = np.array(csrf(pos, mesh_type=mesh, seed=sd, post_process=False, store=False))
                        cout = np.array(csrf(pos, mesh_type=mesh, seed=sd, post_process=True, store=False))
                ev += 4
                if not np.allclose(kout, topt[1] + oracle.denormalize(mopt[1] + np.array(kraw)), rtol=1e-13, atol=1e-13, equal_nan=True):
                    add("api:krige:post-process", "Krige output != trend + denormalize(mean + raw kriging field)", case)
                if not np.allclose(cout, topt[1] + oracle.denormalize(mopt[1] + craw), rtol=1e-13, atol=1e-13, equal_nan=True):
                    add("api:condsrf:post-process", "CondSRF output != trend + denormalize(mean + raw conditioned field)", case)
            # vector SRF (incompressible generator): constant mean / trend broadcast over the components
            if dim > 1 and t % 3 == 0:
                with warnings.catch_warnings():
                    warnings.simplefilter("ignore")
                    with np.errstate(all="ignore"):
                        cm_, ct_ = float(rng.uniform(-0.2, 0.2)), float(rng.uniform(-1, 1))
                        vs = gs.SRF(gs.Gaussian(dim=dim, var=0.05, len_scale=1.0), generator="VectorField", mean=cm_,
                                    normalizer=make(kind, l, s), trend=ct_, seed=int(rng.randint(1, 10**6)), mode_no=16)
                        vraw = np.array(vs(pos, mesh_type=mesh, post_process=False, store=False))
                        vout = np.array(vs(pos, mesh_type=mesh, post_process=True, store=False))
                ev += 2
                if vraw.shape[0] != dim or not np.allclose(vout, ct_ + oracle.denormalize(cm_ + vraw), rtol=1e-13, atol=1e-13, equal_nan=True):
                    add("api:srf:vector-pipeline", "vector SRF output != trend + denormalize(mean + raw field)", case)
        except Exception as ex:
            add("api:pipeline:exception", f"{type(ex).__name__}: {ex}", case)
    # --- every field class: the pipeline by hand around an object without mean / normalizer / trend
    ev += search_class_pipeline(ctx, np.random.RandomState(ctx.seed + 1820), add, deep)
    ev += search_vector_pipeline(ctx, np.random.RandomState(ctx.seed + 1830), add)
    # --- replay of the Lean witness `norm_denorm_full_false` on the implementation (observation, see final report)
    with warnings.catch_warnings(), np.errstate(all="ignore"):
        warnings.simplefilter("ignore")
        yj = make("YeoJohnson", -1.0, 0.0)
        w1 = float(yj.denormalize([2.0])[0])
        w2 = float(yj.normalize([w1])[0])
        # witness of `derivative_full_false`: inside the isclose band the reported derivative keeps lmbda
        mb = make("Manly", 1e-9, 0.0)
        w3 = float(mb.derivative([1.0])[0])
        w4 = float((mb.normalize([1.0 + 1e-3])[0] - mb.normalize([1.0 - 1e-3])[0]) / 2e-3)
    ev += 1
    witness_ok = (w1 == -2.0) and abs(w2 + 26.0 / 3.0) < 1e-12 and abs(w3 - np.exp(1e-9)) < 1e-15 and abs(w4 - 1.0) < 1e-12
    if not witness_ok:
        ctx.log("note: a Lean witness (norm_denorm_full_false / derivative_full_false) no longer replays on the implementation:", w1, w2, w3, w4)
    return {"evaluations": ev, "violations": viol,
            "summary": f"{ev} real-API evaluations: round trips, range image, monotone grids, derivative vs FD and mpmath formula, "
                       f"masking probes, likelihood vs scipy.stats Gaussian + profile maximality, fit local max, SRF/Krige pipelines; "
                       f"every field class (Simple, Ordinary, Universal, ExtDrift, Detrended, generic Krige with drift_functions / ext_drift, "
                       f"SRF, CondSRF on each kriging class) x normalizer (also fitted) x none / constant / callable mean and trend x dim 1-3 x "
                       f"structured / unstructured against the pipeline done by hand around an object of the same class WITHOUT mean / "
                       f"normalizer / trend (conditions normalize(cond_val - trend) - mean, output trend + denormalize(mean + raw), variance "
                       f"untouched, public mean / trend / normalizer attributes are the caller's arguments); "
                       f"fit(): {fit_stats['fits']} real fits over every class x every subset of skipped names x start values x optimiser "
                       f"keyword arguments + constructor data= / remove_trend_norm_mean / Krige fit_normalizer (skipped parameters "
                       f"bit-identical, returned dict == object == optimiser result), {fit_stats['ml_checked']} of them compared with "
                       f"brute-force maximum likelihood (independent definition and class formulas; optimiser reported failure "
                       f"{fit_stats['optimiser_failed']}x, non-finite parameter {fit_stats['nonfinite']}x, data out of range at the optimum "
                       f"{fit_stats['data_out_of_range']}x, likelihood without interior maximum in the shift {fit_stats['no_interior_maximum']}x, fitted "
                       f"values outside the comparison window |lmbda|<=6, shift+min(x) in [1e-4, 1e3] x spread {fit_stats['outside_window']}x); "
                       f"{len(viol)} violations; observation: {obs['declared_range_wider_than_image']} YeoJohnson/Modulus parameter "
                       f"sets whose declared denormalize_range (-inf, inf) is wider than the image (witness lmbda=-1, y=2 -> "
                       f"{w1}, back {w2:.6g}); in-band derivative witness Manly(1e-9).derivative(1)={w3!r} vs slope {w4!r}; "
                       f"Lean witnesses replay on the implementation: {witness_ok}"}
